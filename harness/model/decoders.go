// Package model holds the executable reference models and the standard decoders
// used as oracles.
package model

import (
	"html"
	"strconv"
	"strings"
	"unicode/utf8"
)

// DecodeHTML is the HTML5 character-reference decoder (Go's html.UnescapeString).
func DecodeHTML(s string) string { return html.UnescapeString(s) }

func isHex(c byte) bool {
	return c >= '0' && c <= '9' || c >= 'a' && c <= 'f' || c >= 'A' && c <= 'F'
}

// DecodeJS decodes the escape sequences of an ECMAScript string literal body:
// \uXXXX (UTF-16 code units, surrogate pairs combined, lone surrogates become
// U+FFFD), \u{X...}, \xHH, single-character escapes and line continuations.
func DecodeJS(s string) (string, bool) {
	var units []uint16 // UTF-16 code units
	push := func(r rune) {
		if r >= 0x10000 {
			r -= 0x10000
			units = append(units, uint16(0xD800+(r>>10)), uint16(0xDC00+(r&0x3FF)))
		} else {
			units = append(units, uint16(r))
		}
	}
	for i := 0; i < len(s); {
		c := s[i]
		if c != '\\' {
			r, w := utf8.DecodeRuneInString(s[i:])
			push(r)
			i += w
			continue
		}
		i++
		if i >= len(s) {
			return "", false
		}
		switch e := s[i]; e {
		case 'u':
			if i+1 < len(s) && s[i+1] == '{' {
				j := strings.IndexByte(s[i:], '}')
				if j < 0 {
					return "", false
				}
				v, err := strconv.ParseUint(s[i+2:i+j], 16, 32)
				if err != nil || v > 0x10FFFF {
					return "", false
				}
				push(rune(v))
				i += j + 1
				continue
			}
			if i+5 > len(s) {
				return "", false
			}
			h := s[i+1 : i+5]
			for k := 0; k < 4; k++ {
				if !isHex(h[k]) {
					return "", false
				}
			}
			v, _ := strconv.ParseUint(h, 16, 32)
			units = append(units, uint16(v))
			i += 5
		case 'x':
			if i+3 > len(s) || !isHex(s[i+1]) || !isHex(s[i+2]) {
				return "", false
			}
			v, _ := strconv.ParseUint(s[i+1:i+3], 16, 32)
			units = append(units, uint16(v))
			i += 3
		case 'n':
			units = append(units, '\n')
			i++
		case 'r':
			units = append(units, '\r')
			i++
		case 't':
			units = append(units, '\t')
			i++
		case 'b':
			units = append(units, '\b')
			i++
		case 'f':
			units = append(units, '\f')
			i++
		case 'v':
			units = append(units, '\v')
			i++
		case '0':
			if i+1 < len(s) && s[i+1] >= '0' && s[i+1] <= '9' {
				return "", false // legacy octal: not accepted
			}
			units = append(units, 0)
			i++
		case '\n':
			i++
		default:
			if e >= '1' && e <= '9' {
				return "", false
			}
			r, w := utf8.DecodeRuneInString(s[i:])
			push(r)
			i += w
		}
	}
	// UTF-16 -> string
	var b strings.Builder
	for i := 0; i < len(units); i++ {
		u := rune(units[i])
		switch {
		case u >= 0xD800 && u < 0xDC00 && i+1 < len(units) && units[i+1] >= 0xDC00 && units[i+1] < 0xE000:
			b.WriteRune(0x10000 + (u-0xD800)<<10 + (rune(units[i+1]) - 0xDC00))
			i++
		case u >= 0xD800 && u < 0xE000:
			b.WriteRune(0xFFFD)
		default:
			b.WriteRune(u)
		}
	}
	return b.String(), true
}

// DecodeCSS decodes CSS Syntax Level 3 escapes: a backslash followed by 1-6 hex
// digits and one optional white space (CRLF counts as one), or by any other
// character which then stands for itself.
func DecodeCSS(s string) (string, bool) {
	var b strings.Builder
	for i := 0; i < len(s); {
		c := s[i]
		if c != '\\' {
			b.WriteByte(c)
			i++
			continue
		}
		i++
		if i >= len(s) {
			return "", false
		}
		if isHex(s[i]) {
			j := i
			for j < len(s) && j-i < 6 && isHex(s[j]) {
				j++
			}
			v, _ := strconv.ParseUint(s[i:j], 16, 32)
			if v == 0 || v > 0x10FFFF || (v >= 0xD800 && v < 0xE000) {
				v = 0xFFFD
			}
			b.WriteRune(rune(v))
			i = j
			if i < len(s) {
				switch s[i] {
				case '\r':
					i++
					if i < len(s) && s[i] == '\n' {
						i++
					}
				case ' ', '\t', '\n', '\f':
					i++
				}
			}
			continue
		}
		if s[i] == '\n' || s[i] == '\r' || s[i] == '\f' {
			return "", false
		}
		r, w := utf8.DecodeRuneInString(s[i:])
		b.WriteRune(r)
		i += w
	}
	return b.String(), true
}

// DecodeURL is RFC 3986 percent-decoding.
func DecodeURL(s string) (string, bool) {
	var b strings.Builder
	for i := 0; i < len(s); i++ {
		if s[i] != '%' {
			b.WriteByte(s[i])
			continue
		}
		if i+3 > len(s) || !isHex(s[i+1]) || !isHex(s[i+2]) {
			return "", false
		}
		v, _ := strconv.ParseUint(s[i+1:i+3], 16, 8)
		b.WriteByte(byte(v))
		i += 2
	}
	return b.String(), true
}
