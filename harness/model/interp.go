package model

import (
	"errors"
	"fmt"
	"math"
	"regexp"
	"sort"
	"strconv"
	"strings"

	"verifharness/gen"
)

// Interp is the executable reference model of the claimed sub-language. It was
// written from the property statements and the language documentation, not from
// the executor; where the statements leave a behaviour open it panics with
// OutOfRegion instead of taking a side.
type Interp struct {
	Prog  map[string]*gen.Template
	Calls []Call
	Steps int
	// NameObs records the template name current at every recorded call (also in Calls[i].Tpl).
	// SeqAliases: the aliases of one use statement apply one after the other in source order, each seeing the
	// names the earlier ones introduced; otherwise every alias names the library's own block.
	SeqAliases bool
}

// ErrModel is an error the model expects the implementation to report too.
type ErrModel struct{ Msg string }

func (e *ErrModel) Error() string { return e.Msg }

func merr(format string, a ...interface{}) error { return &ErrModel{fmt.Sprintf(format, a...)} }

// MacroSet is the value of an import alias.
type MacroSet struct {
	Tpl  string
	Defs map[string]*gen.NMacro
}

type selfVal struct{ name string }

type chainEntry struct {
	tpl    string
	blocks map[string]blockDef
}

type blockDef struct {
	body   []gen.Node
	origin string
}

type rstate struct {
	in          *Interp
	out         *strings.Builder
	scopes      []map[string]interface{}
	name        string
	chain       []chainEntry
	curIdx      int    // chain index of the block definition being rendered, -1 outside blocks
	curName     string // its name
	macros      map[string]macroRef
	localMacros map[string]macroRef
}

type macroRef struct {
	def    *gen.NMacro
	origin string
}

// Render executes template name with the given context (already normalised)
// and returns the output written to the main writer and the error, if any.
func (in *Interp) Render(name string, ctx map[string]interface{}) (string, error) {
	var out strings.Builder
	err := in.exec(name, &out, ctx)
	return out.String(), err
}

func (in *Interp) exec(name string, out *strings.Builder, ctx map[string]interface{}) error {
	tpl, ok := in.Prog[name]
	if !ok {
		return merr("template %q not found", name)
	}
	s := &rstate{in: in, out: out, scopes: []map[string]interface{}{ctx}, name: name, curIdx: -1,
		macros: map[string]macroRef{}, localMacros: map[string]macroRef{}}
	s.chain = []chainEntry{{name, collectBlocks(tpl.Body, name)}}
	return s.module(tpl)
}

func collectBlocks(nodes []gen.Node, origin string) map[string]blockDef {
	m := map[string]blockDef{}
	var walk func(ns []gen.Node)
	walk = func(ns []gen.Node) {
		for _, n := range ns {
			switch n := n.(type) {
			case *gen.NBlock:
				m[n.Name] = blockDef{n.Body, origin}
				walk(n.Body)
			case *gen.NIf:
				for _, b := range n.Bodies {
					walk(b)
				}
				walk(n.Else)
			case *gen.NFor:
				walk(n.Body)
				walk(n.Else)
			case *gen.NSetCap:
				walk(n.Body)
			case *gen.NFilter:
				walk(n.Body)
			case *gen.NMacro:
				walk(n.Body)
			}
		}
	}
	walk(nodes)
	return m
}

// collectMacros: the macros of a template, wherever their definitions stand (at the top, inside a condition, a
// loop, a block, a capture, a filter section, another macro): an import or from-import sees them all.
func collectMacros(nodes []gen.Node) map[string]*gen.NMacro {
	m := map[string]*gen.NMacro{}
	var walk func(ns []gen.Node)
	walk = func(ns []gen.Node) {
		for _, n := range ns {
			switch n := n.(type) {
			case *gen.NMacro:
				m[n.Name] = n
				walk(n.Body)
			case *gen.NBlock:
				walk(n.Body)
			case *gen.NIf:
				for _, b := range n.Bodies {
					walk(b)
				}
				walk(n.Else)
			case *gen.NFor:
				walk(n.Body)
				walk(n.Else)
			case *gen.NSetCap:
				walk(n.Body)
			case *gen.NFilter:
				walk(n.Body)
			case *gen.NEmbed:
				for _, b := range n.Blocks {
					walk(b.Body)
				}
			}
		}
	}
	walk(nodes)
	return m
}

func findExtends(t *gen.Template) *gen.NExtends {
	for _, n := range t.Body {
		if e, ok := n.(*gen.NExtends); ok {
			return e
		}
	}
	return nil
}

func (s *rstate) module(t *gen.Template) error {
	ext := findExtends(t)
	if ext == nil {
		return s.nodes(t.Body)
	}
	pv, err := s.eval(ext.Tpl)
	if err != nil {
		return err
	}
	pname := Str(pv)
	pt, ok := s.in.Prog[pname]
	if !ok {
		return merr("template %q not found", pname)
	}
	saved := s.name
	defer func() { s.name = saved }()
	s.name = pname
	s.chain = append(s.chain, chainEntry{pname, collectBlocks(pt.Body, pname)})
	// of what a child has outside its blocks, the statements that define something take effect before the parent
	// is rendered: use, macro definitions, imports and assignments; everything else is ignored
	for _, n := range t.Body {
		switch u := n.(type) {
		case *gen.NUse:
			if err := s.use(u); err != nil {
				return err
			}
		case *gen.NMacro:
			s.localMacros[u.Name] = macroRef{u, t.Name}
		case *gen.NImport, *gen.NFrom, *gen.NSet, *gen.NSetCap:
			if err := s.node(n); err != nil {
				return err
			}
		}
	}
	return s.module(pt)
}

func (s *rstate) use(u *gen.NUse) error {
	v, err := s.eval(u.Tpl)
	if err != nil {
		return err
	}
	name := Str(v)
	t, ok := s.in.Prog[name]
	if !ok {
		return merr("template %q not found", name)
	}
	blocks := collectBlocks(t.Body, name)
	// every alias names a block of the library as the library defines it: the aliases of one statement do not
	// feed each other
	lib := collectBlocks(t.Body, name)
	if s.in.SeqAliases {
		lib = blocks
	}
	for _, a := range u.Aliases {
		b, ok := lib[a[0]]
		if !ok {
			return merr("use: no block %q", a[0])
		}
		blocks[a[1]] = b
	}
	if len(s.chain) < 2 {
		oor("use in a template that does not extend")
	}
	l := len(s.chain)
	last := s.chain[l-1]
	s.chain = append(append(append([]chainEntry{}, s.chain[:l-1]...), chainEntry{name, blocks}), last)
	if s.curIdx >= l-1 {
		oor("use while rendering a block")
	}
	return nil
}

func (s *rstate) lookup(name string) (interface{}, bool) {
	for i := len(s.scopes) - 1; i >= 0; i-- {
		if v, ok := s.scopes[i][name]; ok {
			return v, true
		}
	}
	return nil, false
}

func (s *rstate) set(name string, v interface{}) {
	for i := len(s.scopes) - 1; i >= 0; i-- {
		if _, ok := s.scopes[i][name]; ok {
			s.scopes[i][name] = v
			return
		}
	}
	s.scopes[len(s.scopes)-1][name] = v
}

func (s *rstate) flat() map[string]interface{} {
	m := map[string]interface{}{}
	for _, sc := range s.scopes {
		for k, v := range sc {
			m[k] = v
		}
	}
	return m
}

func (s *rstate) nodes(ns []gen.Node) error {
	for _, n := range ns {
		if err := s.node(n); err != nil {
			return err
		}
	}
	return nil
}

func (s *rstate) capture(f func() error) (string, error) {
	saved := s.out
	var buf strings.Builder
	s.out = &buf
	err := f()
	s.out = saved
	return buf.String(), err
}

func (s *rstate) node(n gen.Node) error {
	s.in.Steps++
	switch n := n.(type) {
	case *gen.NText:
		s.out.WriteString(n.S)
	case *gen.NComment:
	case *gen.NVerbatim:
		s.out.WriteString(n.S)
	case *gen.NPrint:
		v, err := s.eval(n.X)
		if err != nil {
			return err
		}
		s.out.WriteString(Str(v))
	case *gen.NIf:
		for i, c := range n.Conds {
			v, err := s.eval(c)
			if err != nil {
				return err
			}
			if truthR(v) {
				return s.nodes(n.Bodies[i])
			}
		}
		if n.HasElse {
			return s.nodes(n.Else)
		}
	case *gen.NFor:
		return s.forLoop(n)
	case *gen.NSet:
		v, err := s.eval(n.X)
		if err != nil {
			return err
		}
		s.set(n.Name, v)
	case *gen.NSetCap:
		str, err := s.capture(func() error { return s.nodes(n.Body) })
		if err != nil {
			return err
		}
		s.set(n.Name, str)
	case *gen.NFilter:
		str, err := s.capture(func() error { return s.nodes(n.Body) })
		if err != nil {
			return err
		}
		var val interface{} = str
		for _, f := range n.Filters {
			if !contains(FilterNames, f) {
				return merr("undefined filter %q", f)
			}
			s.in.Calls = append(s.in.Calls, Call{"filter", f, []string{Repr(val)}, s.name})
			val = Str(FilterResult(f, val, nil, Str, Num))
		}
		s.out.WriteString(Str(val))
	case *gen.NBlock:
		return s.renderBlock(n.Name)
	case *gen.NMacro:
		s.localMacros[n.Name] = macroRef{n, s.name}
	case *gen.NImport:
		v, err := s.eval(n.Tpl)
		if err != nil {
			return err
		}
		t, ok := s.in.Prog[Str(v)]
		if !ok {
			return merr("template %q not found", Str(v))
		}
		s.set(n.Alias, &MacroSet{Str(v), collectMacros(t.Body)})
	case *gen.NFrom:
		v, err := s.eval(n.Tpl)
		if err != nil {
			return err
		}
		t, ok := s.in.Prog[Str(v)]
		if !ok {
			return merr("template %q not found", Str(v))
		}
		ms := collectMacros(t.Body)
		// the implementation imports in map order; an unknown name is an error either way
		for _, nm := range n.Names {
			if _, ok := ms[nm[0]]; !ok {
				return merr("undefined macro %q", nm[0])
			}
		}
		for _, nm := range n.Names {
			s.macros[nm[1]] = macroRef{ms[nm[0]], Str(v)}
		}
	case *gen.NInclude:
		name, ctx, err := s.includeArgs(n.Tpl, n.With, n.Only)
		if err != nil {
			return err
		}
		return s.in.exec(name, s.out, ctx)
	case *gen.NEmbed:
		name, ctx, err := s.includeArgs(n.Tpl, n.With, n.Only)
		if err != nil {
			return err
		}
		t, ok := s.in.Prog[name]
		if !ok {
			return merr("template %q not found", name)
		}
		over := map[string]blockDef{}
		for _, b := range n.Blocks {
			over[b.Name] = blockDef{b.Body, s.name}
			for k, v := range collectBlocks(b.Body, s.name) {
				over[k] = v
			}
		}
		es := &rstate{in: s.in, out: s.out, scopes: []map[string]interface{}{ctx}, name: name, curIdx: -1,
			macros: map[string]macroRef{}, localMacros: map[string]macroRef{}}
		es.chain = []chainEntry{{s.name, over}, {name, collectBlocks(t.Body, name)}}
		return es.module(t)
	case *gen.NExtends, *gen.NUse:
		// handled by module(); a use outside an extending template is out of region
		if u, ok := n.(*gen.NUse); ok {
			// an embedded template has the overrides of the embed in front of its own blocks: what it imports
			// with use goes in between, as for an extending template. A template that is neither extending nor
			// embedded is out of region.
			return s.use(u)
		}
	case *gen.NDo:
		_, err := s.eval(n.X)
		return err
	default:
		oor("model: unknown node %T", n)
	}
	return nil
}

func contains(xs []string, x string) bool {
	for _, y := range xs {
		if x == y {
			return true
		}
	}
	return false
}

func (s *rstate) includeArgs(tpl, with gen.Expr, only bool) (string, map[string]interface{}, error) {
	v, err := s.eval(tpl)
	if err != nil {
		return "", nil, err
	}
	var w interface{}
	if with != nil {
		if w, err = s.eval(with); err != nil {
			return "", nil, err
		}
	}
	ctx := map[string]interface{}{}
	if !only {
		ctx = s.flat()
	}
	if w != nil {
		h, ok := w.(map[string]interface{})
		if !ok {
			oor("with-value is not a hash")
		}
		for k, e := range h {
			ctx[k] = e
		}
	}
	return Str(v), ctx, nil
}

func (s *rstate) renderBlock(name string) error {
	for i, ce := range s.chain {
		if b, ok := ce.blocks[name]; ok {
			return s.inBlock(i, name, b, func() error { return s.nodes(b.body) })
		}
	}
	return merr("unable to locate block %q", name)
}

func (s *rstate) inBlock(idx int, name string, b blockDef, f func() error) error {
	sn, si, sc := s.name, s.curIdx, s.curName
	s.name, s.curIdx, s.curName = b.origin, idx, name
	err := f()
	s.name, s.curIdx, s.curName = sn, si, sc
	return err
}

func (s *rstate) forLoop(n *gen.NFor) error {
	seq, err := s.eval(n.Seq)
	if err != nil {
		return err
	}
	type kv struct{ k, v interface{} }
	var items []kv
	switch x := seq.(type) {
	case nil:
	case []interface{}:
		for i, e := range x {
			items = append(items, kv{float64(i), e})
		}
	case map[string]interface{}:
		keys := make([]string, 0, len(x))
		for k := range x {
			keys = append(keys, k)
		}
		if len(keys) > 1 {
			oor("iteration order of a multi-entry hash")
		}
		sort.Strings(keys)
		for _, k := range keys {
			items = append(items, kv{k, x[k]})
		}
	default:
		return merr("unable to iterate over %T", seq)
	}
	ln := len(items)
	for i, it := range items {
		sc := map[string]interface{}{}
		if n.Key != "" {
			sc[n.Key] = it.k
		}
		sc[n.Val] = it.v
		loop := map[string]interface{}{
			"index": float64(i + 1), "index0": float64(i), "revindex": float64(ln - i), "revindex0": float64(ln - i - 1),
			"first": i == 0, "last": i == ln-1, "length": float64(ln),
		}
		if p, ok := s.lookup("loop"); ok {
			loop["parent"] = p
		}
		sc["loop"] = loop
		s.scopes = append(s.scopes, sc)
		var err error
		run := true
		if n.Cond != nil {
			var cv interface{}
			cv, err = s.eval(n.Cond)
			run = err == nil && truthR(cv)
		}
		if err == nil && run {
			err = s.nodes(n.Body)
		}
		s.scopes = s.scopes[:len(s.scopes)-1]
		if err != nil {
			return err
		}
	}
	if ln == 0 && n.HasElse {
		return s.nodes(n.Else)
	}
	return nil
}

func (s *rstate) callMacro(m macroRef, args []interface{}) (interface{}, error) {
	sc := map[string]interface{}{}
	for i, p := range m.def.Params {
		if i < len(args) {
			sc[p] = args[i]
		} else {
			sc[p] = nil
		}
	}
	saved := s.scopes
	s.scopes = []map[string]interface{}{sc}
	sn := s.name
	s.name = m.origin
	str, err := s.capture(func() error { return s.nodes(m.def.Body) })
	s.name = sn
	s.scopes = saved
	if err != nil {
		return nil, err
	}
	return str, nil
}

func (s *rstate) evalArgs(es []gen.Expr) ([]interface{}, error) {
	out := make([]interface{}, len(es))
	for i, e := range es {
		v, err := s.eval(e)
		if err != nil {
			return nil, err
		}
		out[i] = v
	}
	return out, nil
}

func reprs(vs []interface{}) []string {
	out := make([]string, len(vs))
	for i, v := range vs {
		out[i] = Repr(v)
	}
	return out
}

// truthR is boolean coercion inside the agreement region: negative numbers, the
// string "0" and arrays/hashes are where the documented coercion and Twig differ.
func truthR(v interface{}) bool {
	switch x := v.(type) {
	case float64:
		if x < 0 {
			oor("negative number in a boolean context")
		}
	case string:
		if x == "0" {
			oor("string \"0\" in a boolean context")
		}
	case []interface{}, map[string]interface{}, *MacroSet:
		oor("%T in a boolean context", v)
	}
	return Truth(v)
}

func isInt(f float64) bool { return f == math.Trunc(f) && !math.IsInf(f, 0) }

// equal is == inside the agreement region.
func equal(a, b interface{}) bool {
	switch x := a.(type) {
	case nil:
		switch y := b.(type) {
		case nil:
			return true
		case bool:
			return !y
		case string:
			if y == "" {
				return true
			}
		}
	case bool:
		switch y := b.(type) {
		case bool:
			return x == y
		case nil:
			return !x
		}
	case float64:
		switch y := b.(type) {
		case float64:
			return x == y
		case string:
			if IsCanonNumeric(y) {
				return FmtNum(x) == y
			}
			if _, err := strconv.ParseFloat(y, 64); err != nil {
				return false // a number never equals a non-numeric string
			}
		}
	case string:
		switch y := b.(type) {
		case string:
			return x == y
		case float64:
			return equal(b, a)
		case nil:
			if x == "" {
				return true
			}
		}
	}
	oor("equality between %T(%v) and %T(%v)", a, a, b, b)
	return false
}

func (s *rstate) eval(e gen.Expr) (interface{}, error) {
	s.in.Steps++
	switch e := e.(type) {
	case *gen.ENum:
		f, err := strconv.ParseFloat(e.Text, 64)
		if err != nil {
			oor("bad number literal %q", e.Text)
		}
		return f, nil
	case *gen.EStr:
		return e.S, nil
	case *gen.EStrExpr:
		return e.S, nil
	case *gen.EBool:
		return e.V, nil
	case *gen.ENull:
		return nil, nil
	case *gen.EName:
		if e.Name == "_self" {
			return selfVal{s.name}, nil
		}
		// an undefined variable is null (Twig's non-strict mode, which stick implements)
		v, _ := s.lookup(e.Name)
		return v, nil
	case *gen.EGroup:
		return s.eval(e.X)
	case *gen.EUn:
		v, err := s.eval(e.X)
		if err != nil {
			return nil, err
		}
		switch e.Op {
		case "not":
			return !truthR(v), nil
		case "-":
			if arith(v) == 0 {
				oor("unary minus on zero")
			}
			return -arith(v), nil
		case "+":
			return arith(v), nil
		}
		oor("unary %q", e.Op)
	case *gen.EBin:
		l, err := s.eval(e.L)
		if err != nil {
			return nil, err
		}
		r, err := s.eval(e.R)
		if err != nil {
			return nil, err
		}
		return s.binary(e.Op, l, r)
	case *gen.ETern:
		c, err := s.eval(e.C)
		if err != nil {
			return nil, err
		}
		if truthR(c) {
			return s.eval(e.A)
		}
		return s.eval(e.B)
	case *gen.ETest:
		v, err := s.eval(e.X)
		if err != nil {
			return nil, err
		}
		if !contains(TestNames, e.Test) {
			return nil, merr("unknown test %q", e.Test)
		}
		args, err := s.evalArgs(e.Args)
		if err != nil {
			return nil, err
		}
		s.in.Calls = append(s.in.Calls, Call{"test", e.Test, append([]string{Repr(v)}, reprs(args)...), s.name})
		res := TestResult(e.Test, v, args, Str, Num)
		if e.Not {
			res = !res
		}
		return res, nil
	case *gen.ECall:
		if m, ok := s.macros[e.Fn]; ok {
			args, err := s.evalArgs(e.Args)
			if err != nil {
				return nil, err
			}
			return s.callMacro(m, args)
		}
		if e.Fn == "probe" {
			// probe('a','b',...) reports which names are visible and their values; it is the
			// model's counterpart of a registered function that inspects Context.Scope().
			var b strings.Builder
			for _, a := range e.Args {
				name := a.(*gen.EStr).S
				if v, ok := s.lookup(name); ok {
					b.WriteString(name + "=" + Str(v) + ";")
				} else {
					b.WriteString(name + "=U;")
				}
			}
			return b.String(), nil
		}
		if e.Fn == "render" || e.Fn == "setvar" {
			// callbacks that use the context they are handed: render(name) executes another template from inside
			// the call - on the same environment, into a buffer of its own, with a copy of everything visible - and
			// returns what it wrote (a failure yields RENDER-ERROR); setvar(name, value) assigns through the
			// context's scope, like a set statement at that point
			args, err := s.evalArgs(e.Args)
			if err != nil {
				return nil, err
			}
			if e.Fn == "setvar" {
				if len(args) != 2 {
					oor("setvar takes a name and a value")
				}
				s.set(Str(args[0]), args[1])
				return "", nil
			}
			if len(args) != 1 {
				oor("render takes a name")
			}
			var buf strings.Builder
			if err := s.in.exec(Str(args[0]), &buf, s.flat()); err != nil {
				return "RENDER-ERROR", nil
			}
			return buf.String(), nil
		}
		if e.Fn == "names" {
			seen := map[string]bool{}
			var ns []string
			for _, sc := range s.scopes {
				for n := range sc {
					if !seen[n] {
						seen[n] = true
						ns = append(ns, n)
					}
				}
			}
			sort.Strings(ns)
			return strings.Join(ns, ","), nil
		}
		if !contains(FuncNames, e.Fn) {
			return nil, merr("undeclared function %q", e.Fn)
		}
		args, err := s.evalArgs(e.Args)
		if err != nil {
			return nil, err
		}
		s.in.Calls = append(s.in.Calls, Call{"func", e.Fn, reprs(args), s.name})
		return FuncResult(e.Fn, args, Str, Num, Truth), nil
	case *gen.EFilter:
		if !contains(FilterNames, e.Name) {
			return nil, merr("undeclared filter %q", e.Name)
		}
		v, err := s.eval(e.X)
		if err != nil {
			return nil, err
		}
		args, err := s.evalArgs(e.Args)
		if err != nil {
			return nil, err
		}
		s.in.Calls = append(s.in.Calls, Call{"filter", e.Name, append([]string{Repr(v)}, reprs(args)...), s.name})
		return FilterResult(e.Name, v, args, Str, Num), nil
	case *gen.EAttr:
		c, err := s.eval(e.X)
		if err != nil {
			return nil, err
		}
		k, err := s.eval(e.Key)
		if err != nil {
			return nil, err
		}
		switch x := c.(type) {
		case []interface{}:
			var f float64
			switch kk := k.(type) {
			case float64:
				f = kk
			case string:
				if !IsCanonNumeric(kk) {
					oor("non-numeric index on an array")
				}
				f = Num(kk)
			default:
				oor("array index of type %T", k)
			}
			if !isInt(f) {
				oor("fractional index")
			}
			if f < 0 || int(f) >= len(x) {
				return nil, nil // a missing attribute is null
			}
			return x[int(f)], nil
		case map[string]interface{}:
			switch kk := k.(type) {
			case string:
				return x[kk], nil // a missing attribute is null
			case float64:
				// the keys of a hash are strings; a number or a boolean finds the entry under its string form
				if !isInt(kk) || math.Abs(kk) >= 1e6 {
					oor("hash subscript %v", kk)
				}
				return x[FmtNum(kk)], nil
			case bool:
				if kk {
					return x["1"], nil
				}
				return x[""], nil
			}
			oor("hash key of type %T", k)
		case nil:
			return nil, nil
		}
		oor("attribute access on %T", c)
	case *gen.EMethod:
		c, err := s.eval(e.X)
		if err != nil {
			return nil, err
		}
		args, err := s.evalArgs(e.Args)
		if err != nil {
			return nil, err
		}
		switch x := c.(type) {
		case selfVal:
			m, ok := s.localMacros[e.Name]
			if !ok {
				oor("_self.%s is not a macro defined before the call", e.Name)
			}
			return s.callMacro(m, args)
		case *MacroSet:
			d, ok := x.Defs[e.Name]
			if !ok {
				return nil, merr("undefined macro %q", e.Name)
			}
			return s.callMacro(macroRef{d, x.Tpl}, args)
		}
		oor("method call on %T", c)
	case *gen.EArr:
		vs, err := s.evalArgs(e.Els)
		if err != nil {
			return nil, err
		}
		return vs, nil
	case *gen.EHash:
		h := map[string]interface{}{}
		for i := range e.Keys {
			var key string
			switch k := e.Keys[i].(type) {
			case *gen.EName:
				key = k.Name
			default:
				kv, err := s.eval(k)
				if err != nil {
					return nil, err
				}
				key = Str(kv)
			}
			v, err := s.eval(e.Vals[i])
			if err != nil {
				return nil, err
			}
			h[key] = v
		}
		return h, nil
	case *gen.EInterp:
		var b strings.Builder
		for _, p := range e.Parts {
			v, err := s.eval(p)
			if err != nil {
				return nil, err
			}
			b.WriteString(Str(v))
		}
		return b.String(), nil
	case *gen.EParent:
		if s.curIdx < 0 {
			return nil, merr("parent() outside a block")
		}
		for i := s.curIdx + 1; i < len(s.chain); i++ {
			if b, ok := s.chain[i].blocks[s.curName]; ok {
				str, err := s.capture(func() error {
					return s.inBlock(i, s.curName, b, func() error { return s.nodes(b.body) })
				})
				if err != nil {
					return nil, err
				}
				return str, nil
			}
		}
		return nil, merr("no parent block %q", s.curName)
	case *gen.EBlockFn:
		nv, err := s.eval(e.Name)
		if err != nil {
			return nil, err
		}
		str, err := s.capture(func() error { return s.renderBlock(Str(nv)) })
		if err != nil {
			return nil, err
		}
		return str, nil
	}
	oor("model: unknown expr %T", e)
	return nil, nil
}

func nonNegInt(v interface{}) int {
	f := Num(v)
	if !isInt(f) || f < 0 || f > 1<<53 {
		oor("bitwise operand %v", v)
	}
	return int(f)
}

func arith(v interface{}) float64 {
	switch x := v.(type) {
	case float64, bool, nil:
		return Num(x)
	case string:
		if IsCanonNumeric(x) {
			return Num(x)
		}
		// a decimal number with an explicit plus sign spells that number
		if len(x) > 1 && x[0] == '+' && x[1] != '-' && x[1] != '+' && IsCanonNumeric(x[1:]) {
			return Num(x[1:])
		}
	}
	oor("arithmetic operand %T(%v)", v, v)
	return 0
}

func (s *rstate) binary(op string, l, r interface{}) (interface{}, error) {
	v, err := s.binary0(op, l, r)
	if f, ok := v.(float64); ok {
		if math.IsNaN(f) || math.Abs(f) >= 1e6 {
			oor("result %v leaves the magnitude region", f)
		}
		if f == 0 && math.Signbit(f) {
			oor("negative zero")
		}
		if f*1024 != math.Trunc(f*1024) {
			oor("result %v is not a short dyadic fraction", f)
		}
	}
	return v, err
}

func (s *rstate) binary0(op string, l, r interface{}) (interface{}, error) {
	switch op {
	case "+":
		return arith(l) + arith(r), nil
	case "-":
		return arith(l) - arith(r), nil
	case "*":
		return arith(l) * arith(r), nil
	case "/":
		if arith(r) == 0 {
			oor("division by zero")
		}
		return arith(l) / arith(r), nil
	case "//":
		if arith(r) == 0 {
			oor("division by zero")
		}
		return math.Floor(arith(l) / arith(r)), nil
	case "%":
		a, b := math.Trunc(arith(l)), math.Trunc(arith(r))
		if b == 0 {
			oor("modulo by zero")
		}
		if m := math.Mod(a, b); m != 0 {
			return m, nil
		}
		return 0.0, nil // integer arithmetic has no negative zero
	case "**":
		return math.Pow(arith(l), arith(r)), nil
	case "~":
		return Str(l) + Str(r), nil
	case "==":
		return equal(l, r), nil
	case "!=":
		return !equal(l, r), nil
	case "<", "<=", ">", ">=":
		a, ok1 := l.(float64)
		b, ok2 := r.(float64)
		if !ok1 || !ok2 {
			oor("ordering comparison on non-numbers")
		}
		switch op {
		case "<":
			return a < b, nil
		case "<=":
			return a <= b, nil
		case ">":
			return a > b, nil
		}
		return a >= b, nil
	case "and":
		a, b := truthR(l), truthR(r)
		return a && b, nil
	case "or":
		a, b := truthR(l), truthR(r)
		return a || b, nil
	case "in", "not in":
		var els []interface{}
		switch x := r.(type) {
		case []interface{}:
			els = x
		case map[string]interface{}:
			for _, v := range x {
				els = append(els, v)
			}
		case nil:
		default:
			oor("'in' with a %T haystack", r)
		}
		found := false
		for _, e := range els {
			if equal(e, l) {
				found = true
			}
		}
		if op == "not in" {
			return !found, nil
		}
		return found, nil
	case "starts with":
		return strings.HasPrefix(Str(l), Str(r)), nil
	case "ends with":
		return strings.HasSuffix(Str(l), Str(r)), nil
	case "matches":
		re, err := regexp.Compile(Str(r))
		if err != nil {
			return nil, merr("bad pattern")
		}
		return re.MatchString(Str(l)), nil
	case "..":
		a, b := arith(l), arith(r)
		if !isInt(a) || !isInt(b) || b < a || b-a > 1e6 {
			oor("range %v..%v", a, b)
		}
		var out []interface{}
		for k := a; k <= b; k++ {
			out = append(out, k)
		}
		return out, nil
	case "b-and":
		return float64(nonNegInt(l) & nonNegInt(r)), nil
	case "b-or":
		return float64(nonNegInt(l) | nonNegInt(r)), nil
	case "b-xor":
		return float64(nonNegInt(l) ^ nonNegInt(r)), nil
	}
	oor("binary operator %q", op)
	return nil, errors.New("unreachable")
}
