package model

import (
	"fmt"
	"math"
	"reflect"
	"sort"
	"strconv"
	"strings"
)

// Model values: nil, bool, float64, string, []interface{} (array),
// map[string]interface{} (hash), *MacroSet. Context values given as Go slices /
// maps / ints are normalised into these by Normalize.

// OutOfRegion is panicked by the model when a generator leaves the region in
// which the documented semantics are unambiguous; it indicates a harness bug.
type OutOfRegion struct{ Msg string }

func oor(format string, a ...interface{}) {
	panic(OutOfRegion{fmt.Sprintf(format, a...)})
}

// Normalize converts a Go context value into a model value.
func Normalize(v interface{}) interface{} {
	if v == nil {
		return nil
	}
	switch x := v.(type) {
	case bool, string, float64:
		return x
	case int:
		return float64(x)
	case []interface{}:
		out := make([]interface{}, len(x))
		for i := range x {
			out[i] = Normalize(x[i])
		}
		return out
	case map[string]interface{}:
		out := map[string]interface{}{}
		for k, e := range x {
			out[k] = Normalize(e)
		}
		return out
	}
	rv := reflect.ValueOf(v)
	for rv.Kind() == reflect.Ptr {
		if rv.IsNil() {
			return nil
		}
		rv = rv.Elem()
	}
	switch rv.Kind() {
	case reflect.Int, reflect.Int8, reflect.Int16, reflect.Int32, reflect.Int64:
		return float64(rv.Int())
	case reflect.Uint, reflect.Uint8, reflect.Uint16, reflect.Uint32, reflect.Uint64:
		return float64(rv.Uint())
	case reflect.Float32, reflect.Float64:
		return rv.Float()
	case reflect.Slice, reflect.Array:
		out := make([]interface{}, rv.Len())
		for i := range out {
			out[i] = Normalize(rv.Index(i).Interface())
		}
		return out
	case reflect.Map:
		out := map[string]interface{}{}
		for it := rv.MapRange(); it.Next(); {
			out[fmt.Sprint(it.Key().Interface())] = Normalize(it.Value().Interface())
		}
		return out
	}
	return Opaque{fmt.Sprintf("%T", v)}
}

// Opaque stands for a context value the model knows nothing about except that it
// is not a number, string, boolean, null, array or hash (e.g. a struct).
type Opaque struct{ Type string }

// FmtNum prints a number the way the language prints it.
func FmtNum(f float64) string {
	if f == math.Trunc(f) && math.Abs(f) <= 1<<53 {
		return strconv.FormatFloat(f, 'f', -1, 64)
	}
	return strconv.FormatFloat(f, 'g', -1, 64)
}

// Str is string coercion.
func Str(v interface{}) string {
	switch x := v.(type) {
	case nil:
		return ""
	case bool:
		if x {
			return "1"
		}
		return ""
	case float64:
		return FmtNum(x)
	case string:
		return x
	}
	return ""
}

// IsCanonNumeric reports whether s is the canonical spelling of a number.
func IsCanonNumeric(s string) bool {
	f, err := strconv.ParseFloat(s, 64)
	return err == nil && FmtNum(f) == s
}

// Num is number coercion.
func Num(v interface{}) float64 {
	switch x := v.(type) {
	case nil:
		return 0
	case bool:
		if x {
			return 1
		}
		return 0
	case float64:
		return x
	case string:
		f, err := strconv.ParseFloat(x, 64)
		if err != nil {
			return 0
		}
		return f
	}
	return 0
}

// Truth is boolean coercion.
func Truth(v interface{}) bool {
	switch x := v.(type) {
	case nil:
		return false
	case bool:
		return x
	case float64:
		return x > 0
	case string:
		return len(x) > 0
	}
	return false
}

// Repr is the canonical rendering of a value used in callback logs; it works on
// model values and on the Go values the library hands to callbacks alike.
func Repr(v interface{}) string { return reprDepth(v, 0) }

// reprDepth stops at nesting depth 12: context values may contain themselves.
func reprDepth(v interface{}, depth int) string {
	if v == nil {
		return "null"
	}
	if depth > 12 {
		return "<deeper>"
	}
	switch x := v.(type) {
	case bool:
		return strconv.FormatBool(x)
	case string:
		return strconv.Quote(x)
	case float64:
		return FmtNum(x)
	case int:
		return FmtNum(float64(x))
	}
	rv := reflect.ValueOf(v)
	switch rv.Kind() {
	case reflect.Int, reflect.Int8, reflect.Int16, reflect.Int32, reflect.Int64:
		return FmtNum(float64(rv.Int()))
	case reflect.Uint, reflect.Uint8, reflect.Uint16, reflect.Uint32, reflect.Uint64:
		return FmtNum(float64(rv.Uint()))
	case reflect.Float32, reflect.Float64:
		return FmtNum(rv.Float())
	case reflect.Slice, reflect.Array:
		parts := make([]string, rv.Len())
		for i := range parts {
			parts[i] = reprDepth(rv.Index(i).Interface(), depth+1)
		}
		return "[" + strings.Join(parts, ",") + "]"
	case reflect.Map:
		var parts []string
		for it := rv.MapRange(); it.Next(); { // MapRange: a NaN key cannot be looked up again
			key := ""
			if k := it.Key(); k.Kind() == reflect.Ptr || k.Kind() == reflect.Interface {
				key = reprDepth(k.Interface(), depth+1) // (fmt would follow a pointer into a value that contains itself, for ever)
			} else {
				key = fmt.Sprint(k.Interface())
			}
			parts = append(parts, key+":"+reprDepth(it.Value().Interface(), depth+1))
		}
		sort.Strings(parts)
		return "{" + strings.Join(parts, ",") + "}"
	case reflect.Interface, reflect.Ptr:
		if rv.IsNil() {
			return "null"
		}
		return reprDepth(rv.Elem().Interface(), depth+1)
	}
	if sv, ok := v.(interface{ Value() interface{} }); ok {
		return reprDepth(sv.Value(), depth+1)
	}
	return fmt.Sprintf("<%T>", v)
}

// ---- callbacks shared by the model and the recording environment ----

// Call is one recorded callback invocation.
type Call struct {
	Kind string // func, filter, test
	Name string
	Args []string // Repr of each argument (filters/tests: piped value first)
	Tpl  string   // Context.Name() at the time of the call
}

func (c Call) String() string {
	return fmt.Sprintf("%s %s(%s)@%s", c.Kind, c.Name, strings.Join(c.Args, ", "), c.Tpl)
}

// FuncNames / FilterNames / TestNames are the registered callbacks.
var (
	FuncNames   = []string{"fn", "num", "truth", "pair", "ident"}
	FilterNames = []string{"wrap", "inc", "up", "b1", "b2", "b3", "ident"}
	TestNames   = []string{"pos", "eq", "divisible by", "empty", "whole number"}
)

// FuncResult computes the value a registered function returns.
func FuncResult(name string, args []interface{}, str func(interface{}) string, num func(interface{}) float64, truth func(interface{}) bool) interface{} {
	switch name {
	case "fn":
		parts := make([]string, len(args))
		for i, a := range args {
			parts[i] = Repr(a)
		}
		return "fn<" + strings.Join(parts, ";") + ">"
	case "num":
		if len(args) == 0 {
			return 7.0
		}
		return num(args[0])*2 + 1
	case "truth":
		return len(args) > 0 && truth(args[0])
	case "pair":
		out := make([]interface{}, len(args))
		copy(out, args)
		return out
	case "ident":
		if len(args) == 0 {
			return nil
		}
		return args[0]
	}
	return nil
}

// FilterResult computes the value a registered filter returns.
func FilterResult(name string, v interface{}, args []interface{}, str func(interface{}) string, num func(interface{}) float64) interface{} {
	switch name {
	case "wrap":
		parts := make([]string, len(args))
		for i, a := range args {
			parts[i] = Repr(a)
		}
		return "[" + str(v) + "|" + strings.Join(parts, ";") + "]"
	case "inc":
		d := 1.0
		if len(args) > 0 {
			d = num(args[0])
		}
		return num(v) + d
	case "up":
		return strings.ToUpper(str(v))
	case "b1":
		return "<1:" + str(v) + ">"
	case "b2":
		return "<2:" + str(v) + ">"
	case "b3":
		return "<3:" + str(v) + ">"
	case "ident":
		return v
	}
	return nil
}

// TestResult computes the verdict of a registered test.
func TestResult(name string, v interface{}, args []interface{}, str func(interface{}) string, num func(interface{}) float64) bool {
	switch name {
	case "pos":
		return num(v) > 0
	case "eq":
		return len(args) > 0 && str(v) == str(args[0])
	case "divisible by":
		if len(args) == 0 || int(num(args[0])) == 0 {
			return false
		}
		return int(num(v))%int(num(args[0])) == 0
	case "empty":
		return str(v) == ""
	case "whole number":
		return len(args) == 0 && num(v) == math.Trunc(num(v))
	}
	return false
}
