package gen

// HandCorpus has one template per tag kind, per operator and per lexical feature,
// written for this harness. Together with RepoCorpus it seeds the prefix /
// fragment-mutation workloads.
var HandCorpus = []string{
	// tags
	"{% extends 'base' %}{% block a %}x{{ parent() }}y{% endblock %}",
	"{% block a %}A{% block b %}B{% endblock %}C{% endblock %}",
	"{% if a %}1{% elseif b %}2{% elseif c %}3{% else %}4{% endif %}",
	"{% for i in 1..3 %}{{ loop.index }}:{{ i }},{% endfor %}",
	"{% for k, v in items if v %}{{ k }}={{ v }}{% else %}none{% endfor %}",
	"{% for i in a %}x{%if a%}y{%endif%}z{% endfor %}",
	"{% include 'part' %}{% include 'part' with {'a': 1} %}{% include 'part' with {'a': 1} only %}{% include 'part' only %}",
	"{% embed 'part' with {'a': 1} only %}{% block a %}A{% endblock %}{% block b %}B{% endblock %}{% endembed %}",
	"{% use 'blocks' %}{% use 'blocks' with a as b, c as d %}{{ block('b') }}",
	"{% set a = 1 %}{% set b %}captured {{ a }}{% endset %}{{ b }}",
	"{% do f(1, 2) %}",
	"{% filter upper|lower|trim %} text {{ a }} {% endfilter %}",
	"{% macro m(a, b, c) %}[{{ a }}|{{ b }}|{{ c }}]{% endmacro %}{{ _self.m(1, 2) }}",
	"{% import 'macros' as m %}{{ m.f(1) }}{% from 'macros' import f as g, h %}{{ g(2) }}{{ h() }}",
	"{% verbatim %}{{ raw }} {% if x %}y{% endif %} {# c #}{% endverbatim %}",
	"{# comment with {{ x }} and {% y %} inside\nand a newline #}after",
	// whitespace control
	"a {{- b -}} c {%- if d -%} e {%- endif -%} f {#- g -#} h",
	// expressions
	"{{ 1 + 2 - 3 * 4 / 5 // 6 % 7 ** 8 }}",
	"{{ a ~ b ~ 'c' ~ \"d\" }}",
	"{{ a == b != c < d <= e > f >= g }}",
	"{{ a and b or not c }}",
	"{{ a in [1, 2] and b not in {'k': 1} }}",
	"{{ a starts with 'x' or a ends with 'y' or a matches '^z' }}",
	"{{ a b-and b b-or c b-xor d }}",
	"{{ a is defined and b is not divisible by(3) }}",
	"{{ a ? b : c ? d : e }}",
	// whatever stands where the second word, the name or the arguments of a test are expected
	"{{ a is same none }}{{ a is not same null }}{{ a is divisible true }}{{ a is odd false }}{{ a is same None }}{{ a is TRUE }}{{ a is null }}{{ a is not none }}",
	"{{ a is same 1 }}{{ a is same 'x' }}{{ a is same (1) }}{{ a is same [1] }}{{ a is same {} }}{{ a is 1 }}{{ a is 'x' }}{{ a is (b) }}{{ a is not (b) }}{{ a is -1 }}{{ a is not not b }}",
	"{{ a is same as(b) }}{{ a is same as b }}{{ a is divisible by 3 }}{{ a is divisible by(3) is odd }}{{ a is even odd prime }}{{ a is b.c }}{{ a is b|c }}{{ a is b[0] }}{{ a is b() () }}",
	"{{ -a + +b - -1 }}",
	"{{ a.b.c['d'][0].e(1, 'x').f }}",
	"{{ a|default('x')|upper|slice(1, 2) }}",
	"{{ \"x #{a} y #{b ~ 'c'} z\" }}",
	"{{ \"#{''}\" ~ 1 }}{{ \"#{\"\"}\" }}{{ \"#{''}#{''}\" + 1 }}{{ \"#{a}\" ? 1 : 2 }}{{ '' ~ \"\" }}{{ ''|f }}{{ {'': ''}[''] }}{{ [''][0] }}",
	"{% block a %}{% embed 'e' %}{% block b %}{% embed 'f' %}{% block c %}x{% endblock %}{% endembed %}{% endblock %}{% endembed %}{% endblock %}",
	"{{ [1, [2, 3], {'a': [4]},] }}{{ {'a': 1, b: 2, (c): 3, 4: 5,} }}",
	"{{ f() }}{{ f(1) }}{{ f(1, g(2, h(3))) }}",
	"{{ (1 + 2) * (3 - (4 / 5)) }}",
	"{{ 1.5 + 0.25 }}{{ 10..1 }}{{ 'a'..'e' }}",
	"{{ null }}{{ true }}{{ false }}{{ none }}",
	// sources that are also names (through the string loader a template's source is its name)
	"twig", ".twig", "twig.twig", "a.twig", "js", "txt", ".js", ".", "..", "x.", ".txt.twig", "a/b.css", "html_attr", "t.url.twig",
	// errors inside strings that hold interpolations
	"{{ \"a#{b@c\" }}", "{{ \"a#{b @ c}d\" }}", "{{ \"a#{\"#{@\"}\" }}", "{{ \"a#{b}c#{d@\" }} tail {{ 1 }}", "{{ \"#{[1, @\" }}", "{{ a \"x#{b}y\" }}", "{% block \"n#{a}\" %}{% endblock %}",
	// letters that are not ASCII wherever a name is expected
	"{{ é }}{{ [é] }}{{ {é: 1} }}{{ f(é) }}{{ a.é }}{{ a|é }}{{ x is é }}{{ 中 }}{{ _é }}{{ aé }}{{ é.b }}{{ é() }}",
	"{% macro m(é) %}{% endmacro %}", "{% macro é() %}{% endmacro %}", "{% filter é %}x{% endfilter %}", "{% filter up|é %}x{% endfilter %}", "{% set é = 1 %}", "{% for é in x %}{% endfor %}", "{% for k, é in x %}{% endfor %}",
	"{% block é %}{% endblock %}", "{% from 'l' import é %}", "{% from 'l' import a as é %}", "{% use 'l' with é as b %}", "{% import 'l' as é %}", "{{ [1, é, 2] }}", "{% é %}", "{% if é %}{% endif %}", "{{ \"#{é}\" }}",
	// text hostility
	"plain text with } and %} and #} and { and % and # inside",
	"multi\nline\r\ntext {{ a\n+\nb }} and {% if\n x \n%}y{% endif %}",
	"utf8 é中\U0001F600 {{ 'é中\U0001F600' }}",
}

// Corpus is the seed corpus shared by the parsing checks.
func Corpus() []string {
	out := make([]string, 0, len(RepoCorpus)+len(HandCorpus))
	out = append(out, RepoCorpus...)
	out = append(out, HandCorpus...)
	return out
}
