package gen

import (
	"encoding"
	"encoding/json"
	"errors"
	"fmt"
	"math"
	"math/big"
	"net"
	"net/url"
	"os"
	"strconv"
	"strings"
	"time"

	"github.com/shopspring/decimal"
	"github.com/tyler-sommer/stick"
)

// ---- user types of the Go-value zoo ----

type ValStringer struct{ S string }

func (v ValStringer) String() string { return v.S }

type PtrStringer struct{ S string }

func (v *PtrStringer) String() string { return v.S }

type ValNumber struct{ N float64 }

func (v ValNumber) Number() float64 { return v.N }

// StrNum says what it is as a string and as a number (and not as a boolean): which one decides a question is the
// library's documented order - the string for printing and for truth, the number for arithmetic.
type StrNum struct {
	S string
	N float64
}

func (v StrNum) String() string  { return v.S }
func (v StrNum) Number() float64 { return v.N }

// NumBool is a Number and a Boolean.
type NumBool struct {
	N float64
	B bool
}

func (v NumBool) Number() float64 { return v.N }
func (v NumBool) Boolean() bool   { return v.B }

type ValBoolean struct{ B bool }

func (v ValBoolean) Boolean() bool { return v.B }

type PtrNumber struct{ N float64 }

func (v *PtrNumber) Number() float64 { return v.N }

type PtrBoolean struct{ B bool }

func (v *PtrBoolean) Boolean() bool { return v.B }

// Thing is a struct with exported/unexported fields and methods of several shapes.
type Thing struct {
	Name    string
	Count   int
	Ratio   float64
	Items   []int
	Attrs   map[string]stick.Value
	Inner   *Thing
	NilFunc func() string
	Fn      func(int) int
	hidden  string
	Any     interface{}
	// unexported fields of func type, set and not set: out of reach like any unexported field
	hiddenFn  func() string
	hiddenNil func() string
}

func (t Thing) ValueMethod() string                             { return "vm:" + t.Name }
func (t *Thing) PtrMethod() string                              { return "pm:" + t.Name }
func (t Thing) Add(a, b int) int                                { return a + b }
func (t Thing) Concat(a string, b string) string                { return a + b }
func (t Thing) Variadic(xs ...int) int                          { return len(xs) }
func (t Thing) Join(sep string, parts ...string) string         { return fmt.Sprint(len(parts)) + sep }
func (t Thing) Fmt(f string, n int, rest ...interface{}) string { return f }
func (t Thing) Two() (int, error)                               { return 1, nil }
func (t Thing) Nothing()                                        {}
func (t Thing) TakesPtr(p *Thing) string                        { return "tp" }
func (t Thing) TakesIface(v interface{}) string                 { return fmt.Sprintf("%T", v) }
func (t Thing) TakesFloat(f float64) float64                    { return f * 2 }
func (t Thing) TakesSlice(s []int) int                          { return len(s) }
func (t Thing) TakesUint(u uint64) uint64                       { return u }
func (t Thing) TakesInt8(i int8) int8                           { return i }
func (t Thing) TakesUint8(u uint8) uint8                        { return u }

// Parameters that are arrays (of a fixed size, by value and by pointer): no list is assignable to them, and one
// shorter than the array cannot even be converted.
func (t Thing) TakesArray(a [2]int) int            { return a[0] + a[1] }
func (t Thing) TakesArrayPtr(a *[3]int) int        { return len(a) }
func (t Thing) TakesVals(a [2]stick.Value) int     { return len(a) }
func (t Thing) TakesBytes(a [4]byte) int           { return len(a) }
func (t Thing) TakesValsPtr(a *[2]stick.Value) int { return len(a) }

// accessor-style names: methods like any other - "Secret" names no attribute of a Thing, "GetSecret" does
func (t Thing) GetSecret() string { return "the secret" }
func (t Thing) IsOpen() bool      { return true }
func (t *Thing) HasKids() bool    { return true }
func (t Thing) GetCount() int     { return -1 }

// exported names need not begin with an ASCII letter
func (t *Thing) Étiquette() string { return "étiquette" }
func (t Thing) Ωmega() string      { return "omega" }

func (t Thing) hiddenMethod() string { return "h" }

// NewThing builds a populated Thing.
func NewThing() Thing {
	return Thing{Name: "n", Count: 3, Ratio: 0.5, Items: []int{1, 2, 3}, Attrs: map[string]stick.Value{"k": "v"},
		Inner: &Thing{Name: "inner"}, Fn: func(i int) int { return i + 1 }, hidden: "h", Any: 7, hiddenFn: func() string { return "secret" }}
}

// UserSafe is a user-written SafeValue that does not flatten what it wraps.
type UserSafe struct {
	Inner stick.Value
	Types []string
}

func (u UserSafe) Value() stick.Value { return u.Inner }
func (u UserSafe) IsSafe(t string) bool {
	for _, x := range u.Types {
		if x == t {
			return true
		}
	}
	return false
}
func (u UserSafe) SafeFor() []string { return u.Types }

// NilSafePointer is a typed nil pointer to an application-defined safe value whose methods have value receivers:
// the pointer type implements SafeValue, and calling any of its methods panics. Whoever looks at the value must
// see the nil pointer first.
func NilSafePointer() Named { return N("nil *UserSafe (value receivers)", (*UserSafe)(nil)) }

// Named is a value with a label for reports.
type Named struct {
	Label string
	V     stick.Value
}

func N(label string, v stick.Value) Named { return Named{label, v} }

// Scalars returns the scalar part of the zoo.
func Scalars() []Named {
	var nilPtrStr *ValStringer
	var nilPtrPS *PtrStringer
	var nilPtrNum *ValNumber
	var nilPtrBool *ValBoolean
	var nilPtrInt *int
	var nilPtrThing *Thing
	var nilIface interface{}
	var nilErr error
	i7 := 7
	s := "ptrstr"
	out := []Named{
		N("nil", nil), N("nil-iface", nilIface), N("nil-error", nilErr),
		N("true", true), N("false", false),
		N("int0", 0), N("int1", 1), N("int-1", -1), N("int42", 42), N("intmax", math.MaxInt64), N("intmin", math.MinInt64),
		N("int8min", int8(-128)), N("int8max", int8(127)), N("int16", int16(-300)), N("int32", int32(1<<30)), N("int64", int64(1)<<53),
		N("uint0", uint(0)), N("uint8", uint8(255)), N("uint16", uint16(65535)), N("uint32", uint32(1<<32-1)), N("uint64max", uint64(math.MaxUint64)),
		N("f0", 0.0), N("f-0", math.Copysign(0, -1)), N("f1", 1.0), N("f-1.5", -1.5), N("f0.1", 0.1), N("f1e6", 1e6), N("f1e21", 1e21), N("f1e-7", 1e-7),
		N("fmax", math.MaxFloat64), N("fsmall", math.SmallestNonzeroFloat64), N("nan", math.NaN()), N("+inf", math.Inf(1)), N("-inf", math.Inf(-1)),
		N("f32", float32(3.14)), N("f32-int", float32(5)),
		N("str-empty", ""), N("str-a", "a"), N("str-abc", "abc def"), N("str-utf8", "é中😀"), N("str-bad", "a\xffb"),
		N("str-0", "0"), N("str-1", "1"), N("str-num", "12.5"), N("str--3", "-3"), N("str-1e3", "1e3"), N("str-sp", " 7 "), N("str-hex", "0x10"), N("str-inf", "Inf"), N("str-nan", "NaN"),
		N("str-html", "<b>&\"'</b>"),
		// standard-library types at the edge of "numbers and strings"
		N("json.Number int", json.Number("12")), N("json.Number float", json.Number("2.5e1")), N("json.Number junk", json.Number("x")), N("[]byte", []byte("bytes")), N("[]byte utf-8", []byte("h\u00e9llo \u4e2d\u6587 \U0001F600")), N("[]uint8", []uint8{0xe2, 0x82, 0xac, 'x'}), N("[]rune", []rune("h\u00e9")), N("[4]byte", [4]byte{0xf0, 0x9f, 0x98, 0x80}), N("rune", 'x'), N("byte", byte('y')),
		// values whose encoders (MarshalJSON, MarshalText) are promoted from an embedded pointer or interface that is nil
		N("embeds a nil *time.Time", EmbedsTime{}), N("*embeds a nil *time.Time", &EmbedsTime{}), N("embeds a nil json.Marshaler", EmbedsMarshaler{}), N("embeds a nil TextMarshaler", EmbedsTextMarshaler{}),
		N("holds values that embed a nil *time.Time", HoldsEmbeds{List: []EmbedsTime{{}}, Map: map[string]interface{}{"k": EmbedsMarshaler{}}}), N("[]interface{} of one", []interface{}{EmbedsTime{}}), N("embeds *time.Time", EmbedsTime{func() *time.Time { t := time.Date(2020, 1, 2, 3, 4, 5, 0, time.UTC); return &t }()}),
		N("error", errors.New("an error")), N("time.Duration", 90*time.Second), N("time.Month", time.March), N("time.Time", time.Date(2021, 3, 4, 5, 6, 7, 0, time.UTC)), N("time.Time zero", time.Time{}),
		N("*big.Int", big.NewInt(42)), N("big.Float", *big.NewFloat(1.5)), N("url.URL", url.URL{Scheme: "http", Host: "h"}), N("net.IP", net.IP{127, 0, 0, 1}), N("os.FileMode", os.FileMode(0o644)),
		N("String promoted from a nil pointer 3 levels down", Deep2{}), N("String promoted from a nil pointer 9 levels down", Deep8{}), N("String promoted from a nil pointer 13 levels down", Deep12{}), N("*String promoted from a nil pointer 10 levels down", &Deep9{}),
		N("Number promoted from a nil interface 10 levels down", DeepI9{}), N("Number promoted from a nil interface 13 levels down", &DeepI12{}),
		N("nil slice of a type with String", KindSlice(nil)), N("nil map of a type with String", KindMap(nil)), N("nil map of a type with Number", NilableNum(nil)), N("map of a type with Number", NilableNum{"a": 1}),
		N("nil func of a type with Boolean", NilableBool(nil)), N("func of a type with Boolean", NilableBool(func() bool { return true })),
		N("own methods over nil embedded values with the same methods", OwnOverNil{Tag: "t"}), N("*own methods over nil embedded values", &OwnOverNil{Tag: "p"}),
		NilSafePointer(), N("embeds a nil SafeValue", EmbedsSafe{Tag: "t"}), N("*embeds a nil SafeValue", &EmbedsSafe{}), N("embeds a SafeValue", EmbedsSafe{SafeValue: stick.NewSafeValue("es", "html")}),
		N("nil *time.Time", (*time.Time)(nil)), N("*time.Time", func() *time.Time { t := time.Date(2020, 2, 29, 23, 59, 59, 0, time.UTC); return &t }()), N("nil *big.Int", (*big.Int)(nil)), N("nil *big.Float", (*big.Float)(nil)), N("nil *url.URL", (*url.URL)(nil)),
		N("nil *decimal.Decimal", (*decimal.Decimal)(nil)), N("*decimal.Decimal", func() *decimal.Decimal { d := decimal.NewFromFloat(2.5); return &d }()), N("nil *json.Number", (*json.Number)(nil)), N("nil *time.Duration", (*time.Duration)(nil)), N("nil *net.IP", (*net.IP)(nil)), N("nil *[]byte", (*[]byte)(nil)), N("nil *error", (*error)(nil)),
		N("typed nil in iface slice", []interface{}{(*int)(nil)}), N("[2]string", [2]string{"a", "b"}), N("struct{}", struct{}{}), N("*struct{}", &struct{}{}), N("**int", func() **int { i := 3; p := &i; return &p }()),
		N("embeds Stringer/Number/Boolean holding typed nil pointers", EmbedsIfaces{Stringer: (*ValStringer)(nil), Number: (*ValNumber)(nil), Boolean: (*ValBoolean)(nil)}), N("two nil embedded pointers, the second has String", TwoEmbedded{}),
		N("*UserSafe", &UserSafe{Inner: "<us>", Types: []string{"html"}}), N("nil *ValStringer", (*ValStringer)(nil)), N("nil *ValNumber", (*ValNumber)(nil)), N("nil *ValBoolean", (*ValBoolean)(nil)),
		N("embeds nil Stringer/Number/Boolean", EmbedsIfaces{}), N("*embeds nil Stringer/Number/Boolean", &EmbedsIfaces{}), N("embeds Stringer, nil Number/Boolean", EmbedsIfaces{Stringer: ValStringer{"es"}}),
		N("embeds Number, nil Stringer", EmbedsIfaces{Number: ValNumber{2}}), N("embeds nil *Stringer-impl", EmbedsStringerPtr{Tag: "t"}), N("embeds *Stringer-impl", EmbedsStringerPtr{&ValStringer{"ep"}, "t"}),
		// letters whose other case has another length in UTF-8, alone and followed by a little
		N("str-kelvin", "\u212a"), N("str-kelvin-x", "\u212ax"), N("str-ohm", "\u2126"), N("str-capital-sharp-s", "\u1e9e"), N("str-dotted-I", "\u0130"), N("str-dotted-I-i", "\u0130i"),
		N("str-sharp-s", "\u00df"), N("str-ligature", "\ufb01x"), N("str-titlecase", "\u01c5a"), N("str-long-s", "\u017f"), N("str-combining", "e\u0301 x\u0301"), N("str-one-bad-byte", "\xc3"),
		N("str-words", "two words  and\tmore\nlines"), N("str-long", strings.Repeat("ab ", 40)),
		N("dec", decimal.NewFromFloat(2.5)), N("dec0", decimal.Zero), N("dec-neg", decimal.NewFromInt(-4)),
		N("defined bool true", NamedBool(true)), N("defined bool false", NamedBool(false)), N("defined string", KeyStr("text")), N("defined numeric string", KeyStr("12.5")), N("defined empty string", KeyStr("")),
		N("defined int", KeyInt(42)), N("defined float64", NamedF64(2.5)), N("defined float32", NamedF32(0.5)),
		N("stringer", ValStringer{"vs"}), N("stringer-empty", ValStringer{""}), N("stringer-num", ValStringer{"8"}), N("ptr-stringer", &PtrStringer{"ps"}), N("ptr-to-valstringer", &ValStringer{"pvs"}),
		N("number", ValNumber{2.25}), N("number0", ValNumber{0}), N("ptr-number", &PtrNumber{3}), N("boolean-t", ValBoolean{true}), N("boolean-f", ValBoolean{false}), N("ptr-boolean", &PtrBoolean{true}),
		N("nilptr-valstringer", nilPtrStr), N("nilptr-ptrstringer", nilPtrPS), N("nilptr-number", nilPtrNum), N("nilptr-boolean", nilPtrBool), N("nilptr-int", nilPtrInt), N("nilptr-thing", nilPtrThing),
		N("ptr-int", &i7), N("ptr-str", &s),
		N("complex", complex(1, 2)), N("func", func() {}), N("chan", make(chan int)), N("struct-empty", struct{}{}),
		N("safe-str", stick.NewSafeValue("<i>", "html")), N("safe-num", stick.NewSafeValue(5, "html")), N("safe-nested", stick.NewSafeValue(stick.NewSafeValue(stick.NewSafeValue("deep", "js"), "html"), "css")), N("safe-nil", stick.NewSafeValue(nil, "html")),
		N("usersafe-2", UserSafe{UserSafe{"deep2", []string{"js"}}, []string{"html"}}), N("usersafe-num", UserSafe{UserSafe{UserSafe{7, nil}, nil}, nil}),
		N("rune", 'x'), N("byte", byte('y')), N("uintptr", uintptr(9)),
		N("time", time.Date(2020, 2, 29, 13, 4, 5, 0, time.UTC)), N("str-now", "now"), N("str-NOW", "NOW"), N("ptr-time", &time.Time{}),
	}
	return out
}

// Containers returns the container part of the zoo.
func Containers() []Named {
	th := NewThing()
	var nilSlice []int
	var nilMap map[string]int
	var nilValMap map[string]stick.Value
	var nilValSlice []stick.Value
	var nilPtrSlice *[]int
	var nilPtrMap *map[string]stick.Value
	var nilPtrThing *Thing
	sl := []int{10, 20, 30}
	psl := &sl
	ppsl := &psl
	m := map[string]stick.Value{"a": 1, "b": "two"}
	return []Named{
		N("[]int{}", []int{}), N("[]int nil", nilSlice), N("[]int{10,20,30}", sl), N("*[]int", psl), N("**[]int", ppsl),
		N("[]int(20)", func() []int {
			l := make([]int, 20)
			for i := range l {
				l[i] = i + 1
			}
			return l
		}()), N("[]string(11)", strings.Fields("a b c d e f g h i j k")),
		N("[]string", []string{"x", "y"}), N("[]Value", []stick.Value{1, "s", nil, true}), N("[]float64", []float64{1.5, 2.5}), N("[3]int", [3]int{7, 8, 9}), N("*[3]int", &[3]int{7, 8, 9}), N("[0]int", [0]int{}),
		N("[][]int", [][]int{{1}, {2, 3}}), N("[]Thing", []Thing{th}), N("[]*Thing", []*Thing{&th, nil}), N("[]interface{}", []interface{}{nil, 1}),
		N("map[string]Value", m), N("*map[string]Value", &m), N("map[string]int nil", nilMap), N("map[string]Value nil", nilValMap), N("[]Value nil", nilValSlice), N("map[string]int{}", map[string]int{}), N("map[string]string", map[string]string{"k": "v", "1": "one"}),
		N("map[int]string", map[int]string{1: "one", 2: "two"}), N("map[float64]int", map[float64]int{1.5: 15, 2: 20}), N("map[float64]int{NaN}", map[float64]int{math.NaN(): 1, 2: 20}), N("map[bool]int", map[bool]int{true: 1}),
		N("map[Value]Value", map[stick.Value]stick.Value{"s": 1, 2: "two", true: 3}), N("map[Value]Value{nil}", map[stick.Value]stick.Value{nil: "at-nil", "s": 1}), N("*map[Stringer]int{nil}", &map[stick.Stringer]int{nil: 7, ValStringer{"k"}: 8}), N("map[uint8]int", map[uint8]int{200: 1}), N("map[ValStringer]int", map[ValStringer]int{{"k"}: 1}),
		N("map[string][]int", map[string][]int{"l": {1, 2}}), N("map[string]map", map[string]map[string]int{"o": {"i": 1}}),
		N("Thing", th), N("*Thing", &th), N("**Thing", func() **Thing { p := &th; return &p }()),
		N("nil *[]int", nilPtrSlice), N("nil *map", nilPtrMap), N("nil *Thing", nilPtrThing),
		N("string", "hello"), N("int", 5), N("nil", nil), N("bool", true), N("func", func() int { return 1 }), N("chan", make(chan int)),
		N("safe-slice", stick.NewSafeValue([]int{1, 2}, "html")),
		N("embeds iface holding typed nil", EmbedsIfaces{Stringer: (*ValStringer)(nil), Number: (*ValNumber)(nil)}), N("*embeds iface holding typed nil", &EmbedsIfaces{Boolean: (*ValBoolean)(nil)}),
		N("embeds nil ifaces", EmbedsIfaces{}), N("*embeds nil ifaces", &EmbedsIfaces{}), N("embeds Stringer only", EmbedsIfaces{Stringer: ValStringer{"es"}}), N("embeds nil *ValStringer", EmbedsStringerPtr{Tag: "t"}), N("embeds *ValStringer", EmbedsStringerPtr{&ValStringer{"ep"}, "t"}),
		N("Shadow (outer field hides the embedded one)", Shadow{Inner{"inner-name", 1}, "outer-name"}), N("*DeepShadow", &DeepShadow{Shadow{Inner{"inner", 1}, "mid"}, "outer-N"}), N("Ambig (X at the same depth twice)", Ambig{A1{1, 2}, A2{3, 4}, "t"}),
		N("Checker (methods whose results are errors: values like any other)", Checker{Max: 1}), N("*Checker", &Checker{Max: 100}),
		N("LateWins (the shallower X is declared first, a deeper one later)", LateWins{A1{5, 6}, Wrap2{Wrap3{"deep"}}}),
		N("OuterVal", OuterVal{Inner{"in", 1}, 2}), N("*OuterVal", &OuterVal{Inner{"pin", 3}, 4}), N("OuterPtr", OuterPtr{&Inner{"ep", 5}, 6}), N("OuterPtr nil-embedded", OuterPtr{nil, 7}), N("*OuterPtr nil-embedded", &OuterPtr{nil, 8}),
		N("OuterIface", func() OuterIface {
			n := 9
			pn := &n
			return OuterIface{Any: []int{1}, PP: &pn, Next: &OuterIface{Any: "leaf"}}
		}()), N("OuterIface zero", OuterIface{}),
		N("OuterLower", func() OuterLower { a, _, _ := NewOuterLower(); return a }()), N("OuterLowerPtr", func() OuterLowerPtr { _, b, _ := NewOuterLower(); return b }()), N("OuterLowerPtr nil", func() OuterLowerPtr { _, _, c := NewOuterLower(); return c }()),
		N("local T #1", localT1()), N("local T #2", localT2()), N("*local T #3", localT3()),
		N("map[KeyStr]int", map[KeyStr]int{"a": 1, "1": 2, "true": 3, "1.5": 4}), N("map[KeyInt]string", map[KeyInt]string{1: "one", 0: "zero"}), N("map[KeyStr]int nil", map[KeyStr]int(nil)),
		N("map[KeyStringer]int", map[KeyStringer]int{"a": 1, "<a>": 2}), N("[]OuterIface", []OuterIface{{Any: []int{1}}, {Any: map[string]int{"x": 1}}, {Any: "s"}}), N("[2]OuterIface", [2]OuterIface{{Any: []int{1}}, {Any: []int{1}}}),
		N("NamedSlice", NamedSlice{5, 6}), N("NamedMap", NamedMap{"a": 1}), N("[]KeyStr", []KeyStr{"x", "y"}),
		// every way of reaching an embedded pointer (nil or not) two and three levels down: by value, by pointer, mixed
		N("ViaVal nil", ViaVal{OuterPtr{nil, 1}}), N("*ViaVal nil", &ViaVal{OuterPtr{nil, 2}}), N("ViaVal set", ViaVal{OuterPtr{&Inner{"vv", 1}, 3}}),
		N("ViaPtr nil below", ViaPtr{&OuterPtr{nil, 4}}), N("*ViaPtr nil below", &ViaPtr{&OuterPtr{nil, 5}}), N("ViaPtr nil itself", ViaPtr{}), N("ViaPtr set", ViaPtr{&OuterPtr{&Inner{"vp", 2}, 6}}),
		N("ViaValVal nil", ViaValVal{ViaVal{OuterPtr{nil, 7}}}), N("*ViaValVal nil", &ViaValVal{}), N("ViaValVal set", ViaValVal{ViaVal{OuterPtr{&Inner{"vvv", 3}, 8}}}),
		N("ViaPtrVal nil below", ViaPtrVal{&ViaVal{}}), N("ViaPtrVal set", ViaPtrVal{&ViaVal{OuterPtr{&Inner{"vpv", 4}, 9}}}), N("ViaValPtr nil below", ViaValPtr{ViaPtr{&OuterPtr{}}}), N("ViaValPtr nil above", ViaValPtr{}),
		N("BesideVal nil", BesideVal{A1{1, 2}, ViaVal{}}), N("*BesideVal set", &BesideVal{A1{1, 2}, ViaVal{OuterPtr{&Inner{"bv", 5}, 10}}}),
		N("Deep1 (String from a nil pointer below a value)", Deep1{}), N("*Deep2", &Deep2{}), N("Deep1 set", Deep1{Deep0{&ValStringer{"d1"}}}), N("DeepI1 (Number from a nil interface below a value)", DeepI1{}), N("DeepI2 set", DeepI2{DeepI1{DeepI0{ValNumber{3}}}}),
	}
}

// Keys returns the key/attribute zoo.
func Keys() []Named {
	var nilPtr *int
	return []Named{
		N("'a'", "a"), N("'k'", "k"), N("'1'", "1"), N("'0'", "0"), N("'Name'", "Name"), N("'hidden'", "hidden"), N("time.March", time.March), N("KindInt(2) printing as text", KindInt(2)), N("KindFloat(1) printing as text", KindFloat(1)), N("time.Duration(1)", time.Duration(1)), N("'hiddenFn'", "hiddenFn"), N("'hiddenNil'", "hiddenNil"), N("'ValueMethod'", "ValueMethod"), N("'PtrMethod'", "PtrMethod"),
		N("'Add'", "Add"), N("'Variadic'", "Variadic"), N("'Join'", "Join"), N("'Fmt'", "Fmt"), N("'Two'", "Two"), N("'Nothing'", "Nothing"), N("'NilFunc'", "NilFunc"), N("'Fn'", "Fn"), N("'TakesPtr'", "TakesPtr"), N("'TakesUint'", "TakesUint"), N("'TakesInt8'", "TakesInt8"), N("'TakesUint8'", "TakesUint8"),
		N("'TakesIface'", "TakesIface"), N("'TakesFloat'", "TakesFloat"), N("'TakesSlice'", "TakesSlice"), N("'TakesArray'", "TakesArray"), N("'TakesArrayPtr'", "TakesArrayPtr"), N("'TakesVals'", "TakesVals"), N("'TakesBytes'", "TakesBytes"), N("'TakesValsPtr'", "TakesValsPtr"), N("'Concat'", "Concat"), N("'hiddenMethod'", "hiddenMethod"), N("'missing'", "missing"), N("''", ""), N("'X'", "X"), N("'OnlyA'", "OnlyA"), N("'OnlyB'", "OnlyB"), N("'Étiquette'", "Étiquette"), N("'Ωmega'", "Ωmega"), N("'étiquette'", "étiquette"), N("-0.0", math.Copysign(0, -1)), N("'-0'", "-0"), N("'-0.0'", "-0.0"), N("float32 -0", float32(math.Copysign(0, -1))), NilSafePointer(), N("embeds a nil SafeValue as key", EmbedsSafe{}), N("opinionated safe 1", OpinionatedSafe{Inner: 1}), N("'Secret'", "Secret"), N("'secret'", "secret"), N("'Open'", "Open"), N("'Kids'", "Kids"), N("'GetSecret'", "GetSecret"), N("'IsOpen'", "IsOpen"), N("'HasKids'", "HasKids"), N("'Get'", "Get"), N("'count'", "count"),
		N("'Check'", "Check"), N("'Last'", "Last"), N("'Err'", "Err"), N("'Items'", "Items"), N("'Inner'", "Inner"), N("'Any'", "Any"), N("'Attrs'", "Attrs"), N("'ID'", "ID"), N("'note'", "note"), N("'innerLower'", "innerLower"), N("'A'", "A"), N("'B'", "B"), N("'C'", "C"), N("'N'", "N"), N("'Extra'", "Extra"), N("'Hello'", "Hello"), N("'PtrHello'", "PtrHello"), N("'String'", "String"), N("'Number'", "Number"), N("'Boolean'", "Boolean"), N("'Tag'", "Tag"), N("'PP'", "PP"), N("'Next'", "Next"), N("KeyStr('a')", KeyStr("a")), N("KeyStringer('a')", KeyStringer("a")), N("OuterIface{slice}", OuterIface{Any: []int{1}}), N("KeyInt(1)", KeyInt(1)), N("'true'", "true"),
		// strings that strconv.ParseFloat accepts but that are no usable index
		N("'NaN'", "NaN"), N("'nan'", "nan"), N("'Inf'", "Inf"), N("'-Inf'", "-Inf"), N("'+Infinity'", "+Infinity"), N("'1e400'", "1e400"), N("'0x1'", "0x1"), N("'0x1p-2'", "0x1p-2"),
		N("'1e0'", "1e0"), N("'1.0'", "1.0"), N("' 1'", " 1"), N("'-0'", "-0"), N("'1_0'", "1_0"),
		// fractions next to the ends of the index range: below zero is out of range however little
		N("-0.5", -0.5), N("'-0.25'", "-0.25"), N("-0.999", -0.999), N("-1e-9", -1e-9), N("2.999", 2.999), N("'2.5'", "2.5"), N("0.999", 0.999), N("float32(-0.5)", float32(-0.5)),
		N("0", 0), N("1", 1), N("2", 2), N("3", 3), N("-1", -1), N("100", 100), N("f1", 1.0), N("f1.5", 1.5), N("f2", 2.0), N("nan", math.NaN()), N("inf", math.Inf(1)), N("1e30", 1e30),
		N("true", true), N("false", false), N("nil", nil), N("nilptr", nilPtr), N("uint8(200)", uint8(200)), N("int64(1)", int64(1)),
		N("[]int", []int{1}), N("map", map[string]int{"a": 1}), N("stringer-k", ValStringer{"k"}), N("safe-a", stick.NewSafeValue("a", "html")), N("safe '1'", stick.NewSafeValue("1", "html")), N("safe 2", stick.NewSafeValue(2, "js")), N("safe 'k'", stick.NewSafeValue("k", "html")), N("func", func() {}),
	}
}

// Checker has methods whose single result is an error value - nil, or not: what a method returns is what the lookup
// finds, whatever else the result's type can do.
type (
	Issue   struct{ Code int }
	Checker struct{ Max int }
)

func (i Issue) Error() string { return "issue " + strconv.Itoa(i.Code) }
func (c Checker) Check(n int) error {
	if n > c.Max {
		return Issue{n}
	}
	return nil
}
func (c Checker) Last() Issue { return Issue{c.Max} }
func (c *Checker) Err() error { return &Issue{-c.Max} }

// ArgLists returns method argument lists.
func ArgLists() [][]stick.Value {
	th := NewThing()
	var nilThing *Thing
	return [][]stick.Value{
		{}, {1}, {1, 2}, {1, 2, 3}, {"a"}, {"a", "b"}, {nil}, {nil, nil}, {1.5}, {1.5, 2.0}, {2.0, 3.0}, {"1", "2"}, {true}, {&th}, {nilThing}, {th},
		{[]int{1, 2}}, {[]stick.Value{1}}, {[]int{}}, {[]int{1}}, {[]int{1, 2, 3}}, {[]stick.Value{}}, {[]stick.Value{1, 2}}, {[2]int{1, 2}}, {&[3]int{1, 2, 3}}, {[]byte("ab")}, {"ab"}, {"abcd"}, {1, "b"}, {int64(1), int8(2)}, {math.NaN()}, {func() {}},
		// numbers that do not fit the parameter: negative for unsigned, too large, wrapping around
		{-1}, {int64(-1)}, {300}, {uint64(1 << 63)}, {-129}, {int8(-1)}, {1e30}, {math.Copysign(0, -1)}, {float32(math.Copysign(0, -1)), math.Copysign(0, -1)}, {"-0"},
		// unsigned values with the top bit set: no signed type of that size holds them
		{uint8(200)}, {uint16(65535)}, {uint32(1 << 31)}, {uint64(math.MaxUint64)}, {uint(math.MaxUint64)}, {uint8(127)}, {uint8(128)}, {int8(-128)}, {int16(-1)}, {uint8(255), uint8(1)},
	}
}

// KindInt, KindBool and KindFloat are named scalar types whose String method returns an arbitrary text:
// what such a value prints as is decided by the method, not by its kind.
type (
	KindInt   int
	KindBool  bool
	KindFloat float64
)

// KindText is what the Kind* values print as (set by the single goroutine that renders with them).
var KindText string

// KindSlice and KindMap are container types with a String method: they print as what the method says.
type (
	KindSlice []int
	KindMap   map[string]int
)

func (KindSlice) String() string { return KindText }

// Changing is a Stringer that says something harmless the first time it is asked and Text from then on (a
// message bag emptied on read, a lazily loaded label ...): whoever asks twice prints the second answer.
type Changing struct {
	Text  string
	Calls int
}

func (c *Changing) String() string {
	c.Calls++
	if c.Calls == 1 {
		return "first"
	}
	return c.Text
}
func (KindMap) String() string   { return KindText }
func (KindInt) String() string   { return KindText }
func (KindBool) String() string  { return KindText }
func (KindFloat) String() string { return KindText }

// Distinct types that print alike (same package, same name): whatever is remembered about one of them
// must not be applied to the other.
func localT1() interface{} {
	type T struct {
		A int
		B string
	}
	return T{1, "b1"}
}

func localT2() interface{} {
	type T struct {
		B string
		C bool
		A int
	}
	return T{"b2", true, 2}
}

func localT3() interface{} {
	type T struct{ C float64 }
	return &T{3.5}
}

// Named key, slice and map types.
type (
	KeyStr     string
	KeyInt     int
	NamedF64   float64
	NamedF32   float32
	NamedU8    uint8
	NamedI64   int64
	NamedU64   uint64
	NamedUptr  uintptr
	NamedBool  bool
	NamedSlice []int
	NamedMap   map[string]int
)

// Embedded structs: promoted fields and methods, through a value, a pointer and a nil pointer.
type Inner struct {
	Name string
	N    int
}

func (i Inner) Hello() string     { return "hello " + i.Name }
func (i *Inner) PtrHello() string { return "ptr-hello " + i.Name }

// EmbedsIfaces implements Stringer, Number and Boolean through embedded interfaces, any of which may be nil: the
// promoted methods exist, calling one whose interface is nil dereferences nil.
type EmbedsIfaces struct {
	stick.Stringer
	stick.Number
	stick.Boolean
}

// TwoEmbedded embeds two pointers: the first has no String method, the second has.
type TwoEmbedded struct {
	*Inner
	*ValStringer
}

// EmbedsStringerPtr gets String() from an embedded pointer.
type EmbedsStringerPtr struct {
	*ValStringer
	Tag string
}

type OuterVal struct {
	Inner
	Extra int
}

type OuterPtr struct {
	*Inner
	Extra int
}

// Values that are encoders (of JSON, of text) through an embedded pointer or interface - which may be nil.
type (
	EmbedsTime          struct{ *time.Time }
	EmbedsMarshaler     struct{ json.Marshaler }
	EmbedsTextMarshaler struct{ encoding.TextMarshaler }
	HoldsEmbeds         struct {
		One  EmbedsTime
		List []EmbedsTime
		Map  map[string]interface{}
	}
)

// ViaX: an embedded pointer reached through further levels of embedding, by value and by pointer.
type (
	ViaVal    struct{ OuterPtr }
	ViaPtr    struct{ *OuterPtr }
	ViaValVal struct{ ViaVal }
	ViaPtrVal struct{ *ViaVal }
	ViaValPtr struct{ ViaPtr }
	BesideVal struct {
		A1
		ViaVal
	}
)

// OuterIface has an interface-typed field and a pointer to a pointer.
type OuterIface struct {
	Any  interface{}
	PP   **int
	Next *OuterIface
}

// KeyStringer is a defined string type whose String method does not return the string itself: as a map
// key it is the string that counts.
type KeyStringer string

func (k KeyStringer) String() string { return "<" + string(k) + ">" }

// An exported field promoted through an embedded struct of an unexported type is still exported.
type innerLower struct {
	ID   int
	note string
}

type OuterLower struct {
	innerLower
	Name string
}

type OuterLowerPtr struct {
	*innerLower
	Name string
}

// NewOuterLower returns the three shapes (value, pointer, nil pointer).
func NewOuterLower() (OuterLower, OuterLowerPtr, OuterLowerPtr) {
	return OuterLower{innerLower{7, "n"}, "ol"}, OuterLowerPtr{&innerLower{8, "n"}, "olp"}, OuterLowerPtr{nil, "olnil"}
}

// Defined numeric types that have methods fmt knows about - but none of Stringer, Number or Boolean: they coerce
// like the numbers they are (compare syscall.Errno, an integer with an Error method).
type (
	ErrInt  int
	ErrU8   uint8
	ErrF64  float64
	FmtInt  int64
	GoStrI  int32
	ErrText string
)

func (ErrInt) Error() string                 { return "status: not found" }
func (ErrU8) Error() string                  { return "errno" }
func (ErrF64) Error() string                 { return "not a number at all" }
func (FmtInt) Format(f fmt.State, verb rune) { f.Write([]byte("formatted!")) }
func (GoStrI) GoString() string              { return "gostring!" }
func (ErrText) Error() string                { return "an error text" }

// OpinionatedSafe is a user-written SafeValue that also implements Stringer, Number and Boolean - with answers that
// have nothing to do with what it wraps. A safe wrapper coerces like the value inside.
type OpinionatedSafe struct{ Inner stick.Value }

func (o OpinionatedSafe) Value() stick.Value { return o.Inner }
func (OpinionatedSafe) IsSafe(string) bool   { return true }
func (OpinionatedSafe) SafeFor() []string    { return []string{"html"} }
func (OpinionatedSafe) String() string       { return "the wrapper's own text" }
func (OpinionatedSafe) Number() float64      { return 987654 }
func (o OpinionatedSafe) Boolean() bool      { return !stick.CoerceBool(o.Inner) }

// EmbedsSafe gets the methods of a safe value from an embedded interface, which may be nil.
type EmbedsSafe struct {
	stick.SafeValue
	Tag string
}

// DeepN: a method promoted through N levels of embedding from a pointer (an interface) that is nil.
type (
	Deep0   struct{ *ValStringer }
	Deep1   struct{ Deep0 }
	Deep2   struct{ Deep1 }
	Deep3   struct{ Deep2 }
	Deep4   struct{ Deep3 }
	Deep5   struct{ Deep4 }
	Deep6   struct{ Deep5 }
	Deep7   struct{ Deep6 }
	Deep8   struct{ Deep7 }
	Deep9   struct{ Deep8 }
	Deep10  struct{ Deep9 }
	Deep11  struct{ Deep10 }
	Deep12  struct{ Deep11 }
	DeepI0  struct{ stick.Number }
	DeepI1  struct{ DeepI0 }
	DeepI2  struct{ DeepI1 }
	DeepI3  struct{ DeepI2 }
	DeepI4  struct{ DeepI3 }
	DeepI5  struct{ DeepI4 }
	DeepI6  struct{ DeepI5 }
	DeepI7  struct{ DeepI6 }
	DeepI8  struct{ DeepI7 }
	DeepI9  struct{ DeepI8 }
	DeepI10 struct{ DeepI9 }
	DeepI11 struct{ DeepI10 }
	DeepI12 struct{ DeepI11 }
)

// NilableNum / NilableBool: a map type with a Number method and a function type with a Boolean method - their nil
// values have methods that can be called.
type (
	NilableNum  map[string]int
	NilableBool func() bool
)

func (n NilableNum) Number() float64 { return float64(40 + len(n)) }
func (f NilableBool) Boolean() bool  { return f == nil }

// OwnOverNil declares String, Number and Boolean itself and also embeds nil values that have methods of the same
// names: its own methods are the ones that count (and they can be called).
type OwnOverNil struct {
	*ValStringer
	*ValNumber
	*ValBoolean
	Tag string
}

func (o OwnOverNil) String() string  { return "own:" + o.Tag }
func (o OwnOverNil) Number() float64 { return 77 }
func (o OwnOverNil) Boolean() bool   { return true }

// Field names that occur at several depths of embedding: the selector rules of Go decide - the shallowest wins
// (Shadow.Name is the outer field), two at the same depth are ambiguous and name no field (Ambig.X).
type (
	Shadow struct {
		Inner
		Name string
	}
	DeepShadow struct {
		Shadow
		N string
	}
	A1    struct{ X, OnlyA int }
	A2    struct{ X, OnlyB int }
	Ambig struct {
		A1
		A2
		Tag string
	}
	LateWins struct {
		A1
		Wrap2
	}
	Wrap2 struct{ Wrap3 }
	Wrap3 struct{ X string }
)
