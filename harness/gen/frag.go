// Package gen holds the generators shared by the checks: seed corpus, hostile
// fragment alphabet and enumerator, fragment-level mutators and PRNG helpers.
package gen

import (
	"math/rand"
	"regexp"
)

// Fragments is the hostile lexical alphabet used for bounded-exhaustive sequences.
var Fragments = []string{
	"{{", "}}", "{%", "%}", "{#", "#}", "#{", "}", "(", ")", "[", "]", "'", "\"",
	"-", "%", ".", "|", ",", ":", "a", "1", " ", "\n", "if", "endif",
}

// ExtraFragments widen random (non-exhaustive) sequences.
var ExtraFragments = []string{
	"{{-", "-}}", "{%-", "-%}", "{", "?", "=", "~", "*", "/", "<", ">", "!", "not", "in", "is", "and", "or",
	"for", "endfor", "block", "endblock", "set", "endset", "macro", "endmacro", "embed", "endembed",
	"verbatim", "endverbatim", "filter", "endfilter", "include", "extends", "use", "import", "from", "else", "elseif",
	"with", "only", "as", "\t", "\r", "\r\n", "\x00", "\xff", "\xc3", "é", "😀", "b-and", "..", "**", "//", "starts with",
	"x", "_", "0", "9", "1.5", "@", "$", "\\", "`", "&",
}

// FragSeq decodes index i into the i-th sequence (base len(Fragments)) of exactly
// length l.
func FragSeq(i, l int) string {
	b := make([]byte, 0, 4*l)
	n := len(Fragments)
	for k := 0; k < l; k++ {
		b = append(b, Fragments[i%n]...)
		i /= n
	}
	return string(b)
}

// Pow returns n**l.
func Pow(n, l int) int {
	r := 1
	for ; l > 0; l-- {
		r *= n
	}
	return r
}

var fragRe = regexp.MustCompile(`\{\{-?|-?\}\}|\{%-?|-?%\}|\{#-?|-?#\}|#\{|[A-Za-z_][A-Za-z0-9_]*|[0-9]+|\s+|.`)

// Split cuts a template into lexical fragments (delimiters, words, numbers,
// whitespace runs, single other bytes). Concatenating the result gives s back.
func Split(s string) []string {
	return fragRe.FindAllString(s, -1)
}

// Rng returns a PRNG determined by (seed, stream, i).
func Rng(seed int64, stream string, i int) *rand.Rand {
	h := uint64(seed)*0x9E3779B97F4A7C15 + 0x1234567
	for _, c := range []byte(stream) {
		h = (h ^ uint64(c)) * 0x100000001B3
	}
	h ^= uint64(i) * 0xD6E8FEB86659FD93
	h ^= h >> 32
	return rand.New(rand.NewSource(int64(h)))
}

// Pick returns a random element.
func Pick(r *rand.Rand, xs []string) string { return xs[r.Intn(len(xs))] }
