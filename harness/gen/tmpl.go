package gen

import (
	"strconv"
	"strings"
	"unicode"
	"unicode/utf8"
)

// ---------------------------------------------------------------------------
// Structure tree of a template program. The same tree is spelled into source
// text (fed to the implementation) and interpreted by the reference model.
// ---------------------------------------------------------------------------

// Expr is an expression node.
type Expr interface{}

type (
	ENum  struct{ Text string } // number literal as spelled ("12", "1.5")
	EStr  struct{ S string }    // string literal without interpolation
	EBool struct{ V bool }      //
	// EStrExpr is a string literal that stays an expression when it is a part of an EInterp ("a#{'b'}c"),
	// where a plain EStr part is literal text ("abc").
	EStrExpr struct{ S string }
	ENull    struct{}              //
	EName    struct{ Name string } //
	EUn      struct {
		Op string
		X  Expr
	} // not, -, +
	EBin struct {
		Op   string
		L, R Expr
	} //
	ETern struct{ C, A, B Expr } //
	ETest struct {               // x is [not] test(args)
		X    Expr
		Not  bool
		Test string // may be two words ("divisible by")
		Args []Expr
		Call bool // spell parentheses even without arguments
	}
	ECall struct {
		Fn   string
		Args []Expr
	} // registered function
	EFilter struct {
		X    Expr
		Name string
		Args []Expr
		Call bool
	} // x|name(args)
	EAttr struct {
		X   Expr
		Key Expr
		Dot bool
	} // x.key (Key is EStr) or x[key]
	EMethod struct {
		X    Expr
		Name string
		Args []Expr
	} // x.name(args)
	EArr  struct{ Els []Expr }
	EHash struct {
		Keys []Expr
		Vals []Expr
	} // keys: EStr (quoted), EName (bare), EGroup (computed)
	EInterp  struct{ Parts []Expr } // "text#{expr}text": EStr parts are literal text
	EGroup   struct{ X Expr }
	EParent  struct{}
	EBlockFn struct{ Name Expr }
)

// Node is a statement node.
type Node interface{}

type (
	NText struct {
		S  string
		ID string
	}
	NPrint struct {
		X  Expr
		ID string
	}
	NComment  struct{ S string }
	NVerbatim struct{ S string }
	NIf       struct {
		Conds   []Expr
		Bodies  [][]Node
		Else    []Node
		HasElse bool
		ID      string
	}
	NFor struct {
		Key, Val string
		Seq      Expr
		Cond     Expr // inline if, may be nil
		Body     []Node
		Else     []Node
		HasElse  bool
		ID       string
	}
	NSet struct {
		Name string
		X    Expr
		ID   string
	}
	NSetCap struct {
		Name string
		Body []Node
		ID   string
	}
	NFilter struct {
		Filters []string
		Body    []Node
		ID      string
	}
	NBlock struct {
		Name string
		Body []Node
		ID   string
	}
	NMacro struct {
		Name   string
		Params []string
		Body   []Node
		ID     string
	}
	NImport struct {
		Tpl   Expr
		Alias string
		ID    string
	}
	NFrom struct {
		Tpl   Expr
		Names [][2]string
		ID    string
	} // {name, alias} (alias == name when not renamed)
	NInclude struct {
		Tpl, With Expr
		Only      bool
		ID        string
	}
	NEmbed struct {
		Tpl, With Expr
		Only      bool
		Blocks    []*NBlock
		Stray     []Node // text, prints and comments between the opening tag and the first override (never rendered)
		ID        string
	}
	NExtends struct {
		Tpl Expr
		ID  string
	}
	NUse struct {
		Tpl     Expr
		Aliases [][2]string
		ID      string
	}
	NDo struct {
		X  Expr
		ID string
	}
	// NRaw is source text spelled verbatim (used to inject syntax errors).
	NRaw struct{ S string }
)

// Template is one named template.
type Template struct {
	Name string
	Body []Node
}

// ---------------------------------------------------------------------------
// Spelling
// ---------------------------------------------------------------------------

// Policy decides everything the structure tree leaves open about the spelling.
type Policy interface {
	// WS returns the whitespace to put between two tokens inside a delimiter
	// pair. mayBeEmpty tells whether the tokens cannot merge when abutted.
	WS(prev, next string, mayBeEmpty bool) string
	// Quote returns the quote character for a string literal whose text allows both.
	Quote() byte
	// TrailingComma reports whether to add a trailing comma to a non-empty list.
	TrailingComma() bool
	// Trim reports whether to add a '-' marker to a delimiter whose adjacent text
	// has no whitespace to trim.
	Trim() bool
}

// Canon is the canonical spelling: single blanks, single quotes, no extras.
type Canon struct{}

func (Canon) WS(prev, next string, mayBeEmpty bool) string {
	if tight(prev, next) {
		return ""
	}
	return " "
}
func (Canon) Quote() byte         { return '\'' }
func (Canon) TrailingComma() bool { return false }
func (Canon) Trim() bool          { return false }

// tight lists the token pairs the canonical style writes without a blank.
func tight(prev, next string) bool {
	switch next {
	case ".", ",", "|", ")", "]", ":", "(", "[":
		if next == "(" || next == "[" {
			return isWordTok(prev) && !isKeywordOp(prev) || prev == ")" || prev == "]" || prev == "(" || prev == "["
		}
		if next == ":" {
			return true
		}
		return true
	}
	switch prev {
	case ".", "|", "(", "[":
		return true
	}
	return false
}

func isKeywordOp(s string) bool {
	switch s {
	case "in", "not", "and", "or", "is", "not in", "is not", "matches", "starts with", "ends with", "b-and", "b-or", "b-xor", "if", "elseif", "for", "set", "with", "only", "as", "import", "do", "extends", "include", "embed", "use", "from", "filter":
		return true
	}
	return false
}

func isWordTok(s string) bool {
	if s == "" {
		return false
	}
	r, _ := utf8.DecodeLastRuneInString(s)
	return isWordRune(r)
}

func isNumberTok(s string) bool {
	if s == "" {
		return false
	}
	for i := 0; i < len(s); i++ {
		if (s[i] < '0' || s[i] > '9') && s[i] != '.' {
			return false
		}
	}
	return s[len(s)-1] != '.'
}

func isWordRune(r rune) bool {
	return r == '_' || unicode.IsLetter(r) || unicode.IsDigit(r)
}

func isSymByte(c byte) bool { return strings.IndexByte("+-*/%~<>=!.,|?:", c) >= 0 }

// CanAbut reports whether two adjacent tokens may be written without
// whitespace between them without merging into a different token sequence.
func CanAbut(a, b string) bool {
	if a == "" || b == "" {
		return false
	}
	la := a[len(a)-1]
	fb := b[0]
	switch a {
	case "{{", "{%", "{{-", "{%-":
		return fb != '-' && fb != '{' && fb != '#' && fb != '%' && fb != '}'
	case "#{":
		return fb != '-' && fb != '{' && fb != '}'
	}
	switch b {
	case "}}", "%}", "-}}", "-%}":
		// a closing brace right in front is the end of a hash: {{ {a: 1}}} closes the hash first
		return la != '-' && la != '%' && la != '#' && la != '{'
	case "}": // interpolation close
		return la != '{' && la != '#' && la != '%'
	}
	ra, _ := utf8.DecodeLastRuneInString(a)
	rb, _ := utf8.DecodeRuneInString(b)
	if isKeywordOp(b) && b != "if" && isNumberTok(a) {
		// a number literal ends where its digits end: 2or y, 1is pos, 3b-and 1 (a name would swallow the word)
		switch b {
		case "in", "not", "and", "or", "is", "matches", "starts", "ends", "b-and", "b-or", "b-xor":
			return true
		}
	}
	if isWordRune(ra) && isWordRune(rb) {
		return false
	}
	if isSymByte(la) && isSymByte(fb) {
		return false
	}
	if (la >= '0' && la <= '9' && fb == '.') || (la == '.' && fb >= '0' && fb <= '9') {
		return false
	}
	if la == '{' && (fb == '{' || fb == '%' || fb == '#') {
		return false
	}
	if (la == '%' || la == '#') && fb == '}' {
		return false
	}
	if la == '#' && fb == '{' {
		return false
	}
	if la == '{' && fb == '{' {
		// two opening braces are the start of a print statement; closing braces close hashes as long as one is open
		return false
	}
	return true
}

// Anchor records where a construct's anchor token starts in the spelled source.
type Anchor struct {
	Kind string // "text", "print", "tag:<name>", "name", "number", "string"
	ID   string // unique content that identifies the construct (e.g. the name itself)
	Off  int    // byte offset of the anchor's first byte
}

// Speller turns structure trees into source text.
type Speller struct {
	B       strings.Builder
	Pol     Policy
	prev    string
	Anchors []Anchor
	// Boundaries counts token boundaries inside delimiters (evidence for C14).
	Boundaries int
	// lastTextNoWS tracks whether the text just before/after has no whitespace (for trim markers)
	pendingText string
}

// NewSpeller returns a speller with the given policy.
func NewSpeller(p Policy) *Speller { return &Speller{Pol: p} }

// Source spells a whole template.
func Source(t *Template, p Policy) (string, []Anchor) {
	s := NewSpeller(p)
	s.Nodes(t.Body)
	return s.B.String(), s.Anchors
}

func (s *Speller) anchor(kind, id string) {
	s.Anchors = append(s.Anchors, Anchor{kind, id, s.B.Len()})
}

// StrictBraces makes the speller refuse a text that ends in '{' directly in front of a delimiter ("{" + "{{" reads
// as "{{" + "{"): a generator that produces this has made a mistake (C01's byte-level inputs do not go through here).
var StrictBraces = true

func (s *Speller) guardBrace() {
	if StrictBraces {
		if b := s.B.String(); len(b) > 0 && b[len(b)-1] == '{' {
			panic("gen: a text ending in '{' stands directly in front of a delimiter: " + b[max(0, len(b)-40):])
		}
	}
}

func (s *Speller) open(d string, prevTextEndsWS bool) {
	s.guardBrace()
	if !prevTextEndsWS && s.Pol.Trim() {
		d += "-"
	}
	s.B.WriteString(d)
	s.prev = d
}

func (s *Speller) close(d string, nextTextStartsWS bool) {
	if !nextTextStartsWS && s.Pol.Trim() {
		d = "-" + d
	}
	s.tok(d)
	s.prev = ""
}

// tok writes one token inside a delimiter pair.
func (s *Speller) tok(t string) {
	ws := s.Pol.WS(s.prev, t, CanAbut(s.prev, t))
	s.Boundaries++
	s.B.WriteString(ws)
	s.B.WriteString(t)
	s.prev = t
}

// atok writes a token and records an anchor at its first byte.
func (s *Speller) atok(t, kind, id string) {
	ws := s.Pol.WS(s.prev, t, CanAbut(s.prev, t))
	s.Boundaries++
	s.B.WriteString(ws)
	s.anchor(kind, id)
	s.B.WriteString(t)
	s.prev = t
}

func endsWS(b *strings.Builder) bool {
	str := b.String()
	if str == "" {
		return false
	}
	c := str[len(str)-1]
	return c == ' ' || c == '\n' || c == '\t' || c == '\r'
}

func startsWS(nodes []Node, i int) bool {
	if i+1 < len(nodes) {
		if t, ok := nodes[i+1].(*NText); ok && t.S != "" {
			c := t.S[0]
			return c == ' ' || c == '\n' || c == '\t' || c == '\r'
		}
	}
	return false
}

// Nodes spells a node list.
func (s *Speller) Nodes(nodes []Node) {
	for i, n := range nodes {
		s.node(n, startsWS(nodes, i))
	}
}

func (s *Speller) tagOpen(name, id string) {
	s.open("{%", endsWS(&s.B))
	s.atok(name, "tag:"+name, id)
}

// simple closing tag such as {% endif %}; the following text is unknown so no trim marker is added.
func (s *Speller) endTag(name string) {
	s.open("{%", true)
	s.tok(name)
	s.close("%}", true)
}

func (s *Speller) node(n Node, nextWS bool) {
	switch n := n.(type) {
	case *NText:
		s.anchor("text", n.ID)
		s.B.WriteString(n.S)
	case *NRaw:
		s.B.WriteString(n.S)
	case *NPrint:
		ws := endsWS(&s.B)
		s.anchor("print", n.ID)
		s.open("{{", ws)
		s.Expr(n.X)
		s.close("}}", nextWS)
	case *NComment:
		s.guardBrace()
		s.B.WriteString("{#" + n.S + "#}")
	case *NVerbatim:
		s.open("{%", endsWS(&s.B))
		s.atok("verbatim", "tag:verbatim", "")
		bodyWS := n.S == "" || n.S[0] == ' ' || n.S[0] == '\n' || n.S[0] == '\t' || n.S[0] == '\r'
		s.close("%}", bodyWS)
		s.anchor("verbatim-body", "")
		s.B.WriteString(n.S)
		// (a verbatim body may end in anything, also in '{': the end tag is found by its name)
		strict := StrictBraces
		StrictBraces = false
		s.endTag("endverbatim")
		StrictBraces = strict
	case *NIf:
		for i, c := range n.Conds {
			kw := "if"
			if i > 0 {
				kw = "elseif"
			}
			s.tagOpen(kw, n.ID)
			s.Expr(c)
			s.close("%}", true)
			s.Nodes(n.Bodies[i])
		}
		if n.HasElse {
			s.endTag("else")
			s.Nodes(n.Else)
		}
		s.endTag("endif")
	case *NFor:
		s.tagOpen("for", n.ID)
		if n.Key != "" {
			s.atok(n.Key, "name", n.Key)
			s.tok(",")
		}
		s.atok(n.Val, "name", n.Val)
		s.tok("in")
		s.Expr(n.Seq)
		if n.Cond != nil {
			s.tok("if")
			s.Expr(n.Cond)
		}
		s.close("%}", true)
		s.Nodes(n.Body)
		if n.HasElse {
			s.endTag("else")
			s.Nodes(n.Else)
		}
		s.endTag("endfor")
	case *NSet:
		s.tagOpen("set", n.ID)
		s.atok(n.Name, "name", n.Name)
		s.tok("=")
		s.Expr(n.X)
		s.close("%}", nextWS)
	case *NSetCap:
		s.tagOpen("set", n.ID)
		s.atok(n.Name, "name", n.Name)
		s.close("%}", true)
		s.Nodes(n.Body)
		s.endTag("endset")
	case *NFilter:
		s.tagOpen("filter", n.ID)
		for i, f := range n.Filters {
			if i > 0 {
				s.tok("|")
			}
			s.tok(f)
		}
		s.close("%}", true)
		s.Nodes(n.Body)
		s.endTag("endfilter")
	case *NBlock:
		s.block(n)
	case *NMacro:
		s.tagOpen("macro", n.ID)
		s.atok(n.Name, "name", n.Name)
		s.tok("(")
		for i, p := range n.Params {
			if i > 0 {
				s.tok(",")
			}
			s.tok(p)
		}
		s.tok(")")
		s.close("%}", true)
		s.Nodes(n.Body)
		s.endTag("endmacro")
	case *NImport:
		s.tagOpen("import", n.ID)
		s.Expr(n.Tpl)
		s.tok("as")
		s.tok(n.Alias)
		s.close("%}", nextWS)
	case *NFrom:
		s.tagOpen("from", n.ID)
		s.Expr(n.Tpl)
		s.tok("import")
		for i, nm := range n.Names {
			if i > 0 {
				s.tok(",")
			}
			s.tok(nm[0])
			if nm[1] != nm[0] {
				s.tok("as")
				s.tok(nm[1])
			}
		}
		s.close("%}", nextWS)
	case *NInclude:
		s.tagOpen("include", n.ID)
		s.includeArgs(n.Tpl, n.With, n.Only)
		s.close("%}", nextWS)
	case *NEmbed:
		s.tagOpen("embed", n.ID)
		s.includeArgs(n.Tpl, n.With, n.Only)
		s.close("%}", true)
		// content outside the override blocks is discarded at run time, but it is source like any other
		s.Nodes(n.Stray)
		for _, b := range n.Blocks {
			s.block(b)
		}
		s.endTag("endembed")
	case *NExtends:
		s.tagOpen("extends", n.ID)
		s.Expr(n.Tpl)
		s.close("%}", nextWS)
	case *NUse:
		s.tagOpen("use", n.ID)
		s.Expr(n.Tpl)
		if len(n.Aliases) > 0 {
			s.tok("with")
			for i, a := range n.Aliases {
				if i > 0 {
					s.tok(",")
				}
				s.tok(a[0])
				s.tok("as")
				s.tok(a[1])
			}
		}
		s.close("%}", nextWS)
	case *NDo:
		s.tagOpen("do", n.ID)
		s.Expr(n.X)
		s.close("%}", nextWS)
	default:
		panic("gen: unknown node")
	}
}

func (s *Speller) block(n *NBlock) {
	s.tagOpen("block", n.ID)
	s.atok(n.Name, "name", n.Name)
	s.close("%}", true)
	s.Nodes(n.Body)
	s.endTag("endblock")
}

func (s *Speller) includeArgs(tpl, with Expr, only bool) {
	s.Expr(tpl)
	if with != nil {
		s.tok("with")
		s.Expr(with)
	}
	if only {
		s.tok("only")
	}
}

func (s *Speller) list(els []Expr) {
	for i, e := range els {
		if i > 0 {
			s.tok(",")
		}
		s.Expr(e)
	}
	if len(els) > 0 && s.Pol.TrailingComma() {
		s.tok(",")
	}
}

// QuoteString spells a string literal; the text must not contain both quote kinds, or "#{" when double quotes
// are chosen. (A backslash is a character like any other: the language has no escape sequences.)
func (s *Speller) quoteString(str string) string {
	q := s.Pol.Quote()
	if strings.ContainsRune(str, '\'') {
		q = '"'
	} else if strings.ContainsRune(str, '"') || strings.Contains(str, "#{") {
		q = '\''
	}
	return string(q) + str + string(q)
}

// Expr spells an expression.
func (s *Speller) Expr(e Expr) {
	switch e := e.(type) {
	case *ENum:
		s.atok(e.Text, "number", e.Text)
	case *EStr:
		q := s.quoteString(e.S)
		ws := s.Pol.WS(s.prev, q, CanAbut(s.prev, q))
		s.Boundaries++
		s.B.WriteString(ws)
		s.Anchors = append(s.Anchors, Anchor{"string", e.S, s.B.Len()})
		s.B.WriteString(q)
		s.prev = q
	case *EStrExpr:
		s.Expr(&EStr{S: e.S})
	case *EBool:
		s.tok(strconv.FormatBool(e.V))
	case *ENull:
		s.tok("null")
	case *EName:
		s.atok(e.Name, "name", e.Name)
	case *EUn:
		s.tok(e.Op)
		s.Expr(e.X)
	case *EBin:
		s.Expr(e.L)
		// the words of "not in", "starts with", ... are separated by white space like any two words
		for _, w := range strings.Fields(e.Op) {
			s.tok(w)
		}
		s.Expr(e.R)
	case *ETern:
		s.Expr(e.C)
		s.tok("?")
		s.Expr(e.A)
		s.tok(":")
		s.Expr(e.B)
	case *ETest:
		s.Expr(e.X)
		s.tok("is")
		if e.Not {
			s.tok("not")
		}
		for _, w := range strings.Fields(e.Test) {
			s.tok(w)
		}
		if len(e.Args) > 0 || e.Call {
			s.tok("(")
			s.list(e.Args)
			s.tok(")")
		}
	case *ECall:
		s.tok(e.Fn)
		s.tok("(")
		s.list(e.Args)
		s.tok(")")
	case *EFilter:
		s.Expr(e.X)
		s.tok("|")
		s.tok(e.Name)
		if len(e.Args) > 0 || e.Call {
			s.tok("(")
			s.list(e.Args)
			s.tok(")")
		}
	case *EAttr:
		s.Expr(e.X)
		if e.Dot {
			s.tok(".")
			switch k := e.Key.(type) {
			case *EStr:
				s.atok(k.S, "attr", k.S)
			case *ENum:
				s.atok(k.Text, "attr", k.Text)
				// an index after a dot is complete as it stands: a dot that follows is the next access, not a
				// decimal point, and may follow without a blank (rows.0.name)
				s.prev = "]"
			default:
				panic("gen: dot key must be a name or number")
			}
		} else {
			s.tok("[")
			s.Expr(e.Key)
			s.tok("]")
		}
	case *EMethod:
		s.Expr(e.X)
		s.tok(".")
		s.atok(e.Name, "attr", e.Name)
		s.tok("(")
		s.list(e.Args)
		s.tok(")")
	case *EArr:
		s.tok("[")
		s.list(e.Els)
		s.tok("]")
	case *EHash:
		s.tok("{")
		for i := range e.Keys {
			if i > 0 {
				s.tok(",")
			}
			switch k := e.Keys[i].(type) {
			case *EName:
				s.atok(k.Name, "name", k.Name)
			default:
				s.Expr(k)
			}
			s.tok(":")
			s.Expr(e.Vals[i])
		}
		if len(e.Keys) > 0 && s.Pol.TrailingComma() {
			s.tok(",")
		}
		s.tok("}")
	case *EInterp:
		// one string token with embedded expressions
		ws := s.Pol.WS(s.prev, "\"", CanAbut(s.prev, "\""))
		s.Boundaries++
		s.B.WriteString(ws)
		s.B.WriteString("\"")
		for _, p := range e.Parts {
			if lit, ok := p.(*EStr); ok {
				s.B.WriteString(lit.S)
				continue
			}
			s.B.WriteString("#{")
			s.prev = "#{"
			s.Expr(p)
			s.tok("}")
		}
		s.B.WriteString("\"")
		s.prev = "\""
	case *EGroup:
		s.tok("(")
		s.Expr(e.X)
		s.tok(")")
	case *EParent:
		s.tok("parent")
		s.tok("(")
		s.tok(")")
	case *EBlockFn:
		s.tok("block")
		s.tok("(")
		s.Expr(e.Name)
		s.tok(")")
	default:
		panic("gen: unknown expr")
	}
}

// ExprSource spells one expression canonically.
func ExprSource(e Expr) string {
	s := NewSpeller(Canon{})
	s.prev = "{{"
	s.Expr(e)
	return strings.TrimSpace(s.B.String())
}

// ExprSourceWith spells one expression under the given policy.
func ExprSourceWith(e Expr, pol Policy) string {
	s := NewSpeller(pol)
	s.prev = "{{"
	s.Expr(e)
	return strings.TrimSpace(s.B.String())
}

// Wide puts a line break and a tab between any two tokens.
type Wide struct{}

func (Wide) WS(prev, next string, mayBeEmpty bool) string { return "\n\t" }
func (Wide) Quote() byte                                  { return '"' }
func (Wide) TrailingComma() bool                          { return true }
func (Wide) Trim() bool                                   { return false }

// Vast puts a long run of white space between any two tokens: 33, 64, 257 or 1025 characters (blanks with a tab,
// a line break and a carriage return somewhere in them), so that every tag and print is longer than any buffer
// or look-ahead window a tokeniser might use.
type Vast struct{}

func (Vast) WS(prev, next string, mayBeEmpty bool) string {
	n := 0
	for _, c := range []byte(prev + "|" + next) {
		n = n*31 + int(c)
	}
	if n < 0 {
		n = -n
	}
	size := []int{33, 64, 257, 33, 1025, 40}[n%6]
	switch prev + " " + next {
	case "not in", "is not", "starts with", "ends with", "divisible by", "same as":
		size = 1100 // the words of one operator, far apart
	}
	b := []byte(strings.Repeat(" ", size))
	b[size/2] = "\t\n\r "[n%4]
	b[size-1] = " \t"[n%2]
	return string(b)
}
func (Vast) Quote() byte         { return '\'' }
func (Vast) TrailingComma() bool { return false }
func (Vast) Trim() bool          { return false }

// FullParen wraps every compound sub-expression in a group, so that the spelled
// text does not depend on operator precedence.
func FullParen(e Expr) Expr {
	wrap := func(x Expr) Expr {
		x = FullParen(x)
		switch x.(type) {
		case *EBin, *EUn, *ETern, *ETest:
			return &EGroup{x}
		}
		return x
	}
	switch e := e.(type) {
	case *EUn:
		return &EUn{e.Op, wrap(e.X)}
	case *EBin:
		return &EBin{e.Op, wrap(e.L), wrap(e.R)}
	case *ETern:
		return &ETern{wrap(e.C), wrap(e.A), wrap(e.B)}
	case *ETest:
		a := make([]Expr, len(e.Args))
		for i, x := range e.Args {
			a[i] = FullParen(x)
		}
		return &ETest{wrap(e.X), e.Not, e.Test, a, e.Call}
	case *ECall:
		a := make([]Expr, len(e.Args))
		for i, x := range e.Args {
			a[i] = FullParen(x)
		}
		return &ECall{e.Fn, a}
	case *EFilter:
		a := make([]Expr, len(e.Args))
		for i, x := range e.Args {
			a[i] = FullParen(x)
		}
		return &EFilter{wrap(e.X), e.Name, a, e.Call}
	case *EAttr:
		k := e.Key
		if !e.Dot {
			k = FullParen(k)
		}
		return &EAttr{wrap(e.X), k, e.Dot}
	case *EArr:
		a := make([]Expr, len(e.Els))
		for i, x := range e.Els {
			a[i] = FullParen(x)
		}
		return &EArr{a}
	case *EHash:
		v := make([]Expr, len(e.Vals))
		for i, x := range e.Vals {
			v[i] = FullParen(x)
		}
		return &EHash{e.Keys, v}
	case *EInterp:
		p := make([]Expr, len(e.Parts))
		for i, x := range e.Parts {
			p[i] = FullParen(x)
		}
		return &EInterp{p}
	case *EGroup:
		return &EGroup{FullParen(e.X)}
	}
	return e
}

// Tight is the spelling with no whitespace wherever two tokens cannot merge.
type Tight struct{}

func (Tight) WS(prev, next string, mayBeEmpty bool) string {
	if mayBeEmpty {
		return ""
	}
	return " "
}
func (Tight) Quote() byte         { return '\'' }
func (Tight) TrailingComma() bool { return false }
func (Tight) Trim() bool          { return false }
