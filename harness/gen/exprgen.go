package gen

import (
	"math/rand"
	"strconv"
	"strings"
)

// ExprGen generates typed random expression trees for the expression checks.
// It keeps only light constraints; the reference model rejects (OutOfRegion)
// whatever leaves the agreement region, and the caller regenerates.
type ExprGen struct {
	R *rand.Rand
	// Vars lists context variables by type.
	NumVars, StrVars, BoolVars, ArrVars, HashVars []string
	// ArrLens gives the length of each array variable; HashKeys the single key of each hash variable.
	ArrLens  map[string]int
	HashKeys map[string]string
	// Callbacks enables calls of registered functions/filters/tests.
	Callbacks bool
	PatVar    string // a string variable holding a valid pattern ("" = patterns are literals only)
	noCB      int    // >0 while generating the right operand of and/or
	inInterp  int    // >0 while generating an interpolated part (no nested double-quoted strings)
}

// Type of a generated expression.
type Type int

const (
	TNum Type = iota
	TStr
	TBool
	TNull
	TArr
	THash
)

var numLits = []string{"0", "1", "2", "3", "4", "5", "7", "10", "12", "0.5", "1.5", "2.25", "0.75", "100", "010", "012", "0017", "00"}
var strLits = []string{"a", "b", "bc", "Hello", "x y", "", "12", "3", "abc", "é", "A-1", "z",
	// what a tokeniser looking for the end of a string or of an interpolation must not trip over
	"q\"t", "\"", "}", "it's", "#{", "{{ }}", "%}", "a\\nb", "C:\\temp", "\\", "x#"}
var patLits = []string{"^a", "b", "^[a-z]+$", "[0-9]", "c$", "^$", "l+"}

func (g *ExprGen) pick(xs []string) string { return xs[g.R.Intn(len(xs))] }

func (g *ExprGen) cb() bool { return g.Callbacks && g.noCB == 0 }

// Scalar returns an expression of a random printable type.
func (g *ExprGen) Scalar(depth int) Expr {
	switch g.R.Intn(10) {
	case 0, 1, 2, 3:
		return g.Gen(TNum, depth)
	case 4, 5, 6:
		return g.Gen(TStr, depth)
	case 7, 8:
		return g.Gen(TBool, depth)
	}
	if g.R.Intn(4) == 0 {
		return &ENull{}
	}
	return g.Gen(TNum, depth)
}

// divisor is the literal n, one time in four negated.
func (g *ExprGen) divisor(n string) Expr {
	if g.R.Intn(4) == 0 {
		return &EGroup{&EUn{"-", &ENum{n}}}
	}
	return &ENum{n}
}

// Gen returns an expression of type t with at most the given depth.
func (g *ExprGen) Gen(t Type, depth int) Expr {
	r := g.R
	if depth <= 0 {
		return g.leaf(t)
	}
	d := depth - 1
	switch t {
	case TNum:
		switch r.Intn(16) {
		case 0, 1:
			return g.leaf(TNum)
		case 2:
			return &EBin{"+", g.Gen(TNum, d), g.Gen(TNum, d)}
		case 3:
			return &EBin{"-", g.Gen(TNum, d), g.Gen(TNum, d)}
		case 4:
			return &EBin{"*", g.Gen(TNum, d), g.Gen(TNum, d)}
		case 5:
			return &EBin{"/", g.Gen(TNum, d), g.divisor([]string{"1", "2", "4", "8"}[r.Intn(4)])}
		case 6:
			return &EBin{"//", g.Gen(TNum, d), g.divisor(strconv.Itoa(1 + r.Intn(7)))}
		case 7:
			return &EBin{"%", g.Gen(TNum, d), g.divisor(strconv.Itoa(1 + r.Intn(7)))}
		case 8:
			return &EBin{"**", &ENum{strconv.Itoa(r.Intn(5))}, &ENum{strconv.Itoa(r.Intn(4))}}
		case 9:
			return &EUn{"-", g.Gen(TNum, d)}
		case 10:
			return &EUn{"+", g.Gen(TNum, d)}
		case 11:
			ops := []string{"b-and", "b-or", "b-xor"}
			lim := []int{64, 64, 1024, 200000}[r.Intn(4)]
			return &EBin{ops[r.Intn(3)], &ENum{strconv.Itoa(r.Intn(lim))}, &ENum{strconv.Itoa(r.Intn(lim))}}
		case 12:
			return &ETern{g.Gen(TBool, d), g.Gen(TNum, d), g.Gen(TNum, d)}
		case 13:
			if g.cb() {
				if r.Intn(2) == 0 {
					return &ECall{"num", []Expr{g.Gen(TNum, d)}}
				}
				return &EFilter{g.Gen(TNum, d), "inc", []Expr{g.Gen(TNum, d)}, false}
			}
			return g.leaf(TNum)
		case 14:
			// element of an array literal / variable
			n := 1 + r.Intn(3)
			els := make([]Expr, n)
			for i := range els {
				els[i] = g.Gen(TNum, 0)
			}
			if r.Intn(4) == 0 {
				// an index after a dot, followed by a further access: rows.0.name, m.0.1
				k := r.Intn(n)
				if r.Intn(2) == 0 {
					return &EAttr{&EAttr{&EArr{[]Expr{&EArr{els}}}, &ENum{"0"}, true}, &ENum{strconv.Itoa(k)}, true}
				}
				return &EAttr{&EAttr{&EArr{[]Expr{&ENum{"9"}, &EHash{[]Expr{g.hashKey("k")}, []Expr{els[k]}}}}, &ENum{"1"}, true}, &EStr{"k"}, r.Intn(2) == 0}
			}
			if r.Intn(2) == 0 {
				// a computed index: (k + 1) - 1
				k := r.Intn(n)
				return &EAttr{&EArr{els}, &EBin{"-", &EBin{"+", &ENum{strconv.Itoa(k)}, &ENum{"1"}}, &ENum{"1"}}, false}
			}
			return &EAttr{&EArr{els}, &ENum{strconv.Itoa(r.Intn(n))}, false}
		default:
			if r.Intn(4) == 0 {
				// a number as hash key, spelled in a way that is not how the number prints: the key is the number
				nk := [][2]string{{"1.0", "1"}, {"007", "7"}, {"2.50", "2.5"}, {"10.00", "10"}, {"0.50", "0.5"}, {"3", "3"}}[r.Intn(6)]
				h := &EHash{[]Expr{&ENum{nk[0]}}, []Expr{g.Gen(TNum, d)}}
				switch r.Intn(3) {
				case 0:
					return &EAttr{&EGroup{h}, &ENum{nk[1]}, false}
				case 1:
					return &EAttr{&EGroup{h}, &EStr{nk[1]}, false}
				}
				return &EAttr{&EGroup{h}, &ENum{nk[0]}, false}
			}
			// value of a single-entry hash
			k := g.pick([]string{"k", "key", "a1"})
			h := &EHash{[]Expr{g.hashKey(k)}, []Expr{g.Gen(TNum, d)}}
			if r.Intn(2) == 0 {
				return &EAttr{&EGroup{h}, &EStr{k}, true}
			}
			return &EAttr{&EGroup{h}, &EStr{k}, false}
		}
	case TStr:
		switch r.Intn(10) {
		case 0, 1:
			return g.leaf(TStr)
		case 2, 3:
			return &EBin{"~", g.Scalar(d), g.Scalar(d)}
		case 4:
			if g.inInterp > 2 {
				return g.leaf(TStr) // interpolated strings nest (three levels are enough)
			}
			g.inInterp++
			a, b := g.Scalar(d), g.Scalar(d)
			g.inInterp--
			// a string literal inside #{ } is an expression like any other, also the empty one, also when the
			// string consists of nothing else
			// (an EStr among the parts is literal text of the string: only for text that can stand there unquoted)
			raw := func(t string) bool { return !strings.Contains(t, "\"") && !strings.Contains(t, "#{") }
			if x, ok := a.(*EStr); ok && (r.Intn(2) == 0 || !raw(x.S)) {
				a = &EStrExpr{x.S}
			}
			if x, ok := b.(*EStr); ok && (r.Intn(2) == 0 || !raw(x.S)) {
				b = &EStrExpr{x.S}
			}
			switch r.Intn(8) {
			case 0:
				return &EInterp{[]Expr{&EStrExpr{""}}}
			case 1:
				return &EInterp{[]Expr{&EStrExpr{""}, &EStrExpr{""}}}
			case 2:
				return &EInterp{[]Expr{a}}
			}
			return &EInterp{[]Expr{&EStr{g.pick([]string{"p ", "", "x"})}, a, &EStr{g.pick([]string{" q", "", "-", "}", "}} "})}, b}}
		case 5:
			return &ETern{g.Gen(TBool, d), g.Gen(TStr, d), g.Gen(TStr, d)}
		case 6:
			if g.cb() {
				n := r.Intn(4)
				args := make([]Expr, n)
				for i := range args {
					args[i] = g.Scalar(d)
				}
				return &ECall{"fn", args}
			}
			return g.leaf(TStr)
		case 7:
			if g.cb() {
				n := r.Intn(3)
				args := make([]Expr, n)
				for i := range args {
					args[i] = g.Scalar(d)
				}
				return &EFilter{g.Scalar(d), "wrap", args, r.Intn(2) == 0}
			}
			return g.leaf(TStr)
		case 8:
			if g.cb() {
				return &EFilter{g.Gen(TStr, d), "up", nil, false}
			}
			return g.leaf(TStr)
		default:
			if len(g.HashVars) > 0 && r.Intn(2) == 0 {
				h := g.pick(g.HashVars)
				return &EAttr{&EName{h}, &EStr{g.HashKeys[h]}, r.Intn(2) == 0}
			}
			return g.leaf(TStr)
		}
	case TBool:
		switch r.Intn(16) {
		case 0:
			return g.leaf(TBool)
		case 1:
			ops := []string{"<", "<=", ">", ">="}
			return &EBin{ops[r.Intn(4)], g.Gen(TNum, d), g.Gen(TNum, d)}
		case 2:
			ops := []string{"==", "!="}
			return &EBin{ops[r.Intn(2)], g.Gen(TNum, d), g.Gen(TNum, d)}
		case 3:
			ops := []string{"==", "!="}
			return &EBin{ops[r.Intn(2)], g.Gen(TStr, d), g.Gen(TStr, d)}
		case 4:
			g.noCB++
			rhs := g.Gen(TBool, d)
			g.noCB--
			return &EBin{"and", g.Gen(TBool, d), rhs}
		case 5:
			g.noCB++
			rhs := g.Gen(TBool, d)
			g.noCB--
			return &EBin{"or", g.Gen(TBool, d), rhs}
		case 6:
			return &EUn{"not", g.Gen(TBool, d)}
		case 7:
			ops := []string{"in", "not in"}
			return &EBin{ops[r.Intn(2)], g.Gen(TNum, d), g.Gen(TArr, d)}
		case 8:
			ops := []string{"starts with", "ends with"}
			return &EBin{ops[r.Intn(2)], g.Gen(TStr, d), g.Gen(TStr, 0)}
		case 9:
			if g.PatVar != "" && g.R.Intn(3) == 0 {
				return &EBin{"matches", g.Gen(TStr, d), &EName{g.PatVar}}
			}
			return &EBin{"matches", g.Gen(TStr, d), &EStr{g.pick(patLits)}}
		case 10:
			if g.cb() {
				switch r.Intn(3) {
				case 0:
					return &ETest{g.Gen(TNum, d), r.Intn(2) == 0, "pos", nil, r.Intn(3) == 0}
				case 1:
					return &ETest{g.Scalar(d), r.Intn(2) == 0, "eq", []Expr{g.Scalar(d)}, false}
				default:
					return &ETest{&ENum{strconv.Itoa(r.Intn(20))}, r.Intn(2) == 0, "divisible by", []Expr{&ENum{strconv.Itoa(1 + r.Intn(5))}}, false}
				}
			}
			return g.leaf(TBool)
		case 11:
			if g.cb() {
				return &ECall{"truth", []Expr{g.Gen(TBool, d)}}
			}
			return g.leaf(TBool)
		case 12:
			return &ETern{g.Gen(TBool, d), g.Gen(TBool, d), g.Gen(TBool, d)}
		case 13:
			ops := []string{"==", "!="}
			return &EBin{ops[r.Intn(2)], g.Gen(TBool, d), g.Gen(TBool, d)}
		case 14:
			ops := []string{"in", "not in"}
			if r.Intn(4) == 0 {
				// a string (or null, or a boolean) looked for in a range
				lo := r.Intn(3) - 1
				needle := []Expr{g.Gen(TStr, 0), &ENull{}, &EBool{r.Intn(2) == 0}, &EStr{strconv.Itoa(lo + 1)}}[r.Intn(4)]
				return &EBin{ops[r.Intn(2)], needle, &EGroup{&EBin{"..", &EGroup{&ENum{strconv.Itoa(lo)}}, &ENum{strconv.Itoa(lo + 2)}}}}
			}
			if r.Intn(3) == 0 {
				// a hash as haystack: its values count, not its keys (needle = the key, the value, or neither)
				k, v := g.pick([]string{"k", "abc", "b"}), g.pick([]string{"abc", "b", "z"})
				h := &EGroup{&EHash{[]Expr{g.hashKey(k)}, []Expr{&EStr{v}}}}
				needle := []Expr{&EStr{k}, &EStr{v}, g.Gen(TStr, 0)}[r.Intn(3)]
				return &EBin{ops[r.Intn(2)], needle, h}
			}
			return &EBin{ops[r.Intn(2)], g.Gen(TStr, 0), &EArr{[]Expr{g.Gen(TStr, 0), g.Gen(TStr, 0)}}}
		default:
			// number vs canonical numeric string, null vs false
			if r.Intn(2) == 0 {
				return &EBin{"==", g.Gen(TNum, 0), &EStr{g.pick([]string{"1", "2", "12", "0.5", "7"})}}
			}
			return &EBin{"==", &ENull{}, &EBool{r.Intn(2) == 0}}
		}
	case TArr:
		switch r.Intn(6) {
		case 0, 1:
			n := r.Intn(4)
			els := make([]Expr, n)
			for i := range els {
				els[i] = g.Gen(TNum, d)
			}
			return &EArr{els}
		case 2:
			a := r.Intn(5)
			return &EBin{"..", &ENum{strconv.Itoa(a)}, &ENum{strconv.Itoa(a + r.Intn(5))}}
		case 3:
			if len(g.ArrVars) > 0 {
				return &EName{g.pick(g.ArrVars)}
			}
			return &EArr{[]Expr{g.Gen(TNum, 0)}}
		case 4:
			if g.cb() {
				return &ECall{"pair", []Expr{g.Gen(TNum, d), g.Gen(TNum, d)}}
			}
			return &EArr{[]Expr{g.Gen(TNum, 0), g.Gen(TNum, 0)}}
		default:
			return &EGroup{&EHash{[]Expr{g.hashKey("k")}, []Expr{g.Gen(TNum, d)}}}
		}
	case TNull:
		return &ENull{}
	}
	return g.leaf(t)
}

func (g *ExprGen) hashKey(k string) Expr {
	if g.cb() && g.R.Intn(4) == 0 {
		// a key computed by a callback: it is called before whatever the value calls
		return &EGroup{&ECall{"ident", []Expr{&EStr{k}}}}
	}
	switch g.R.Intn(3) {
	case 0:
		return &EName{k}
	case 1:
		return &EStr{k}
	}
	return &EGroup{&EStr{k}}
}

func (g *ExprGen) leaf(t Type) Expr {
	r := g.R
	switch t {
	case TNum:
		if len(g.NumVars) > 0 && r.Intn(3) == 0 {
			return &EName{g.pick(g.NumVars)}
		}
		return &ENum{g.pick(numLits)}
	case TStr:
		if len(g.StrVars) > 0 && r.Intn(3) == 0 {
			return &EName{g.pick(g.StrVars)}
		}
		return &EStr{g.pick(strLits)}
	case TBool:
		if len(g.BoolVars) > 0 && r.Intn(3) == 0 {
			return &EName{g.pick(g.BoolVars)}
		}
		return &EBool{r.Intn(2) == 0}
	case TArr:
		if len(g.ArrVars) > 0 && r.Intn(2) == 0 {
			return &EName{g.pick(g.ArrVars)}
		}
		return &EArr{[]Expr{&ENum{g.pick(numLits)}, &ENum{g.pick(numLits)}}}
	case THash:
		return &EHash{[]Expr{&EStr{"k"}}, []Expr{&ENum{g.pick(numLits)}}}
	}
	return &ENull{}
}

// StdContext returns the standard context (Go values for the library) and the
// variable lists describing it.
func StdContext(g *ExprGen) map[string]interface{} {
	// some names begin with an operator word: they are still names
	// ... and some are mixed-case spellings of the keyword literals: names as well
	g.NumVars = []string{"n1", "n2", "n3", "n4", "not1", "in2", "None"}
	g.StrVars = []string{"s1", "s2", "s3", "or3", "is4", "True"}
	g.BoolVars = []string{"t", "f", "and5", "False"}
	g.ArrVars = []string{"arr1", "arr2"}
	g.HashVars = []string{"h1"}
	g.ArrLens = map[string]int{"arr1": 3, "arr2": 0}
	g.HashKeys = map[string]string{"h1": "k"}
	g.PatVar = "pat"
	return map[string]interface{}{
		"pat":  "^a",
		"None": 9, "True": "tv", "False": true, "Null": "nn",
		"not1": 4, "in2": uint8(2), "or3": "b", "is4": "Hello", "and5": true,
		"n1": 3, "n2": 0.5, "n3": int64(10), "n4": float32(7), "n9": int64(4294967296),
		"s1": "abc", "s2": "", "s3": "12",
		"t": true, "f": false,
		"arr1": []int{1, 2, 3}, "arr2": []interface{}{},
		"h1": map[string]interface{}{"k": "hv"},
	}
}
