package gen

import (
	"fmt"
	"math/rand"
	"strconv"
)

// ProgGen generates random multi-template programs that use every tag and
// operator. It has no oracle of its own: it serves the totality, fault-injection,
// layout-insensitivity and leak checks, which only need programs that reach deep
// into the parser and the executor. The template call graph is acyclic and loops
// run over small sequences, so every program terminates quickly by construction.
type ProgGen struct {
	R *rand.Rand
	// Hostile switches on operands that provoke run-time trouble (zero divisors,
	// odd ranges, wrong key types, unknown callbacks, wrong arities).
	Hostile bool
	// Vars is the pool of context variable names expressions may refer to.
	Vars []string
	// Filters / Funcs / Tests are callback names that exist in the environment.
	Filters, Funcs, Tests []string
	// MaxDepth bounds statement nesting.
	MaxDepth int
	// SingleEntryHashes keeps hash literals to at most one entry, so that nothing
	// depends on Go's map iteration order (needed by the differential checks).
	SingleEntryHashes bool
	// Inert makes all literal text and string literals of the generated templates
	// free of characters that are significant in HTML (used by the auto-escape check:
	// whatever significant character shows up in the output then comes from the data).
	Inert bool
	// IterVars names context variables that are iterable; in non-hostile mode loops
	// run over these, array literals or ranges (so that programs get past their loops).
	IterVars []string
	// Prefix is put in front of every template name (several programs in one loader).
	Prefix string

	seq    int
	locals []string
	macros []string // macros defined so far in the current template
	blocks []string
	// open holds the names of the blocks being generated; used marks every block
	// name already defined in the current template. A block nested in (or calling,
	// through block()) a block of the same name would recurse forever, which is
	// outside every claim, and Twig rejects duplicate block names outright.
	open []string
	used map[string]bool
	// inChild is set while generating templates that take part in inheritance.
	inChild bool
	// parentOK is set while generating the direct body of a block that overrides an
	// ancestor's block (parent() has something to find).
	parentOK bool
}

func (g *ProgGen) freeBlockName() string {
	// A nested block always has a higher number than every block around it, in every
	// template: nesting b1 in b5 here and b5 in b1 in an ancestor would re-enter
	// itself through parent() (unbounded recursion, outside every claim).
	min := -1
	for _, o := range g.open {
		if len(o) == 2 && o[0] == 'b' && int(o[1]-'0') > min {
			min = int(o[1] - '0')
		}
	}
	for i, n := range []string{"b0", "b1", "b2", "b3", "b4", "b5"} {
		if g.used == nil {
			g.used = map[string]bool{}
		}
		if i > min && !g.used[n] && g.R.Intn(2) == 0 {
			return n
		}
	}
	return ""
}

// forbidBlocks prevents block tags in what is generated next (a block inside a
// macro body is resolved through the caller's chain and can re-enter the caller:
// unbounded recursion, outside every claim). It returns the function that undoes it.
func (g *ProgGen) forbidBlocks() func() {
	saved := g.used
	g.used = map[string]bool{"b0": true, "b1": true, "b2": true, "b3": true, "b4": true, "b5": true}
	return func() { g.used = saved }
}

func (g *ProgGen) resetTemplate() {
	g.macros, g.blocks, g.locals, g.open, g.used = nil, nil, nil, nil, map[string]bool{}
}

func (g *ProgGen) id(prefix string) string {
	g.seq++
	return prefix + strconv.Itoa(g.seq)
}

func (g *ProgGen) pickS(xs []string) string { return xs[g.R.Intn(len(xs))] }

var textChunks = []string{"a", " b ", "text\n", "<p>", "}", "%", "# ", "{ ", "é", "1", " ", "x}}y", "%}", "\t", "end", "中"}

var inertChunks = []string{"a", " b ", "text\n", "1", "end", " ", "é", "[x]", "0:", "|"}

func (g *ProgGen) text() *NText {
	n := 1 + g.R.Intn(3)
	s := ""
	for i := 0; i < n; i++ {
		if g.Inert {
			s += g.pickS(inertChunks)
		} else {
			s += g.pickS(textChunks)
		}
	}
	// never end in '{' (it could merge with a following delimiter)
	if s[len(s)-1] == '{' {
		s += "."
	}
	return &NText{S: s, ID: g.id("T")}
}

func (g *ProgGen) name() string {
	if len(g.locals) > 0 && g.R.Intn(2) == 0 {
		return g.pickS(g.locals)
	}
	if len(g.Vars) > 0 && (g.R.Intn(8) != 0 || !g.Hostile) {
		return g.pickS(g.Vars)
	}
	return "undef" + strconv.Itoa(g.R.Intn(3))
}

var hostileNums = []string{"0", "1", "2", "3", "10", "0.5", "1.5", "7", "100", "0.0"}

// HostileStrs are string literals that are awkward as attribute names, indexes, patterns or operands.
var HostileStrs = hostileStrs

var hostileStrs = []string{"", "a", "0", "abc", "1.5", "Name", "k", "x y", "(", "^a", "é", "NaN", "Inf", "1e400", "0x1", "-1", "Extra", "N", "Any", "Inner", "true"}

// Expr returns a random, untyped expression.
func (g *ProgGen) Expr(depth int) Expr {
	r := g.R
	if depth <= 0 {
		switch r.Intn(9) {
		case 0, 1:
			return &ENum{Text: g.pickS(hostileNums)}
		case 2:
			return &EStr{S: g.pickS(hostileStrs)}
		case 3:
			return &EBool{V: r.Intn(2) == 0}
		case 4:
			if g.Hostile || r.Intn(3) == 0 {
				return &ENull{}
			}
			return &ENum{Text: "4"}
		default:
			return &EName{Name: g.name()}
		}
	}
	d := depth - 1
	switch r.Intn(22) {
	case 0, 1, 2:
		ops := []string{"+", "-", "*", "/", "//", "%", "**", "~", "==", "!=", "<", "<=", ">", ">=", "and", "or", "in", "not in",
			"starts with", "ends with", "matches", "b-and", "b-or", "b-xor"}
		op := g.pickS(ops)
		if !g.Hostile && op == "%" {
			return &EBin{Op: op, L: g.Expr(d), R: &ENum{Text: strconv.Itoa(1 + r.Intn(5))}}
		}
		if !g.Hostile && (op == "in" || op == "not in") {
			return &EBin{Op: op, L: g.Expr(d), R: g.iterable(d)}
		}
		if !g.Hostile && op == "matches" {
			return &EBin{Op: op, L: g.Expr(d), R: &EStr{S: g.pickS([]string{"^a", "[0-9]", "b$"})}}
		}
		return &EBin{Op: op, L: g.Expr(d), R: g.Expr(d)}
	case 3:
		// ranges only over small literal bounds (spans above a million are outside the claim)
		lo, hi := r.Intn(7)-2, r.Intn(9)-2
		if !g.Hostile && hi < lo {
			lo, hi = hi, lo
		}
		var l, h Expr = &ENum{Text: strconv.Itoa(abs(lo))}, &ENum{Text: strconv.Itoa(abs(hi))}
		if lo < 0 {
			l = &EGroup{X: &EUn{Op: "-", X: l}}
		}
		if hi < 0 {
			h = &EGroup{X: &EUn{Op: "-", X: h}}
		}
		if g.Hostile && r.Intn(4) == 0 {
			h = &ENum{Text: "2.5"}
		}
		return &EGroup{X: &EBin{Op: "..", L: l, R: h}}
	case 4:
		return &EUn{Op: g.pickS([]string{"-", "+", "not"}), X: g.Expr(d)}
	case 5:
		return &ETern{C: g.Expr(d), A: g.Expr(d), B: g.Expr(d)}
	case 6:
		return &EGroup{X: g.Expr(d)}
	case 7:
		n := r.Intn(4)
		els := make([]Expr, n)
		for i := range els {
			els[i] = g.Expr(d)
		}
		return &EArr{Els: els}
	case 8:
		n := r.Intn(3)
		if g.SingleEntryHashes && n > 1 {
			n = 1
		}
		h := &EHash{}
		for i := 0; i < n; i++ {
			var k Expr
			switch r.Intn(4) {
			case 0:
				k = &EName{Name: g.pickS([]string{"k", "a", "Name"})}
			case 1:
				k = &EStr{S: g.pickS(hostileStrs)}
			case 2:
				k = &EGroup{X: g.Expr(0)}
			default:
				k = &ENum{Text: strconv.Itoa(r.Intn(3))}
			}
			h.Keys = append(h.Keys, k)
			h.Vals = append(h.Vals, g.Expr(d))
		}
		return &EGroup{X: h}
	case 9, 10:
		// attribute access with every kind of key
		x := g.Expr(d)
		switch x.(type) {
		case *EName, *EGroup, *EAttr:
		default:
			x = &EGroup{X: x}
		}
		if r.Intn(2) == 0 {
			keys := []string{"k", "a", "Name", "Count", "hidden", "hiddenFn", "Items", "length", "index", "missing", "Extra", "N", "Any", "Inner", "PP", "Next"}
			return &EAttr{X: x, Key: &EStr{S: g.pickS(keys)}, Dot: true}
		}
		return &EAttr{X: x, Key: g.Expr(d), Dot: false}
	case 11:
		x := Expr(&EName{Name: g.name()})
		ms := []string{"ValueMethod", "PtrMethod", "Add", "Concat", "Variadic", "Two", "Nothing", "NilFunc", "Fn", "TakesPtr", "TakesFloat", "TakesSlice", "hiddenMethod", "hiddenFn", "hiddenNil", "nope"}
		n := r.Intn(3)
		args := make([]Expr, n)
		for i := range args {
			args[i] = g.Expr(d)
		}
		return &EMethod{X: x, Name: g.pickS(ms), Args: args}
	case 12, 13:
		fn := "nofunc"
		if len(g.Funcs) > 0 && (!g.Hostile || r.Intn(6) != 0) {
			fn = g.pickS(g.Funcs)
		}
		n := r.Intn(3)
		args := make([]Expr, n)
		for i := range args {
			args[i] = g.Expr(d)
		}
		return &ECall{Fn: fn, Args: args}
	case 14, 15, 16:
		f := "nofilter"
		if len(g.Filters) > 0 && (!g.Hostile || r.Intn(8) != 0) {
			f = g.pickS(g.Filters)
		}
		n := r.Intn(3)
		args := make([]Expr, n)
		for i := range args {
			args[i] = g.Expr(0)
		}
		x := g.Expr(d)
		switch x.(type) {
		case *EBin, *EUn, *ETern, *ETest:
			x = &EGroup{X: x}
		}
		return &EFilter{X: x, Name: f, Args: args, Call: r.Intn(2) == 0}
	case 17:
		t := "notest"
		if len(g.Tests) > 0 && (!g.Hostile || r.Intn(6) != 0) {
			t = g.pickS(g.Tests)
		}
		if t == "notest" && !g.Hostile {
			return g.Expr(d)
		}
		var args []Expr
		if r.Intn(2) == 0 {
			args = []Expr{g.Expr(0)}
		}
		x := g.Expr(d)
		switch x.(type) {
		case *EBin, *EUn, *ETern, *ETest:
			x = &EGroup{X: x}
		}
		return &ETest{X: x, Not: r.Intn(2) == 0, Test: t, Args: args}
	case 18:
		return &EInterp{Parts: []Expr{&EStr{S: "i:"}, g.Expr(0), &EStr{S: "/"}, g.Expr(0)}}
	case 19:
		if len(g.macros) > 0 {
			n := r.Intn(4)
			args := make([]Expr, n)
			for i := range args {
				args[i] = g.Expr(d)
			}
			return &EMethod{X: &EName{Name: "_self"}, Name: g.pickS(g.macros), Args: args}
		}
		return g.Expr(0)
	case 20:
		if len(g.blocks) > 0 && len(g.open) == 0 && !g.inChild && r.Intn(2) == 0 {
			return &EBlockFn{Name: &EStr{S: g.pickS(g.blocks)}}
		}
		return g.Expr(0)
	default:
		return g.Expr(0)
	}
}

// iterable returns an expression that can be iterated.
func (g *ProgGen) iterable(d int) Expr {
	r := g.R
	switch r.Intn(4) {
	case 0:
		if len(g.IterVars) > 0 {
			return &EName{Name: g.pickS(g.IterVars)}
		}
		fallthrough
	case 1:
		n := r.Intn(4)
		els := make([]Expr, n)
		for i := range els {
			els[i] = g.Expr(d - 1)
		}
		return &EArr{Els: els}
	case 2:
		lo := r.Intn(3)
		return &EGroup{X: &EBin{Op: "..", L: &ENum{Text: strconv.Itoa(lo)}, R: &ENum{Text: strconv.Itoa(lo + r.Intn(3))}}}
	default:
		return &EGroup{X: &EHash{Keys: []Expr{&EStr{S: "k"}}, Vals: []Expr{g.Expr(d - 1)}}}
	}
}

// noTrailingTest parenthesises an expression that ends in a test: stick takes a
// name following a test name for the second word of a two-word test, so
// "for x in a is t if c" cannot be written without parentheses.
func noTrailingTest(e Expr) Expr {
	switch x := e.(type) {
	case *ETest:
		return &EGroup{X: e}
	case *EBin:
		return &EBin{Op: x.Op, L: x.L, R: noTrailingTest(x.R)}
	case *EUn:
		return &EUn{Op: x.Op, X: noTrailingTest(x.X)}
	case *ETern:
		return &ETern{C: x.C, A: x.A, B: noTrailingTest(x.B)}
	}
	return e
}

func abs(i int) int {
	if i < 0 {
		return -i
	}
	return i
}

// Nodes returns a random statement list. inBlock tells whether parent() makes sense;
// aux lists the names of templates that may be included / embedded / imported from here.
func (g *ProgGen) Nodes(depth, n int, aux []string, inBlock bool) []Node {
	var out []Node
	for i := 0; i < n; i++ {
		out = append(out, g.node(depth, aux, inBlock))
	}
	return out
}

func (g *ProgGen) body(depth int, aux []string, inBlock bool) []Node {
	return g.Nodes(depth-1, 1+g.R.Intn(3), aux, inBlock)
}

func (g *ProgGen) node(depth int, aux []string, inBlock bool) Node {
	r := g.R
	if depth <= 0 {
		if r.Intn(2) == 0 {
			return g.text()
		}
		return &NPrint{X: g.Expr(1 + r.Intn(2)), ID: g.id("P")}
	}
	switch r.Intn(24) {
	case 0, 1, 2:
		return g.text()
	case 3, 4, 5, 6:
		return &NPrint{X: g.Expr(1 + r.Intn(3)), ID: g.id("P")}
	case 7:
		return &NComment{S: g.pickS([]string{" c ", "", " {{ x }} ", "\n", "-", " {% if %} "})}
	case 8, 9:
		nc := 1 + r.Intn(3)
		n := &NIf{ID: g.id("I")}
		for i := 0; i < nc; i++ {
			n.Conds = append(n.Conds, g.Expr(1+r.Intn(2)))
			n.Bodies = append(n.Bodies, g.body(depth, aux, inBlock))
		}
		if r.Intn(2) == 0 {
			n.HasElse = true
			n.Else = g.body(depth, aux, inBlock)
		}
		return n
	case 10, 11, 12:
		n := &NFor{Val: g.id("v"), ID: g.id("F")}
		if r.Intn(2) == 0 {
			n.Key = g.id("k")
		}
		n.Seq = noTrailingTest(g.Expr(1 + r.Intn(2)))
		if r.Intn(3) == 0 {
			n.Seq = &EName{Name: g.name()}
		}
		if !g.Hostile && r.Intn(10) != 0 {
			n.Seq = g.iterable(1)
		}
		saved := g.locals
		g.locals = append(append([]string{}, g.locals...), n.Val)
		if !g.SingleEntryHashes {
			// the loop record is a multi-entry map: iterating or joining it depends on Go's map order
			g.locals = append(g.locals, "loop")
		}
		if n.Key != "" {
			g.locals = append(g.locals, n.Key)
		}
		if r.Intn(3) == 0 {
			n.Cond = noTrailingTest(g.Expr(1))
		}
		n.Body = g.body(depth, aux, inBlock)
		if r.Intn(4) == 0 {
			n.Body = append(n.Body, &NPrint{X: &EAttr{X: &EName{Name: "loop"}, Key: &EStr{S: g.pickS([]string{"index", "index0", "revindex", "revindex0", "first", "last", "length"})}, Dot: true}, ID: g.id("P")})
		}
		g.locals = saved
		if r.Intn(3) == 0 {
			n.HasElse = true
			n.Else = g.body(depth, aux, inBlock)
		}
		return n
	case 13:
		nm := g.id("s")
		n := &NSet{Name: nm, X: g.Expr(1 + r.Intn(2)), ID: g.id("S")}
		if r.Intn(3) == 0 && len(g.Vars) > 0 {
			n.Name = g.pickS(g.Vars)
		} else {
			g.locals = append(g.locals, nm)
		}
		return n
	case 14:
		nm := g.id("c")
		n := &NSetCap{Name: nm, Body: g.body(depth, aux, inBlock), ID: g.id("S")}
		g.locals = append(g.locals, nm)
		if g.Inert && r.Intn(2) == 0 {
			// the idiom for captured markup: print the capture through raw (what was printed inside is already escaped)
			return &NIf{Conds: []Expr{&EBool{V: true}}, Bodies: [][]Node{{n, &NPrint{X: &EFilter{X: &EName{Name: nm}, Name: "raw"}, ID: g.id("P")}}}, ID: g.id("I")}
		}
		return n
	case 15:
		nf := 1 + r.Intn(3)
		n := &NFilter{ID: g.id("L")}
		for i := 0; i < nf; i++ {
			f := "nofilter"
			if len(g.Filters) > 0 && (!g.Hostile || r.Intn(8) != 0) {
				f = g.pickS(g.Filters)
			}
			if g.Inert {
				// a filter section writes the filter's result as is: only filters that add no characters
				f = g.pickS([]string{"upper", "lower", "trim", "title", "capitalize"})
			}
			n.Filters = append(n.Filters, f)
		}
		n.Body = g.body(depth, aux, inBlock)
		return n
	case 16:
		name := g.freeBlockName()
		if name == "" {
			return g.text()
		}
		g.used[name] = true
		b := &NBlock{Name: name, ID: g.id("B")}
		g.open = append(g.open, name)
		savedPOK := g.parentOK
		g.parentOK = false
		b.Body = g.body(depth, aux, true)
		g.parentOK = savedPOK
		g.open = g.open[:len(g.open)-1]
		g.blocks = append(g.blocks, b.Name) // block() may refer to it once it is closed
		return b
	case 17:
		if len(aux) == 0 {
			return g.text()
		}
		n := &NInclude{Tpl: &EStr{S: g.pickS(aux)}, ID: g.id("N")}
		if g.Hostile && r.Intn(8) == 0 {
			n.Tpl = &EStr{S: "missing-template"}
		}
		if r.Intn(2) == 0 {
			n.With = &EHash{Keys: []Expr{&EName{Name: g.pickS(append([]string{"w"}, g.Vars...))}}, Vals: []Expr{g.Expr(1)}}
		}
		n.Only = r.Intn(3) == 0
		return n
	case 18:
		if len(aux) == 0 {
			return g.text()
		}
		n := &NEmbed{Tpl: &EStr{S: g.pickS(aux)}, ID: g.id("E")}
		embedHasBlocks := n.Tpl.(*EStr).S == g.Prefix+"layout"
		if r.Intn(3) == 0 {
			n.With = &EHash{Keys: []Expr{&EName{Name: "w"}}, Vals: []Expr{g.Expr(1)}}
		}
		n.Only = r.Intn(4) == 0
		nb := r.Intn(3)
		for i := 0; i < nb; i++ {
			b := &NBlock{Name: []string{"b0", "b1"}[i], ID: g.id("B")}
			savedOpen, savedUsed, savedBlocks := g.open, g.used, g.blocks
			g.open, g.used, g.blocks = []string{b.Name}, map[string]bool{"b0": true, "b1": true, "b2": true, "b3": true, "b4": true, "b5": true}, nil
			savedPOK := g.parentOK
			g.parentOK = embedHasBlocks
			b.Body = g.body(depth, nil, true)
			g.parentOK = savedPOK
			g.open, g.used, g.blocks = savedOpen, savedUsed, savedBlocks
			if r.Intn(3) == 0 && (g.Hostile || embedHasBlocks) {
				b.Body = append(b.Body, &NPrint{X: &EParent{}, ID: g.id("P")})
			}
			n.Blocks = append(n.Blocks, b)
		}
		return n
	case 19:
		if inBlock && (g.Hostile || g.parentOK) {
			return &NPrint{X: &EParent{}, ID: g.id("P")}
		}
		return g.text()
	case 20:
		return &NDo{X: g.Expr(1 + r.Intn(2)), ID: g.id("D")}
	case 21:
		if g.Inert {
			return &NVerbatim{S: g.pickS([]string{"{{ raw }}", " {% if x %}y{% endif %} ", "{# c #}", "plain", "{%", ""})}
		}
		return &NVerbatim{S: g.pickS([]string{"{{ raw }}", " {% if x %}y{% endif %} ", "{# c #}", "plain", "{{ 'x", "{%", ""})}
	case 22:
		if len(aux) == 0 {
			return g.text()
		}
		if r.Intn(2) == 0 {
			alias := g.id("m")
			g.locals = append(g.locals, alias)
			if !g.Hostile {
				return &NImport{Tpl: &EStr{S: g.Prefix + "macros"}, Alias: alias, ID: g.id("M")}
			}
			return &NImport{Tpl: &EStr{S: g.pickS(aux)}, Alias: alias, ID: g.id("M")}
		}
		nm := g.pickS([]string{"mac0", "mac1", "nomacro"})
		if !g.Hostile && nm == "nomacro" {
			nm = "mac0"
		}
		al := nm
		if r.Intn(2) == 0 {
			al = g.id("f")
		}
		if !g.Hostile {
			return &NFrom{Tpl: &EStr{S: g.Prefix + "macros"}, Names: [][2]string{{nm, al}}, ID: g.id("M")}
		}
		return &NFrom{Tpl: &EStr{S: g.pickS(aux)}, Names: [][2]string{{nm, al}}, ID: g.id("M")}
	default:
		// macro call through an import alias or a from-import made earlier
		if !g.Hostile {
			alias := ""
			for _, l := range g.locals {
				if len(l) > 1 && l[0] == 'm' && l[1] >= '0' && l[1] <= '9' {
					alias = l
				}
			}
			if alias == "" {
				return g.text()
			}
			n := r.Intn(4)
			args := make([]Expr, n)
			for i := range args {
				args[i] = g.Expr(1)
			}
			return &NPrint{X: &EMethod{X: &EName{Name: alias}, Name: g.pickS([]string{"mac0", "mac1"}), Args: args}, ID: g.id("P")}
		}
		n := r.Intn(4)
		args := make([]Expr, n)
		for i := range args {
			args[i] = g.Expr(1)
		}
		return &NPrint{X: &EMethod{X: &EName{Name: g.name()}, Name: g.pickS([]string{"mac0", "mac1", "nomacro"}), Args: args}, ID: g.id("P")}
	}
}

// Program builds a whole program: a main template (possibly the leaf of an
// inheritance chain of 1..4 levels), partials to include/embed, a macro library
// and a block library. It returns the templates and the name of the main one.
func (g *ProgGen) Program() (map[string]*Template, string) {
	r := g.R
	if g.MaxDepth == 0 {
		g.MaxDepth = 3
	}
	ts := map[string]*Template{}
	// macro library
	{
		g.resetTemplate()
		var body []Node
		for i := 0; i < 2; i++ {
			name := "mac" + strconv.Itoa(i)
			params := []string{"p", "q", "r"}[:r.Intn(4)]
			saved := g.locals
			g.locals = append([]string{}, params...)
			restore := g.forbidBlocks()
			mb := g.Nodes(1, 1+r.Intn(3), nil, false)
			restore()
			g.locals = saved
			body = append(body, &NMacro{Name: name, Params: params, Body: mb, ID: g.id("M")})
			g.macros = append(g.macros, name) // later macros may call earlier ones only
		}
		ts[g.Prefix+"macros"] = &Template{Name: g.Prefix + "macros", Body: body}
	}
	// block library (for use)
	{
		g.resetTemplate()
		var body []Node
		for _, n := range []string{"b0", "b1", "b2", "b3", "b4", "b5"} {
			g.used[n] = true // no nested blocks here: an alias onto the name of a nested block would recurse
		}
		for _, bn := range []string{"b1", "u0"} {
			body = append(body, g.namedBlock(bn, func() []Node { return g.Nodes(1, 1+r.Intn(2), nil, true) }))
		}
		ts[g.Prefix+"blocks"] = &Template{Name: g.Prefix + "blocks", Body: body}
	}
	// partials: p2 may be used by p1 (acyclic)
	{
		g.resetTemplate()
		ts[g.Prefix+"part2"] = &Template{Name: g.Prefix + "part2", Body: g.Nodes(2, 1+r.Intn(4), []string{g.Prefix + "macros"}, false)}
		g.resetTemplate()
		ts[g.Prefix+"part1"] = &Template{Name: g.Prefix + "part1", Body: g.Nodes(2, 1+r.Intn(4), []string{g.Prefix + "part2", g.Prefix + "macros"}, false)}
		// an embeddable layout with blocks, itself possibly extending base0
		g.resetTemplate()
		var lay []Node
		if r.Intn(3) == 0 {
			lay = append(lay, &NExtends{Tpl: &EStr{S: g.Prefix + "base0"}, ID: g.id("X")})
		}
		g.used["b0"], g.used["b1"] = true, true // the layout's own blocks
		for _, bn := range []string{"b0", "b1"} {
			lay = append(lay, g.text(), g.namedBlock(bn, func() []Node { return g.Nodes(1, 1+r.Intn(2), []string{g.Prefix + "part2"}, true) }))
		}
		ts[g.Prefix+"layout"] = &Template{Name: g.Prefix + "layout", Body: lay}
	}
	aux := []string{g.Prefix + "part1", g.Prefix + "part2", g.Prefix + "layout", g.Prefix + "macros"}
	// inheritance chain base0 <- base1 <- base2 <- main
	levels := r.Intn(4) // number of ancestors
	{
		g.resetTemplate()
		if g.used == nil {
			g.used = map[string]bool{}
		}
		for _, bn := range []string{"b0", "b1", "b2", "b3"} {
			g.used[bn] = true // the layout's own blocks: no random block may take one of these names first
		}
		var body []Node
		body = append(body, g.text())
		for _, bn := range []string{"b0", "b1", "b2"} {
			blk := g.namedBlock(bn, func() []Node {
				inner := g.Nodes(2, 1+r.Intn(2), []string{g.Prefix + "part2"}, true)
				if bn == "b1" && r.Intn(2) == 0 {
					inner = append(inner, g.namedBlock("b3", func() []Node { return g.Nodes(1, 1, nil, true) }))
				}
				return inner
			})
			if bn == "b2" && r.Intn(2) == 0 {
				body = append(body, &NFor{Val: "li", Seq: &EGroup{X: &EBin{Op: "..", L: &ENum{Text: "1"}, R: &ENum{Text: "2"}}}, Body: []Node{blk}, ID: g.id("F")})
			} else {
				body = append(body, blk)
			}
			body = append(body, g.text())
		}
		ts[g.Prefix+"base0"] = &Template{Name: g.Prefix + "base0", Body: body}
	}
	parent := g.Prefix + "base0"
	for lv := 1; lv < levels; lv++ {
		name := g.Prefix + "base" + strconv.Itoa(lv)
		ts[name] = &Template{Name: name, Body: g.childBody(parent, aux)}
		parent = name
	}
	g.resetTemplate()
	var mainBody []Node
	if levels > 0 {
		mainBody = g.childBody(parent, aux)
	} else {
		// macros defined first so that _self calls can find them
		if r.Intn(2) == 0 {
			params := []string{"p", "q"}[:r.Intn(3)]
			saved := g.locals
			g.locals = append([]string{}, params...)
			restore := g.forbidBlocks()
			mb := g.Nodes(1, 1+r.Intn(2), nil, false)
			restore()
			g.locals = saved
			mainBody = append(mainBody, &NMacro{Name: "lm", Params: params, Body: mb, ID: g.id("M")})
			g.macros = append(g.macros, "lm")
		}
		mainBody = append(mainBody, g.Nodes(g.MaxDepth, 3+r.Intn(6), aux, false)...)
	}
	ts[g.Prefix+"main"] = &Template{Name: g.Prefix + "main", Body: mainBody}
	return ts, g.Prefix + "main"
}

// namedBlock builds a block with a fixed name, keeping the bookkeeping that
// prevents same-named nesting.
func (g *ProgGen) namedBlock(name string, body func() []Node) *NBlock {
	if g.used == nil {
		g.used = map[string]bool{}
	}
	g.used[name] = true
	g.open = append(g.open, name)
	saved := g.parentOK
	g.parentOK = g.inChild && len(g.open) == 1 && name != "b3" // b3 only exists in the root when b1 nests it
	b := &NBlock{Name: name, Body: body(), ID: g.id("B")}
	g.parentOK = saved
	g.open = g.open[:len(g.open)-1]
	return b
}

// childBody builds the body of a template that extends parent.
func (g *ProgGen) childBody(parent string, aux []string) []Node {
	r := g.R
	g.resetTemplate()
	g.inChild = true
	for _, bn := range []string{"b0", "b1", "b2", "b3"} {
		g.used[bn] = true // reserved for the explicit overrides below
	}
	var body []Node
	var ext Expr = &EStr{S: parent}
	if r.Intn(4) == 0 {
		ext = &EBin{Op: "~", L: &EStr{S: parent[:len(parent)-1]}, R: &EStr{S: parent[len(parent)-1:]}}
	}
	body = append(body, &NExtends{Tpl: ext, ID: g.id("X")})
	if r.Intn(3) == 0 {
		u := &NUse{Tpl: &EStr{S: g.Prefix + "blocks"}, ID: g.id("U")}
		if r.Intn(2) == 0 {
			u.Aliases = [][2]string{{"u0", "b2"}}
		}
		body = append(body, u)
	}
	if r.Intn(3) == 0 {
		body = append(body, g.text()) // ignored content outside blocks
	}
	for _, bn := range []string{"b0", "b1", "b2", "b3"} {
		switch r.Intn(3) {
		case 0:
			continue
		case 1:
			body = append(body, g.namedBlock(bn, func() []Node { return g.Nodes(2, 1+r.Intn(3), aux, true) }))
		default:
			body = append(body, g.namedBlock(bn, func() []Node {
				inner := g.Nodes(2, 1+r.Intn(2), aux, true)
				if g.Hostile || bn != "b3" {
					inner = append(inner, &NPrint{X: &EParent{}, ID: g.id("P")})
				}
				return append(inner, g.text())
			}))
		}
	}
	return body
}

// Describe is a helper for reports.
func DescribeTemplates(ts map[string]*Template) map[string]string {
	out := map[string]string{}
	for n, t := range ts {
		src, _ := Source(t, Canon{})
		out[n] = src
	}
	return out
}

var _ = fmt.Sprintf
