package props

import (
	"fmt"
	"math/rand"
	"strconv"
	"strings"

	"verifharness/fw"
	"verifharness/gen"
	"verifharness/mon"
)

// C03 — literal text, comments and verbatim sections are rendered faithfully.
type c03 struct {
	base
	n int
}

func init() { fw.Register("C03", func() fw.Property { return &c03{} }) }

func (p *c03) ID() string { return "C03" }

func (p *c03) Init(tier string, seed int64) {
	p.tier, p.seed = tier, seed
	poisonEvery = 1
	p.n = p.pick(20000, 600000)
}

func (p *c03) N() int { return p.n + len(c03Dup) }

// c03Dup: one template that defines a block name twice. Whether that is a template at all is for the parser to
// say (Twig refuses it); if it is, its text is emitted like any other text: once, in source order.
var c03Dup = [][2]string{
	{"A{% block a %}X{% endblock %}-{% block a %}Y{% endblock %}Z", "AX-YZ"},
	{"{% block a %}X{% endblock %}{% block a %}Y{% endblock %}", "XY"},
	{"A{% block a %}X{% block a %}Y{% endblock %}W{% endblock %}Z", "AXYWZ"},
	{"{% block a %}1{% endblock %}{% block b %}2{% endblock %}{% block a %}3{% endblock %}{% block b %}4{% endblock %}", "1234"},
	{"{% if true %}{% block a %}X{% endblock %}{% endif %}|{% for i in [1] %}{% block a %}Y{% endblock %}{% endfor %}", "X|Y"},
	{"{% block a %}X{% endblock %}{% set c %}{% block a %}Y{% endblock %}{% endset %}[{{ c }}]", "X[Y]"},
	{"{% block a %}X{% endblock %}\n{% block a %}{% endblock %}", "X\n"},
}

var c03Pieces = []string{
	"a", "Hello", " ", "  ", "\n", "\r\n", "\t", "é", "中文", "😀", "ß", "{", "}", "%", "#", "}}", "%}", "#}", "'", "\"", "<b>", "&amp;", "\\", "|", "-", "{ {", "} }", "% }", "{ %", "{ #",
	"x", "0", "endif", "if", "{\n{", "text with spaces", ".", "$", "\x7f", " ", "-}}", "-%}", "~", "`",
	// bytes that are no text to some: NUL, invalid and truncated UTF-8, a lone CR, escape, byte order marks, separators
	"\x00", "\x00\x00", "\xff", "\xfe\xff", "\xc3", "\xe2\x82", "\xed\xa0\x80", "\xc0\xaf", "\r", "\x1b[0m", "\ufeff", "\u2028", "\u0085", "\u200f", "e\u0301", "\x01", "\x1a", "\x0c",
}

// chunk builds a literal text chunk that contains no opening delimiter and does
// not end in '{' (a construct may follow).
func c03Chunk(r *rand.Rand, class *string) string {
	n := 1 + r.Intn(6)
	var b strings.Builder
	for i := 0; i < n; i++ {
		b.WriteString(c03Pieces[r.Intn(len(c03Pieces))])
	}
	s := noOpenDelim(b.String())
	if len(s) > 40 {
		// cut at a rune boundary
		cut := 40
		for cut > 0 && (s[cut]&0xC0) == 0x80 {
			cut--
		}
		s = noOpenDelim(s[:cut])
	}
	cls := "ascii"
	for _, c := range s {
		if c > 127 {
			cls = "utf8"
		}
	}
	if strings.ContainsAny(s, "{}%#") {
		cls += "+delimchars"
	}
	if strings.ContainsAny(s, "\n\r") {
		cls += "+nl"
	}
	*class = cls
	return s
}

// noOpenDelim breaks up every opening delimiter and makes sure the text does not
// end in '{' (which could merge with a following construct).
func noOpenDelim(s string) string {
	var b strings.Builder
	for i := 0; i < len(s); i++ {
		b.WriteByte(s[i])
		if s[i] == '{' && i+1 < len(s) && (s[i+1] == '{' || s[i+1] == '%' || s[i+1] == '#') {
			b.WriteByte(' ')
		}
	}
	s = b.String()
	if strings.HasSuffix(s, "{") {
		s += "."
	}
	return s
}

type c03gen struct {
	r      *rand.Rand
	seq    int
	sig    []string
	chunks int
	nested int // chunks separated by a construct inside a nested body
	macros []string
	// names of blocks whose definition is complete (block() on them cannot recurse)
	doneBlocks []string
	pre        []gen.Node // macro definitions hoisted to the top of the template
}

func (g *c03gen) id() string { g.seq++; return strconv.Itoa(g.seq) }

func (g *c03gen) text(path string) gen.Node {
	var cls string
	s := c03Chunk(g.r, &cls)
	g.chunks++
	g.sig = append(g.sig, path+":"+cls)
	return &gen.NText{S: s, ID: g.id()}
}

// c03KeywordVars are legal variable names that are also tag names.
var c03KeywordVars = []string{"verbatim", "endverbatim", "raw", "if", "endif", "for", "block", "endblock", "set", "macro", "include", "extends", "filter", "embed", "use", "import", "from", "do", "else"}

var c03Verbatims = []string{
	"{{ raw }}", "{% if x %}a{% endif %}", "{# not a comment #}", "{{ 'unclosed", "{%", "{{", "}} %} #}", "{% endverb %}", "{% for i in x %}{{ i }}{% endfor %}",
	"plain é 中", "", " ", "\n", "{{ \"q\" }}{% set a = 1 %}", "{%- if -%}", "{{- x -}}", "{% verbatim %}", "#{ }", "{{{{",
	// near misses of the end tag: only {% endverbatim %} itself, with optional blanks and trim markers, ends the body
	"{% endverbatims %}", "a{% endverbatim_x %}b", "{%endverbatim2%}", "{% end verbatim %}", "{% endverbatim", "{% endverbatim x %}", "{ % endverbatim %}", "{% endverbatim % }", "{% ENDVERBATIM %}",
	"{%endverbatimé%}", "{% endraw %}", "{% raw %}x{% endraw %}", "{%- endraw -%}", "{% endautoescape %}", "{% endblock %}{% endif %}{% endfor %}", "{{ endverbatim }}", "{% endverbatim -- %}", "{%~ endverbatim %}", "'{% endverbati' ~ 'm %}'", "{% xendverbatim %}", "{%\vendverbatim %}",
}

var c03Comments = []string{" c ", "", "\n multi\n line \n", " {{ x }} ", " {% if %} ", " # } ", " é 中 ", "-", " {# nested open ", " '\" ", " }} %} ",
	// bodies that end or begin in the characters the delimiters are made of (a comment ends at the first #} and nowhere else)
	"#", "##", "###", " x #", " y ##", "####", "{#", "#{", "}", "{", "%", "-#", "#-", " -", "--", "{{", "{%", "# #", "#\n#", "é#"}

func (g *c03gen) body(depth int, path string) []gen.Node {
	n := 1 + g.r.Intn(4)
	var out []gen.Node
	for i := 0; i < n; i++ {
		out = append(out, g.node(depth, path))
	}
	return out
}

func (g *c03gen) node(depth int, path string) gen.Node {
	r := g.r
	k := r.Intn(19)
	if depth <= 0 && k > 6 && k < 15 {
		k = r.Intn(7)
	}
	switch k {
	case 0, 1, 2:
		return g.text(path)
	case 15:
		// a variable that is called like a tag keyword is still just a variable (not read inside macro bodies:
		// what a macro body sees of the caller's variables is not part of any claim)
		if strings.Contains(path, "/macro") {
			return g.text(path)
		}
		kw := c03KeywordVars[r.Intn(len(c03KeywordVars))]
		switch r.Intn(4) {
		case 0:
			// ... also as the target or the source of an assignment, and as a condition: inside a tag
			return &gen.NIf{Conds: []gen.Expr{&gen.EBool{V: true}}, Bodies: [][]gen.Node{{&gen.NSet{Name: kw, X: &gen.EStr{S: "set-" + kw}, ID: g.id()}, g.text(path), &gen.NPrint{X: &gen.EName{Name: kw}, ID: g.id()}}}, ID: g.id()}
		case 1:
			name := "k" + g.id()
			return &gen.NIf{Conds: []gen.Expr{&gen.EName{Name: kw}}, Bodies: [][]gen.Node{{&gen.NSet{Name: name, X: &gen.EName{Name: kw}, ID: g.id()}, g.text(path), &gen.NPrint{X: &gen.EName{Name: name}, ID: g.id()}}}, ID: g.id()}
		}
		return &gen.NPrint{X: &gen.EName{Name: kw}, ID: g.id()}
	case 16:
		// an already complete block rendered again through block(): its text must come out again, byte for byte
		if len(g.doneBlocks) == 0 || strings.Contains(path, "/macro") {
			return g.text(path)
		}
		g.sig = append(g.sig, path+":blockfn")
		bf := &gen.EBlockFn{Name: &gen.EStr{S: g.doneBlocks[r.Intn(len(g.doneBlocks))]}}
		switch r.Intn(4) {
		case 0:
			// the text of the block as a value: assigned, with literal text between the assignment and the print
			name := "bv" + g.id()
			return &gen.NIf{Conds: []gen.Expr{&gen.EBool{V: true}}, Bodies: [][]gen.Node{{&gen.NSet{Name: name, X: bf, ID: g.id()}, g.text(path), &gen.NPrint{X: &gen.EName{Name: name}, ID: g.id()}}}, ID: g.id()}
		case 1:
			return &gen.NPrint{X: &gen.EBin{Op: "~", L: &gen.EBin{Op: "~", L: &gen.EStr{S: "<"}, R: bf}, R: &gen.EStr{S: ">"}}, ID: g.id()}
		}
		return &gen.NPrint{X: bf, ID: g.id()}
	case 3:
		lits := []gen.Expr{&gen.EStr{S: "lit"}, &gen.ENum{Text: "7"}, &gen.EStr{S: "é}"}, &gen.EStr{S: ""}, &gen.EBool{V: true}, &gen.ENull{}, &gen.EStr{S: "a b"}}
		return &gen.NPrint{X: lits[r.Intn(len(lits))], ID: g.id()}
	case 4:
		return &gen.NComment{S: c03Comments[r.Intn(len(c03Comments))]}
	case 5, 6:
		g.sig = append(g.sig, path+":verbatim")
		return &gen.NVerbatim{S: c03Verbatims[r.Intn(len(c03Verbatims))]}
	case 7, 8:
		n := &gen.NIf{ID: g.id()}
		nc := 1 + r.Intn(2)
		for i := 0; i < nc; i++ {
			n.Conds = append(n.Conds, &gen.EBool{V: r.Intn(2) == 0})
			n.Bodies = append(n.Bodies, g.body(depth-1, path+"/if"))
		}
		if r.Intn(2) == 0 {
			n.HasElse = true
			n.Else = g.body(depth-1, path+"/else")
		}
		return n
	case 9, 10:
		n := &gen.NFor{Val: "v" + g.id(), ID: g.id()}
		cnt := r.Intn(4)
		if r.Intn(2) == 0 {
			els := make([]gen.Expr, cnt)
			for i := range els {
				els[i] = &gen.ENum{Text: strconv.Itoa(i)}
			}
			n.Seq = &gen.EArr{Els: els}
		} else {
			n.Seq = &gen.EBin{Op: "..", L: &gen.ENum{Text: "1"}, R: &gen.ENum{Text: strconv.Itoa(1 + cnt)}}
		}
		n.Body = g.body(depth-1, path+"/for")
		if r.Intn(3) == 0 {
			n.HasElse = true
			n.Else = g.body(depth-1, path+"/forelse")
		}
		return n
	case 11:
		if strings.Contains(path, "/macro") {
			return g.text(path)
		}
		b := &gen.NBlock{Name: "b" + g.id(), Body: g.body(depth-1, path+"/block"), ID: g.id()}
		g.doneBlocks = append(g.doneBlocks, b.Name)
		return b
	case 12:
		name := "c" + g.id()
		// capture then print: the captured bytes must reappear exactly
		return &gen.NIf{Conds: []gen.Expr{&gen.EBool{V: true}}, Bodies: [][]gen.Node{{
			&gen.NSetCap{Name: name, Body: g.body(depth-1, path+"/set"), ID: g.id()},
			&gen.NPrint{X: &gen.EName{Name: name}, ID: g.id()},
		}}, ID: g.id()}
	case 13:
		fs := [][]string{{"b1"}, {"b1", "b2"}, {"ident"}, {"b3", "ident", "b1"}}
		return &gen.NFilter{Filters: fs[r.Intn(len(fs))], Body: g.body(depth-1, path+"/filter"), ID: g.id()}
	case 14:
		name := "m" + g.id()
		g.pre = append(g.pre, &gen.NMacro{Name: name, Body: g.body(depth-1, path+"/macro"), ID: g.id()})
		return &gen.NPrint{X: &gen.EMethod{X: &gen.EName{Name: "_self"}, Name: name}, ID: g.id()}
	case 17:
		// an embed: the text of its override comes out inside the layout's text; what stands in the embed body
		// outside the override - text, comments, a print - is source like any other and contributes nothing
		if strings.Contains(path, "/macro") || strings.Contains(path, "/block") || depth <= 0 {
			return g.text(path)
		}
		g.sig = append(g.sig, path+":embed")
		stray := []gen.Node{&gen.NComment{S: c03Comments[r.Intn(len(c03Comments))]}, &gen.NText{S: " stray ", ID: g.id()}, &gen.NComment{S: " second "}}
		if r.Intn(2) == 0 {
			stray = append(stray, &gen.NPrint{X: &gen.EStr{S: "stray-print"}, ID: g.id()})
		}
		ov := &gen.NBlock{Name: "eb", Body: g.body(depth-1, path+"/block"), ID: g.id()}
		return &gen.NEmbed{Tpl: &gen.EStr{S: "c03lay"}, Blocks: []*gen.NBlock{ov}, Stray: stray, ID: g.id()}
	default:
		return g.text(path)
	}
}

func (p *c03) build(i int) (*Program, *c03gen) {
	g := &c03gen{r: gen.Rng(p.seed, "c03", i)}
	var body []gen.Node
	if i%10 == 0 {
		// a template without delimiters renders to itself
		n := 1 + g.r.Intn(5)
		s := ""
		for k := 0; k < n; k++ {
			var cls string
			s += c03Chunk(g.r, &cls)
		}
		s = noOpenDelim(s)
		body = []gen.Node{&gen.NText{S: s, ID: "1"}}
		g.sig = append(g.sig, "plain")
	} else {
		body = g.body(1+g.r.Intn(4), "")
		body = append(g.pre, body...)
	}
	// a file may begin with what other tools take for data about the page (front matter between lines of dashes or
	// plus signs, a byte order mark, a shebang line, an XML declaration): to the template engine it is text
	heads := []string{"---\ntitle: T\nlayout: l\n---\n", "---\r\ntitle: T\r\n---\r\n", "--- \nx: 1\n--- \nrest ", "---\n---\n", "+++\nt = 1\n+++\n", "---\nonly one line of dashes\n", "\xef\xbb\xbf", "#!/usr/bin/env twig\n",
		"<?xml version=\"1.0\"?>\n", "---\n\n---\n\n---\n", ";;;\na\n;;;\n", "-----\nx\n-----\n"}
	head := ""
	if g.r.Intn(8) == 0 {
		head = heads[g.r.Intn(len(heads))]
		body = append([]gen.Node{&gen.NText{S: head, ID: "head"}}, body...)
		g.sig = append(g.sig, "head")
	}
	// the last byte of a template may be a lone '{' (nothing can merge with it there)
	if g.r.Intn(4) == 0 {
		tails := []string{"{", "end{", " {", "%{", "}{", "é{", "\n{", "{ {"}
		body = append(body, &gen.NText{S: tails[g.r.Intn(len(tails))], ID: "tail"})
		g.sig = append(g.sig, "tail-brace")
	}
	// merge adjacent text nodes: the parser sees one text run
	var merged []gen.Node
	for _, n := range body {
		merged = append(merged, n)
	}
	t := &gen.Template{Name: "main", Body: merged}
	ctx := map[string]interface{}{}
	for _, kw := range c03KeywordVars {
		ctx[kw] = "<" + kw + ">"
	}
	lay := &gen.Template{Name: "c03lay", Body: []gen.Node{&gen.NText{S: "LAY{ ", ID: "l1"}, &gen.NBlock{Name: "eb", Body: []gen.Node{&gen.NText{S: "lay-eb", ID: "l2"}}, ID: "l3"}, &gen.NText{S: " }%", ID: "l4"}}}
	// a template that is there and empty, included at the very end: it contributes nothing, and it is not missing
	t.Body = append(t.Body, &gen.NText{S: "|", ID: "c03tail"}, &gen.NInclude{Tpl: &gen.EStr{S: "c03empty"}})
	// ... and fragments made of text and comments only (a notice, a footer): their text is text, their comments are
	// comments, included or not
	var cls string
	frag := &gen.Template{Name: "c03frag", Body: []gen.Node{&gen.NText{S: noOpenDelim(c03Chunk(g.r, &cls)) + " ", ID: "f1"}, &gen.NComment{S: []string{" a note ", "", " TODO: x ", "\n two\n lines \n", " 50% off } "}[g.r.Intn(5)]},
		&gen.NText{S: " " + noOpenDelim(c03Chunk(g.r, &cls)), ID: "f2"}}}
	if g.r.Intn(3) == 0 {
		frag.Body = frag.Body[1:2] // nothing but a comment
	} else if head != "" {
		frag.Body = append([]gen.Node{&gen.NText{S: head, ID: "f0"}}, frag.Body...)
	}
	t.Body = append(t.Body, &gen.NText{S: "|", ID: "c03tail2"}, &gen.NInclude{Tpl: &gen.EStr{S: "c03frag"}}, &gen.NText{S: "|", ID: "c03tail3"})
	// ... and in a third of the programs the very last byte of the main template is a lone '{' again (the includes
	// above took that place from the tail chosen earlier), in some the fragment's too
	if g.r.Intn(3) == 0 {
		tails := []string{"{", "end{", " {", "%{", "}{", "é{", "\n{", "{ {"}
		t.Body = append(t.Body, &gen.NText{S: tails[g.r.Intn(len(tails))], ID: "tail2"})
		if len(frag.Body) > 1 && g.r.Intn(2) == 0 {
			frag.Body = append(frag.Body, &gen.NText{S: tails[g.r.Intn(len(tails))], ID: "f3"})
		}
	}
	return &Program{Templates: map[string]*gen.Template{"main": t, "c03lay": lay, "c03empty": {Name: "c03empty"}, "c03frag": frag}, Main: "main", Ctx: ctx}, g
}

func (p *c03) Describe(i int) interface{} {
	if i >= p.n {
		return map[string]interface{}{"template": c03Dup[i-p.n][0], "kind": "a block name defined twice in one template"}
	}
	prog, _ := p.build(i)
	d := prog.describe()
	pol := "canonical"
	if i%2 == 1 {
		pol = "tight (no blanks inside delimiters)"
		d["templates"] = prog.sources(gen.Tight{})
	}
	d["spelling"] = pol
	return d
}

func (p *c03) Run(i int) (res fw.Result) {
	if i >= p.n {
		d := c03Dup[i-p.n]
		env, _ := mon.NewCoreEnv(map[string]string{"main": d[0]})
		out, err, pan, _ := execNoPanic(env, "main", nil, 0)
		res.UniqueNT = 1
		res.AddClass("duplicate-block/" + okOrErr(err))
		if pan != nil {
			res.Fail("panic", "c03:dup:"+d[0], fmt.Sprintf("%q panicked: %v", d[0], pan), nil)
		} else if err == nil && out != d[1] {
			res.Fail("output", "c03:dup:"+d[0], fmt.Sprintf("%q is accepted and renders %q: its text in source order is %q", d[0], out, d[1]), nil)
		}
		return
	}
	prog, g := p.build(i)
	mod, _, inRegion, why := runModel(prog)
	if !inRegion {
		res.AddClass("out-of-region:" + why)
		return
	}
	var pol gen.Policy = gen.Canon{}
	switch {
	case i%8 == 3:
		pol = gen.Vast{}
	case i%8 == 5:
		pol = gen.Wide{}
	case i%2 == 1:
		pol = gen.Tight{}
	}
	lib := runLib(prog, pol, false)
	src := prog.sources(pol)["main"]
	compareRuns(&res, "c03:"+fmt.Sprintf("%q", src), prog, lib, mod, false)
	res.AddObs("exec_steps", lib.exSteps)
	res.AddObs("text_chunks", int64(g.chunks))
	res.AddObs("output_bytes", int64(len(lib.out)))
	res.AddClass(okOrErr(lib.err))
	nested := 0
	for _, s := range g.sig {
		if strings.Count(s, "/") >= 1 {
			nested++
		}
	}
	if nested >= 2 || (len(g.sig) > 0 && g.sig[0] == "plain") {
		res.Sigs = append(res.Sigs, strings.Join(g.sig, ","))
	}
	return
}

func (p *c03) Rule() string {
	return p.ruleBase() + " " + "Round 12: comment bodies made of the characters delimiters are made of (#, ##, ###, ' x #', {#, #{, }, {, %, -#, #-, --, {{, {%): a comment ends at the first #} and nowhere else."
}

func (p *c03) ruleBase() string {
	return "cases: seeded structure trees whose leaves are mostly literal chunks (ASCII, 2/3/4-byte UTF-8, LF/CRLF/TAB, lone { } % #, closing delimiters }} %} #} -}} , quotes, U+2028, DEL; never forming an opening delimiter; a lone { also as the very last byte of the template) interleaved with prints of literals, variables named like tag keywords (verbatim, endverbatim, if, block, ...) printed, assigned, assigned from and used as conditions, block() calls on completed blocks (printed, assigned, concatenated), comments (multi-line, containing {{ / {% / #), verbatim bodies (containing prints, tags, comments, unclosed quotes, lone delimiters, a nested verbatim opener) and nested inside if/elseif/else, for/else, block, set-capture (printed afterwards), filter sections (bracket filters) and macro bodies to depth 4; every 10th case is a delimiter-free text that must render to itself; odd cases are spelled without blanks inside delimiters ({%if x%}), even cases canonically. Oracle: byte-exact equality with the reference model's output. Plus 7 templates that define a block name twice: refused, or rendered with every text run once and in order. Non-trivial = >=2 chunks inside nested bodies (or a delimiter-free text); distinct = construct path and alphabet class of every chunk."
}

func (p *c03) Assumptions() []string {
	return []string{"dynamic parts are trivial (literals, constant conditions, literal sequences) so that only text routing is under test",
		"invalid UTF-8 in text is exercised by C01 only (the claim lists valid multi-byte text)"}
}

func (p *c03) Floors(tier string) map[string]int64 {
	return map[string]int64{"text_chunks": 10000, "distinct_nontrivial": 1000}
}
