package props

import (
	"fmt"
	"reflect"
	"strconv"
	"strings"

	"github.com/tyler-sommer/stick/parse"

	"verifharness/fw"
	"verifharness/gen"
)

// C04 — operator precedence and associativity follow the operator table.
//
// The table below is a pinned copy of the documented operator table. It is pinned
// on purpose: an edit of parse/operator.go that changes grouping is a regression
// this check must see, not a new specification.
type c04op struct {
	op    string
	prec  int
	right bool
}

var c04Bin = []c04op{
	{"or", 10, false}, {"and", 15, false}, {"b-or", 16, false}, {"b-xor", 17, false}, {"b-and", 18, false},
	{"==", 20, false}, {"!=", 20, false}, {"<", 20, false}, {"<=", 20, false}, {">", 20, false}, {">=", 20, false},
	{"not in", 20, false}, {"in", 20, false}, {"matches", 20, false}, {"starts with", 20, false}, {"ends with", 20, false}, {"..", 20, false},
	{"+", 30, false}, {"-", 30, false}, {"~", 40, false}, {"*", 60, false}, {"/", 60, false}, {"//", 60, false}, {"%", 60, false},
	{"is", 100, false}, {"is not", 100, false}, {"**", 200, true},
}

var c04Un = map[string]int{"not": 50, "-": 500, "+": 500}

type c04 struct {
	base
	nOps   int
	levels []int // number of cases per k
	offs   []int
	nDecor int
	nRand  int
}

func init() { fw.Register("C04", func() fw.Property { return &c04{} }) }

func (p *c04) ID() string       { return "C04" }
func (p *c04) Exhaustive() bool { return true }

// decorations applied to every exhaustive chain
const (
	decoPlain = iota
	decoUnary0
	decoUnary1
	decoUnaryLast
	decoNotFirst
	decoTrailingCond
	decoInnerCond
	decoCondBranches
	decoRichOperands
	decoCondTrueBranch
	decoStackedPrefix
	decoInContext
	decoLiteralOperands
	decoCount
)

func (p *c04) Init(tier string, seed int64) {
	p.tier, p.seed = tier, seed
	p.nOps = len(c04Bin)
	maxK := p.pick(2, 4)
	tot := 0
	for k := 1; k <= maxK; k++ {
		p.offs = append(p.offs, tot)
		n := gen.Pow(p.nOps, k)
		if k == 4 {
			n = gen.Pow(p.nOps, 4) // 531441 chains
		}
		p.levels = append(p.levels, n)
		tot += n * decoCount
	}
	p.nDecor = tot
	p.nRand = p.pick(5000, 150000)
}

func (p *c04) N() int { return p.nDecor + p.nRand }

// chain is a flat operator sequence.
type c04chain struct {
	ops      []string   // len k
	operands []gen.Expr // len k+1; for "is"/"is not" the right operand is a *gen.ETest carrying only the test
	prefix   []string   // len k+1, "" for none
	cond     int        // 0 none, 1 trailing conditional, 2 conditional in branches
	inner    int        // operand index replaced by a parenthesised conditional, -1 none
	ctx      int        // 0 at the top of the print; else the whole expression stands inside another construct (c04Contexts)
}

func (p *c04) chainAt(i int) *c04chain {
	c := &c04chain{inner: -1}
	if i < p.nDecor {
		k := 0
		for k+1 < len(p.offs) && p.offs[k+1] <= i {
			k++
		}
		j := i - p.offs[k]
		deco := j % decoCount
		idx := j / decoCount
		chainNo := idx
		n := k + 1
		for x := 0; x < n; x++ {
			c.ops = append(c.ops, c04Bin[idx%p.nOps].op)
			idx /= p.nOps
		}
		c.fill(nil)
		un := []string{"-", "not", "+"}
		// which variant of a decoration a chain gets is decided by the chain's number (not by the case index, whose
		// residues repeat with the number of decorations)
		v := chainNo*7 + deco
		switch deco {
		case decoUnary0, decoUnary1, decoUnaryLast:
			pos := map[int]int{decoUnary0: 0, decoUnary1: 1, decoUnaryLast: n}[deco]
			c.setPrefix(pos, un[v%3])
			if (v/3)%2 == 1 && c.prefix[pos] != "" {
				c.enrich(pos, 9) // the operand of the prefix operator in parentheses
			}
		case decoNotFirst:
			c.setPrefix(0, "not")
			c.setPrefix(n, "-")
		case decoTrailingCond:
			c.cond = 1
		case decoInnerCond:
			c.inner = v % (n + 1)
		case decoCondBranches:
			c.cond = 2
		case decoCondTrueBranch:
			c.cond = 3
		case decoStackedPrefix:
			st := []string{"not -", "- -", "not not", "- not", "+ -", "not - -"}
			c.setPrefix(0, st[v%len(st)])
			c.setPrefix(n, st[(v/7)%len(st)])
			if n >= 2 {
				c.setPrefix(1, st[(v/3)%len(st)])
			}
		case decoInContext:
			// the chain, with and without a trailing conditional, as a subscript, an argument, an element ...
			c.cond = chainNo % 2
			c.ctx = 1 + (chainNo/2)%len(c04Contexts)
		case decoRichOperands:
			for x := 0; x <= n; x++ {
				c.enrich(x, chainNo+x)
			}
		case decoLiteralOperands:
			// every operand a literal of the same kind - all strings, all numbers, or strings and numbers in turn:
			// whatever a parser computes ahead of time for literals, it computes it for the grouping the table gives
			for x := 0; x <= n; x++ {
				switch chainNo % 3 {
				case 0:
					c.enrich(x, 7)
				case 1:
					c.enrich(x, 8)
				default:
					c.enrich(x, 7+(x+chainNo/3)%2)
				}
			}
		}
		return c
	}
	if j := i - p.nDecor; j < len(c04LongLens)*len(c04LongOps) {
		// long chains ("all operator sequences"): hundreds of operators of one or two precedence levels, whose
		// parenthesised form nests as deep as the chain is long
		n, ops := c04LongLens[j/len(c04LongOps)], c04LongOps[j%len(c04LongOps)]
		for x := 0; x < n; x++ {
			c.ops = append(c.ops, ops[(x*x+x/3)%len(ops)])
		}
		c.fill(nil)
		for x := range c.operands {
			if _, isName := c.operands[x].(*gen.EName); isName {
				c.operands[x] = &gen.EName{Name: c04name(x % 14)}
			}
		}
		return c
	}
	r := gen.Rng(p.seed, "c04", i)
	n := 5 + r.Intn(8)
	for x := 0; x < n; x++ {
		c.ops = append(c.ops, c04Bin[r.Intn(p.nOps)].op)
	}
	c.fill(r.Intn)
	un := []string{"-", "not", "+"}
	for x := 0; x <= n; x++ {
		if r.Intn(4) == 0 {
			c.setPrefix(x, un[r.Intn(3)])
		} else if r.Intn(12) == 0 {
			c.setPrefix(x, []string{"not -", "- -", "not not", "- not", "+ -"}[r.Intn(5)])
		}
	}
	c.cond = r.Intn(4)
	if r.Intn(3) == 0 {
		c.inner = r.Intn(n + 1)
	}
	if r.Intn(4) == 0 {
		c.ctx = 1 + r.Intn(len(c04Contexts))
	}
	for x := 0; x <= n; x++ {
		if r.Intn(3) == 0 {
			c.enrich(x, r.Intn(64))
		}
	}
	return c
}

// enrich replaces a plain name operand by another primary form built on the same name (an operand is whatever
// the grammar accepts as a primary expression, and grouping must not depend on which one it is).
func (c *c04chain) enrich(i, form int) {
	nm, ok := c.operands[i].(*gen.EName)
	if !ok {
		return
	}
	switch form % 10 {
	case 9:
		c.operands[i] = &gen.EGroup{X: nm} // (v): written without a blank after a prefix operator it looks like a call
	case 8:
		c.operands[i] = &gen.ENum{Text: strconv.Itoa(11 + i)} // a number literal (self-identifying: 11, 12, ...)
	case 0:
		c.operands[i] = &gen.EInterp{Parts: []gen.Expr{&gen.EStr{S: "s"}, nm}} // "s#{v}": ends in an interpolation
	case 1:
		c.operands[i] = &gen.EInterp{Parts: []gen.Expr{nm}}
	case 2:
		c.operands[i] = &gen.EInterp{Parts: []gen.Expr{nm, &gen.EStr{S: "t"}}}
	case 3:
		c.operands[i] = &gen.ECall{Fn: "ident", Args: []gen.Expr{nm}}
	case 4:
		c.operands[i] = &gen.EFilter{X: nm, Name: "ident"}
	case 5:
		c.operands[i] = &gen.EAttr{X: &gen.EArr{Els: []gen.Expr{nm}}, Key: &gen.ENum{Text: "0"}}
	case 6:
		c.operands[i] = &gen.EAttr{X: &gen.EHash{Keys: []gen.Expr{&gen.EStr{S: "k"}}, Vals: []gen.Expr{nm}}, Key: &gen.EStr{S: "k"}, Dot: true}
	default:
		c.operands[i] = &gen.EStr{S: "lit" + nm.Name}
	}
}

func (c *c04chain) setPrefix(pos int, u string) {
	if pos > 0 && strings.HasPrefix(c.ops[pos-1], "is") {
		return // the right operand of a test is a test name
	}
	c.prefix[pos] = u
}

// fill chooses operand atoms: self-identifying names, with the forms some operators need.
func (c *c04chain) fill(intn func(int) int) {
	n := len(c.ops)
	c.operands = make([]gen.Expr, n+1)
	c.prefix = make([]string, n+1)
	for i := 0; i <= n; i++ {
		c.operands[i] = &gen.EName{Name: c04name(i)}
	}
	for i, op := range c.ops {
		alt := i%2 == 0
		if intn != nil {
			alt = intn(2) == 0
		}
		switch op {
		case "is", "is not":
			third := i%3 == 2
			if intn != nil {
				third = intn(3) == 0
			}
			if third {
				// a test of two words that takes no argument: what follows it is no part of it
				c.operands[i+1] = &gen.ETest{Test: "whole number"}
			} else if alt {
				c.operands[i+1] = &gen.ETest{Test: "pos"}
			} else {
				c.operands[i+1] = &gen.ETest{Test: "eq", Args: []gen.Expr{&gen.ENum{Text: "2"}}}
			}
		case "in", "not in":
			if alt {
				c.operands[i+1] = &gen.EArr{Els: []gen.Expr{&gen.ENum{Text: "1"}, &gen.EName{Name: c04name(i + 1)}, &gen.EStr{S: "a"}}}
			}
		case "matches":
			if alt {
				c.operands[i+1] = &gen.EStr{S: "^[0-9a-z]"}
			}
		}
	}
}

// flat builds a left-nested tree, which spells as the flat operator sequence.
func (c *c04chain) operand(i int) gen.Expr {
	o := c.operands[i]
	if c.inner == i {
		if _, isTest := o.(*gen.ETest); !isTest {
			o = &gen.EGroup{X: &gen.ETern{C: o, A: &gen.EName{Name: "v0"}, B: &gen.ENum{Text: "7"}}}
		}
	}
	return o
}

func (c *c04chain) flat() gen.Expr {
	var e gen.Expr = c.withPrefix(0)
	for i, op := range c.ops {
		if t, ok := c.operands[i+1].(*gen.ETest); ok {
			e = &gen.ETest{X: e, Not: op == "is not", Test: t.Test, Args: t.Args}
			continue
		}
		e = &gen.EBin{Op: op, L: e, R: c.withPrefix(i + 1)}
	}
	return c.wrapCond(e, func(x gen.Expr) gen.Expr { return x })
}

func (c *c04chain) withPrefix(i int) gen.Expr {
	if c.prefix[i] != "" {
		// "not -" is two stacked prefix operators: not (- operand)
		ops := strings.Fields(c.prefix[i])
		e := c.operand(i)
		for k := len(ops) - 1; k >= 0; k-- {
			e = &gen.EUn{Op: ops[k], X: e}
		}
		return e
	}
	return c.operand(i)
}

func (c *c04chain) wrapCond(e gen.Expr, g func(gen.Expr) gen.Expr) gen.Expr {
	switch c.cond {
	case 1:
		return &gen.ETern{C: e, A: &gen.EStr{S: "<T>"}, B: &gen.EStr{S: "<F&>"}}
	case 2:
		// c ? chain : (c2 ? a : chain) — right-nested conditionals with the chain in the branches
		inner := &gen.ETern{C: &gen.EName{Name: c04name(1)}, A: &gen.EStr{S: "<M>"}, B: e}
		var innerE gen.Expr = inner
		return &gen.ETern{C: &gen.EName{Name: "v0"}, A: e, B: g(innerE)}
	case 3:
		// c ? (c2 ? a : chain) : chain — a conditional nested in the TRUE branch, written without parentheses
		inner := &gen.ETern{C: &gen.EName{Name: c04name(1)}, A: &gen.EStr{S: "<M>"}, B: e}
		return &gen.ETern{C: &gen.EName{Name: "v0"}, A: g(inner), B: e}
	}
	return e
}

// ref builds the reference grouping by precedence climbing over the pinned table.
type c04parser struct {
	c   *c04chain
	pos int // next operator index
	opd int // next operand index
}

func c04prec(op string) c04op {
	for _, o := range c04Bin {
		if o.op == op {
			return o
		}
	}
	panic("unknown op " + op)
}

func (ps *c04parser) expr(minPrec int) gen.Expr {
	lhs := ps.primary()
	for ps.pos < len(ps.c.ops) {
		o := c04prec(ps.c.ops[ps.pos])
		if o.prec < minPrec {
			break
		}
		ps.pos++
		if o.op == "is" || o.op == "is not" {
			t := ps.c.operands[ps.opd].(*gen.ETest)
			ps.opd++
			lhs = &gen.ETest{X: lhs, Not: o.op == "is not", Test: t.Test, Args: t.Args}
			continue
		}
		next := o.prec + 1
		if o.right {
			next = o.prec
		}
		rhs := ps.expr(next)
		lhs = &gen.EBin{Op: o.op, L: lhs, R: rhs}
	}
	return lhs
}

func (ps *c04parser) primary() gen.Expr {
	i := ps.opd
	ps.opd++
	atom := ps.c.operand(i)
	if all := ps.c.prefix[i]; all != "" {
		// the (outermost) unary operator takes the operand delimited by its own precedence; further prefix
		// operators stacked behind it are met again when that operand is parsed
		ops := strings.Fields(all)
		u := ops[0]
		ps.c.prefix[i] = strings.Join(ops[1:], " ")
		ps.opd--
		x := ps.expr(c04Un[u])
		ps.c.prefix[i] = all
		return &gen.EUn{Op: u, X: x}
	}
	return atom
}

func (c *c04chain) ref() gen.Expr {
	ps := &c04parser{c: c}
	e := ps.expr(0)
	return c.wrapCond(e, func(x gen.Expr) gen.Expr { return x })
}

// c04Contexts: places that take a whole expression. Grouping inside them is the same as at the top of a print.
var c04Contexts = []func(e gen.Expr) gen.Expr{
	func(e gen.Expr) gen.Expr { return &gen.EAttr{X: &gen.EName{Name: "wv"}, Key: e} }, // wv[E]
	func(e gen.Expr) gen.Expr { return &gen.ECall{Fn: "ident", Args: []gen.Expr{e}} },  // ident(E)
	func(e gen.Expr) gen.Expr {
		return &gen.ECall{Fn: "fn", Args: []gen.Expr{&gen.ENum{Text: "1"}, e, &gen.ENum{Text: "2"}}}
	}, // fn(1, E, 2)
	func(e gen.Expr) gen.Expr {
		return &gen.EFilter{X: &gen.EName{Name: "wv"}, Name: "ident", Args: []gen.Expr{e}}
	}, // wv|ident(E)
	func(e gen.Expr) gen.Expr { return &gen.EArr{Els: []gen.Expr{e, &gen.ENum{Text: "1"}}} }, // [E, 1]
	func(e gen.Expr) gen.Expr {
		return &gen.EAttr{X: &gen.EGroup{X: &gen.EHash{Keys: []gen.Expr{&gen.EStr{S: "k"}}, Vals: []gen.Expr{e}}}, Key: &gen.EStr{S: "k"}, Dot: true}
	}, // ({'k': E}).k
	func(e gen.Expr) gen.Expr {
		return &gen.EInterp{Parts: []gen.Expr{&gen.EStr{S: "i:"}, e, &gen.EStr{S: "."}}}
	}, // "i:#{E}."
	func(e gen.Expr) gen.Expr { return &gen.ETest{X: &gen.ENum{Text: "2"}, Test: "eq", Args: []gen.Expr{e}} }, // 2 is eq(E)
	func(e gen.Expr) gen.Expr {
		return &gen.EMethod{X: &gen.EName{Name: "wv"}, Name: "m", Args: []gen.Expr{e}}
	}, // wv.m(E)
	func(e gen.Expr) gen.Expr {
		return &gen.EAttr{X: &gen.EGroup{X: &gen.EHash{Keys: []gen.Expr{&gen.EGroup{X: e}}, Vals: []gen.Expr{&gen.ENum{Text: "1"}}}}, Key: &gen.EStr{S: "k"}, Dot: true}
	}, // ({(E): 1}).k
	func(e gen.Expr) gen.Expr {
		if _, bare := e.(*gen.EName); bare {
			e = &gen.EGroup{X: e} // (a bare name as a key is the string of that name)
		}
		return &gen.EAttr{X: &gen.EGroup{X: &gen.EHash{Keys: []gen.Expr{&gen.EStr{S: "a"}, e}, Vals: []gen.Expr{&gen.ENum{Text: "0"}, &gen.ENum{Text: "1"}}}}, Key: &gen.EStr{S: "k"}, Dot: true}
	}, // ({'a': 0, E: 1}).k - a computed key needs no parentheses here: the key is a whole expression, it ends at the colon
}

func (c *c04chain) inContext(e gen.Expr, reference bool) gen.Expr {
	if c.ctx == 0 {
		return e
	}
	if reference {
		e = &gen.EGroup{X: e} // the reference grouping is delimited explicitly
	}
	return c04Contexts[c.ctx-1](e)
}

func (c *c04chain) sig() string {
	var b strings.Builder
	for i, op := range c.ops {
		b.WriteString(c.prefix[i])
		b.WriteString("·" + op + "·")
	}
	b.WriteString(c.prefix[len(c.ops)])
	fmt.Fprintf(&b, "|c%d|i%d|x%d", c.cond, c.inner, c.ctx)
	return b.String()
}

// astShape prints a parsed expression with GroupExpr erased.
func astShape(n parse.Node) string {
	if n == nil || (reflect.ValueOf(n).Kind() == reflect.Ptr && reflect.ValueOf(n).IsNil()) {
		return "nil"
	}
	switch x := n.(type) {
	case *parse.GroupExpr:
		return astShape(x.X)
	case *parse.BinaryExpr:
		return "(" + astShape(x.Left) + " " + x.Op + " " + astShape(x.Right) + ")"
	case *parse.UnaryExpr:
		return "(" + x.Op + " " + astShape(x.X) + ")"
	case *parse.TernaryIfExpr:
		return "(" + astShape(x.Cond) + " ? " + astShape(x.TrueX) + " : " + astShape(x.FalseX) + ")"
	case *parse.TestExpr:
		parts := []string{}
		for _, a := range x.Args {
			parts = append(parts, astShape(a))
		}
		return "test:" + x.Name + "(" + strings.Join(parts, ",") + ")"
	case *parse.FuncExpr:
		parts := []string{}
		for _, a := range x.Args {
			parts = append(parts, astShape(a))
		}
		return "fn:" + x.Name + "(" + strings.Join(parts, ",") + ")"
	case *parse.ArrayExpr:
		parts := []string{}
		for _, a := range x.Elements {
			parts = append(parts, astShape(a))
		}
		return "[" + strings.Join(parts, ",") + "]"
	case *parse.FilterExpr:
		parts := []string{}
		for _, a := range x.Args {
			parts = append(parts, astShape(a))
		}
		return "filter:" + x.Name + "(" + strings.Join(parts, ",") + ")"
	case *parse.GetAttrExpr:
		parts := []string{}
		for _, a := range x.Args {
			parts = append(parts, astShape(a))
		}
		return "attr(" + astShape(x.Cont) + " -> " + astShape(x.Attr) + ")(" + strings.Join(parts, ",") + ")"
	case *parse.HashExpr:
		parts := []string{}
		for _, kv := range x.Elements {
			parts = append(parts, astShape(kv.Key)+": "+astShape(kv.Value))
		}
		return "{" + strings.Join(parts, ",") + "}"
	case *parse.PrintNode:
		return astShape(x.X)
	case *parse.ModuleNode:
		parts := []string{}
		for _, a := range x.Nodes {
			parts = append(parts, astShape(a))
		}
		return strings.Join(parts, ";")
	}
	return n.String()
}

// c04LongLens x c04LongOps: the long chains at the head of the random cases.
var (
	c04LongLens = []int{40, 150, 250, 600, 1500}
	c04LongOps  = [][]string{{"-"}, {"-", "+"}, {"*", "-"}, {"**"}, {"~"}, {"or", "and"}, {"//", "%", "*"}, {"==", "-", "b-or"}, {"b-and", "b-xor", "+"}, {"<", "-", "is"}}
)

var c04Valuations = []map[string]interface{}{
	{"v0": 1, "v1": 2, "v2": 3, "v3": 4, "v4": 5, "v5": 2, "v6": 1, "v7": 3, "v8": 2, "v9": 1, "v10": 2, "v11": 3, "v12": 1, "v13": 2},
	{"v0": "2", "v1": 3, "v2": "1", "v3": 2.5, "v4": "a", "v5": 0, "v6": "3", "v7": 1, "v8": "b", "v9": 2, "v10": "12", "v11": 1, "v12": "x", "v13": 0},
	{"v0": true, "v1": nil, "v2": false, "v3": 2, "v4": true, "v5": "", "v6": 0, "v7": nil, "v8": 1, "v9": false, "v10": true, "v11": 3, "v12": nil, "v13": 2},
	// floats whose sums and products depend on the order in which they are formed: (0.1 + 0.2) + 0.3 is not 0.1 + (0.2 + 0.3)
	{"v0": 0.1, "v1": 0.2, "v2": 0.3, "v3": 1e16, "v4": -1e16, "v5": 1.5, "v6": 0.7, "v7": 1e-3, "v8": 3.3, "v9": 0.1, "v10": 2.2, "v11": 1e15, "v12": 0.3, "v13": 7.7},
}

// c04name: every other operand is a name that begins with an operator word (index, order, isle, nota, andy ...):
// where a word operator ends and a name begins must not depend on what the name looks like.
func c04name(i int) string {
	if i%2 == 1 {
		return []string{"index", "order", "isle", "nota", "andy", "matchesx", "bandit"}[(i/2)%7] + strconv.Itoa(i)
	}
	return "v" + strconv.Itoa(i)
}

func (p *c04) exprProgram(e gen.Expr, val int) *Program {
	t := &gen.Template{Name: "main", Body: []gen.Node{&gen.NText{S: "<"}, &gen.NPrint{X: e}, &gen.NText{S: ">"}}}
	ctx := map[string]interface{}{}
	for k, v := range c04Valuations[val] {
		i, _ := strconv.Atoi(k[1:])
		ctx[c04name(i)] = v
	}
	return &Program{Templates: map[string]*gen.Template{"main": t}, Main: "main", Ctx: ctx}
}

func (p *c04) Describe(i int) interface{} {
	c := p.chainAt(i)
	return map[string]interface{}{"flat": "{{ " + gen.ExprSource(c.inContext(c.flat(), false)) + " }}", "reference_grouping": "{{ " + gen.ExprSource(c.inContext(gen.FullParen(c.ref()), true)) + " }}"}
}

func (p *c04) Run(i int) (res fw.Result) {
	c := p.chainAt(i)
	flat := c.inContext(c.flat(), false)
	ref := c.inContext(gen.FullParen(c.ref()), true)
	flatSrc := "{{ " + gen.ExprSource(flat) + " }}"
	refSrc := "{{ " + gen.ExprSource(ref) + " }}"
	key := "c04:" + flatSrc
	// (1) AST shape
	res.Evals = 2
	tf, ef := parse.Parse(flatSrc)
	tr, er := parse.Parse(refSrc)
	if er != nil {
		res.Fail("paren-parse", key, fmt.Sprintf("the fully parenthesised form %s does not parse: %v", refSrc, er), nil)
		return
	}
	if ef != nil {
		res.Fail("flat-parse", key, fmt.Sprintf("%s does not parse (%v) although its parenthesised form %s does", flatSrc, ef, refSrc), nil)
		return
	}
	sf, sr := astShape(tf.Root()), astShape(tr.Root())
	if sf != sr {
		res.Fail("grouping", key, fmt.Sprintf("%s parses as %s; the operator table groups it as %s (%s)", flatSrc, sf, sr, refSrc), nil)
	}
	// the grouping is a matter of the operators, not of how the tokens are laid out: without any blank that can
	// be left out (not(a) * b), and with line breaks everywhere
	for _, pol := range []gen.Policy{gen.Tight{}, gen.Wide{}} {
		src := "{{ " + gen.ExprSourceWith(flat, pol) + " }}" // (the blanks at the delimiters stay: {{- is a trim marker)
		res.Evals++
		tp, ep := parse.Parse(src)
		if ep != nil {
			res.Fail("flat-parse", key, fmt.Sprintf("%q does not parse (%v) although %s does", src, ep, flatSrc), nil)
		} else if sp := astShape(tp.Root()); sp != sr {
			res.Fail("grouping", key, fmt.Sprintf("%q parses as %s; the operator table groups it as %s (%s)", src, sp, sr, refSrc), nil)
		}
	}
	// (2) rendering under valuations
	k := len(c.ops)
	if k <= 3 || i%20 == 0 || i >= p.nDecor {
		for v := range c04Valuations {
			a := runLib(p.exprProgram(flat, v), gen.Canon{}, false)
			b := runLib(p.exprProgram(ref, v), gen.Canon{}, false)
			res.Evals += 2
			res.AddObs("renders", 2)
			if a.pan != nil || b.pan != nil {
				res.AddObs("render_panics_ignored_here", 1) // totality of execution is C02's business
				continue
			}
			if a.out != b.out || errKind(a.err) != errKind(b.err) {
				res.Fail("render", key+fmt.Sprintf("#v%d", v), fmt.Sprintf("valuation %d: %s renders %q (err %v) but %s renders %q (err %v)", v, flatSrc, a.out, a.err, refSrc, b.out, b.err), nil)
			}
		}
	}
	// ... and in an environment of the Twig package, where whatever is printed goes through the escaper first:
	// parentheses that restate the grouping change nothing there either
	if k <= 3 || i%20 == 0 || i >= p.nDecor {
		a := runLib(p.exprProgram(flat, 1), gen.Canon{}, true)
		b := runLib(p.exprProgram(ref, 1), gen.Canon{}, true)
		res.Evals += 2
		res.AddObs("renders_escaped", 2)
		if a.pan == nil && b.pan == nil && (a.out != b.out || errKind(a.err) != errKind(b.err)) {
			res.Fail("render", key+"#twig", fmt.Sprintf("Twig environment, valuation 1: %s renders %q (err %v) but %s renders %q (err %v)", flatSrc, a.out, a.err, refSrc, b.out, b.err), nil)
		}
	}
	// non-trivial: precedence matters (the reference differs from pure left and pure right nesting)
	if k >= 2 {
		res.Sigs = append(res.Sigs, c.sig())
	}
	res.AddClass(fmt.Sprintf("k=%d", k))
	return
}

func (p *c04) Rule() string {
	return p.ruleBase() + " " + "Round 12: the first 50 random cases are long chains - 40, 150, 250, 600 and 1500 operators of one to three operators of the same or of different precedence (-, +, *, **, ~, or/and, // % *, == - b-or, b-and b-xor +, < - is) - whose parenthesised form nests as deep as the chain is long."
}

func (p *c04) ruleBase() string {
	return "exhaustive: every chain of k binary operators (all 27, incl. is / is not with a test as right operand) over self-identifying operands for k<=2 (quick) / k<=4 (thorough: 27+729+19683+531441 chains), each in 12 decorations (plain; operands that are not plain names: interpolated strings ending / starting / consisting of an interpolation, calls, filters, subscripts of array and hash literals, string literals; unary -,+,not on the first / second / last operand; not on the first plus - on the last; trailing conditional; a parenthesised conditional as an operand; right-nested conditionals with the chain in the branches; a conditional nested in the true branch; stacked prefix operators (not -, - -, not not, - not, + -) on first, second and last operand; the whole chain, with and without a trailing conditional, inside a subscript / call / filter / method / test argument list / array / hash value / computed hash key / interpolation); operands may also be number literals; every other operand name begins with an operator word (index1, order3, isle5, nota7, andy9 ...); plus seeded random chains of 5..12 operators with random prefixes and conditionals. Oracle: reference precedence climbing over a pinned copy of the operator table yields the fully parenthesised form; the flat and the parenthesised spelling must parse to the same tree (GroupExpr erased) and render identically (output and error kind) under 4 valuations (integers; strings and numbers; booleans and null; floats whose sums depend on the order of addition) (all chains k<=3, every 20th k=4 chain, all random chains). Non-trivial = k>=2; distinct = operator sequence + decoration."
}

func (p *c04) Assumptions() []string {
	return []string{"the pinned table is the documented one (27 binary operators, unary not=50, -/+=500, ** right associative, conditional loosest and right-nested)",
		"panics while rendering are ignored here (C02 decides totality); grouping is still decided by the tree comparison"}
}

func (p *c04) Floors(tier string) map[string]int64 {
	return map[string]int64{"renders": 1000, "distinct_nontrivial": 1000}
}
