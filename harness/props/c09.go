package props

import (
	"fmt"
	"strconv"
	"strings"

	"github.com/tyler-sommer/stick"

	"verifharness/fw"
	"verifharness/gen"
	"verifharness/model"
	"verifharness/mon"
)

// C09 — template inheritance resolves every block to its most-derived override.
type c09 struct {
	base
	groups []c09group
	offs   []int
	nEnum  int
	nRand  int
}

type c09group struct {
	L, B   int
	layout int // 0 flat, 1 nested, 2 block in a loop
	use    int // 0 none, 1 plain, 2 aliased, 3 aliased at level 1 and plain at the leaf, 4 two use statements in one template, 5 a chain of aliases in one statement
	n      int
}

func init() { fw.Register("C09", func() fw.Property { return &c09{} }) }

func (p *c09) ID() string       { return "C09" }
func (p *c09) Exhaustive() bool { return true }

func (p *c09) Init(tier string, seed int64) {
	p.tier, p.seed = tier, seed
	add := func(L, B, layout, use int) {
		n := gen.Pow(3, (L-1)*B)
		p.groups = append(p.groups, c09group{L, B, layout, use, n})
		p.offs = append(p.offs, p.nEnum)
		p.nEnum += n
	}
	if !p.thorough() {
		for L := 1; L <= 3; L++ {
			for B := 1; B <= 2; B++ {
				for layout := 0; layout < 3; layout++ {
					for use := 0; use < 6; use++ {
						if (L == 1 && use > 0) || (L < 3 && use == 3) || (B < 2 && use == 4) {
							continue
						}
						add(L, B, layout, use)
					}
				}
			}
		}
	} else {
		for L := 1; L <= 4; L++ {
			for B := 1; B <= 4; B++ {
				add(L, B, 0, 0)
			}
		}
		for L := 1; L <= 4; L++ {
			for B := 1; B <= 3; B++ {
				for layout := 0; layout < 3; layout++ {
					for use := 0; use < 6; use++ {
						if (layout == 0 && use == 0) || (L == 1 && use > 0) || (L < 3 && use == 3) || (B < 2 && use == 4) {
							continue
						}
						add(L, B, layout, use)
					}
				}
			}
		}
	}
	p.nRand = p.pick(5000, 100000)
}

func (p *c09) N() int { return p.nEnum + p.nRand + len(c09Long) + c09nSelf + len(c09NameCarriers()) }

// c09Long: chains of many templates ("of any length"): every level overrides the block and calls parent(), every
// tenth level leaves it alone, every seventh names its parent by an expression.
var c09Long = []int{40, 300, 1000}

func c09LongChain(L int) (map[string]string, string, string) {
	src := map[string]string{"t0": "R[{% block b %}0{% endblock %}|{% block c %}c0{% endblock %}]"}
	want := "0"
	for k := 1; k <= L; k++ {
		parent := fmt.Sprintf("'t%d'", k-1)
		if k%7 == 0 {
			parent = fmt.Sprintf("'t' ~ %d", k-1)
		}
		body := ""
		if k%10 != 0 {
			body = fmt.Sprintf("{%% block b %%}%d({{ parent() }}){%% endblock %%}", k)
			want = fmt.Sprintf("%d(%s)", k, want)
		}
		src[fmt.Sprintf("t%d", k)] = fmt.Sprintf("{%% extends %s %%}IGNORED%s", parent, body)
	}
	return src, fmt.Sprintf("t%d", L), "R[" + want + "|c0]"
}

func blockBody(tag string, withParent bool, extra ...gen.Node) []gen.Node {
	out := []gen.Node{tx("<" + tag + ":"), pr(&gen.ECall{Fn: "fn", Args: []gen.Expr{str(tag)}})}
	if withParent {
		switch len(tag) % 3 {
		case 1:
			// parent() called from inside a capture: it is still this block's parent
			out = append(out, &gen.NSetCap{Name: "pcap", Body: []gen.Node{tx("cap("), pr(&gen.EParent{}), tx(")")}}, tx("^["), pr(nm("pcap")), tx("]"))
		case 2:
			// ... and from inside a filter section
			out = append(out, tx("^|"), &gen.NFilter{Filters: []string{"b1"}, Body: []gen.Node{tx("f("), pr(&gen.EParent{}), tx(")")}}, tx("|"))
		}
		if len(tag)%4 >= 2 {
			// a macro called in the block before parent(): when the call is over, the block is the current block again
			out = append(out, &gen.NImport{Tpl: str("c09macs"), Alias: "cm"}, tx("~"), pr(&gen.EMethod{X: nm("cm"), Name: "mm", Args: []gen.Expr{str(tag)}}))
		}
		out = append(out, tx("^("), pr(&gen.EParent{}), tx(")"))
		if len(tag)%2 == 0 || strings.HasPrefix(tag, "ublk") {
			// once more: what the first call did to the state must not change where the second one goes
			out = append(out, tx("^^("), pr(&gen.EParent{}), tx(")"))
		}
	}
	out = append(out, extra...)
	return append(out, tx(">"))
}

func tname(k int) string { return "t" + strconv.Itoa(k) }

// buildConfig builds the templates of one configuration. pattern[(k-1)*B+j] in {0,1,2}
// says what level k (1..L-1) does with block j.
func buildConfig(g c09group, pattern []int, exprParent bool, useLevel int) *Program {
	ts := map[string]*gen.Template{"c09macs": tpl("c09macs", &gen.NMacro{Name: "mm", Params: []string{"p"}, Body: []gen.Node{tx("m("), pr(nm("p")), pr(&gen.ECall{Fn: "fn", Args: []gen.Expr{str("in-macro")}}), tx(")")}})}
	// root
	var root []gen.Node
	root = append(root, tx("ROOT["))
	mk := func(j int, extra ...gen.Node) *gen.NBlock {
		return &gen.NBlock{Name: "b" + strconv.Itoa(j), Body: blockBody("t0.b"+strconv.Itoa(j), false, extra...)}
	}
	switch g.layout {
	case 0:
		for j := 0; j < g.B; j++ {
			root = append(root, mk(j), tx("|"))
		}
	case 1:
		// b1.. nested inside b0
		var inner []gen.Node
		for j := 1; j < g.B; j++ {
			inner = append(inner, mk(j))
		}
		root = append(root, mk(0, inner...), tx("|"))
	case 2:
		for j := 0; j < g.B; j++ {
			root = append(root, &gen.NFor{Val: "i", Seq: &gen.EGroup{X: &gen.EBin{Op: "..", L: num(1), R: num(2)}},
				Body: []gen.Node{tx("#"), pr(nm("i")), mk(j)}}, tx("|"))
		}
	}
	root = append(root, tx("]END"))
	ts[tname(0)] = tpl(tname(0), root...)
	for k := 1; k < g.L; k++ {
		var body []gen.Node
		var ext gen.Expr = str(tname(k - 1))
		if exprParent && k%2 == 1 {
			ext = &gen.EBin{Op: "~", L: str("t"), R: str(strconv.Itoa(k - 1))}
		} else if exprParent {
			// the parent's name comes out of a recorded callback: it is asked for once
			ext = &gen.ECall{Fn: "ident", Args: []gen.Expr{str(tname(k - 1))}}
		}
		body = append(body, &gen.NExtends{Tpl: ext})
		if g.use > 0 && g.use < 3 && k == useLevel {
			u := &gen.NUse{Tpl: str("ublk")}
			if g.use == 2 {
				u.Aliases = [][2]string{{"orig0", "b0"}}
			}
			body = append(body, u)
		}
		if g.use == 4 && k == useLevel {
			// two use statements in one template: both libraries count
			body = append(body, &gen.NUse{Tpl: str("ublk"), Aliases: [][2]string{{"orig0", "b0"}}}, &gen.NUse{Tpl: str("ublk2")})
		}
		if g.use == 5 && k == useLevel {
			// a chain of aliases: each alias names the library's block of that name, so b0 is the library's orig1
			// whatever orig1 is made to mean by the same statement
			body = append(body, &gen.NUse{Tpl: str("ublk3"), Aliases: [][2]string{{"orig0", "orig1"}, {"orig1", "b0"}}})
		}
		if g.use == 3 {
			// the same library at two levels: aliased onto b0 by the first child, as it is by the leaf
			if k == 1 {
				body = append(body, &gen.NUse{Tpl: str("ublk"), Aliases: [][2]string{{"orig0", "b0"}}})
			} else if k == g.L-1 {
				body = append(body, &gen.NUse{Tpl: str("ublk")})
			}
		}
		body = append(body, tx("IGNORED-"+tname(k)), pr(&gen.ECall{Fn: "fn", Args: []gen.Expr{str("ignored")}}))
		// ... nor does anything else outside the blocks of a child render (text only: whether such statements
		// are executed silently is not claimed)
		switch k % 4 {
		case 1:
			body = append(body, &gen.NIf{Conds: []gen.Expr{&gen.EBool{V: true}}, Bodies: [][]gen.Node{{tx("STRAY-if")}}})
		case 2:
			body = append(body, &gen.NFor{Val: "sv", Seq: &gen.EArr{Els: []gen.Expr{num(1), num(2)}}, Body: []gen.Node{tx("STRAY-for")}})
		case 3:
			body = append(body, &gen.NFilter{Filters: []string{"up"}, Body: []gen.Node{tx("stray-filter")}}, &gen.NSetCap{Name: "strayc", Body: []gen.Node{tx("stray-capture")}})
		}
		for j := 0; j < g.B; j++ {
			switch pattern[(k-1)*g.B+j] {
			case 1:
				var extra []gen.Node
				if (k+j)%3 == 2 {
					// an embed that overrides nothing, after other blocks of this template have been closed: the
					// blocks of this template stay what they are
					extra = append(extra, tx("{emb:"), &gen.NEmbed{Tpl: str("plainemb")}, tx("}"))
					ts["plainemb"] = tpl("plainemb", tx("<plainemb>"), &gen.NBlock{Name: "b0", Body: []gen.Node{tx("emb-own-b0")}})
				}
				if g.layout == 0 && j+1 < g.B && pattern[(k-1)*g.B+j+1] == 0 && (k+j)%2 == 1 {
					// a block nested in this override that re-defines the NEXT block of the layout (which this
					// template does not define otherwise) and calls parent(): its parent is that block's
					// version further up, not the block it happens to stand in
					nb := "b" + strconv.Itoa(j+1)
					extra = append(extra, &gen.NBlock{Name: nb, Body: blockBody(fmt.Sprintf("t%d.nested-%s", k, nb), true)})
				}
				body = append(body, &gen.NBlock{Name: "b" + strconv.Itoa(j), Body: blockBody(fmt.Sprintf("t%d.b%d", k, j), false, extra...)})
			case 2:
				bb := blockBody(fmt.Sprintf("t%d.b%d", k, j), true)
				if g.layout == 0 && j+1 < g.B && (k+j)%3 == 1 {
					// another block rendered through block() in front of the parent() call: afterwards parent()
					// still means the parent of THIS block (b_j only ever calls b_j+1, so this cannot recurse)
					bb = append([]gen.Node{bb[0], tx("/"), pr(&gen.EBlockFn{Name: str("b" + strconv.Itoa(j+1))}), tx("/")}, bb[1:]...)
				}
				if (k+j)%2 == 0 {
					// a nested block of its own before the parent() call
					nested := &gen.NBlock{Name: fmt.Sprintf("n%d%d", k, j), Body: blockBody(fmt.Sprintf("t%d.n%d%d", k, k, j), false)}
					bb = append([]gen.Node{bb[0], nested}, bb[1:]...)
				}
				body = append(body, &gen.NBlock{Name: "b" + strconv.Itoa(j), Body: bb})
			}
		}
		if (k+g.L+g.B+g.layout+g.use)%3 == 1 && g.use != 5 {
			// the extends tag need not come first: it may follow the blocks (nested ones included), and text
			if _, isExt := body[0].(*gen.NExtends); isExt {
				if (k+g.B)%2 == 0 {
					body = append(body[1:], body[0])
				} else {
					mid := 1 + len(body[1:])/2
					body = append(append(append([]gen.Node{}, body[1:mid+1]...), body[0]), body[mid+1:]...)
				}
			}
		}
		ts[tname(k)] = tpl(tname(k), body...)
	}
	// a library may define its blocks anywhere - inside a condition, a loop, a capture or a filter section: a block
	// is a block (the library's own layout is never rendered)
	inside := func(k int, b *gen.NBlock) gen.Node {
		switch k % 5 {
		case 1:
			return &gen.NIf{Conds: []gen.Expr{&gen.EBool{V: true}}, Bodies: [][]gen.Node{{tx("lib-if"), b}}}
		case 2:
			return &gen.NFor{Val: "li", Seq: &gen.EArr{Els: []gen.Expr{num(1)}}, Body: []gen.Node{b}}
		case 3:
			return &gen.NSetCap{Name: "libcap", Body: []gen.Node{b}}
		case 4:
			return &gen.NFilter{Filters: []string{"up"}, Body: []gen.Node{b}}
		}
		return b
	}
	shapeNo := g.L + g.B + g.layout + len(pattern) + useLevel
	for _, v := range pattern {
		shapeNo += v
	}
	// an imported block that has a block of its own in front of its parent() calls
	withNested := func(tag string) []gen.Node {
		bb := blockBody(tag, true)
		nested := &gen.NBlock{Name: "unest", Body: []gen.Node{tx("<" + tag + ".unest>")}}
		return append([]gen.Node{bb[0], nested}, bb[1:]...)
	}
	if g.use == 1 {
		// imported blocks: the last block name, calling parent(), and an unrelated one
		last := "b" + strconv.Itoa(g.B-1)
		ts["ublk"] = tpl("ublk", inside(shapeNo, &gen.NBlock{Name: last, Body: blockBody("ublk."+last, true)}), tx("IGNORED-ublk"))
	}
	if g.use == 4 {
		last := "b" + strconv.Itoa(g.B-1)
		ts["ublk2"] = tpl("ublk2", &gen.NBlock{Name: last, Body: blockBody("ublk2."+last, true)}, &gen.NBlock{Name: "unrelated", Body: []gen.Node{tx("never")}})
	}
	if g.use == 5 {
		ts["ublk3"] = tpl("ublk3", &gen.NBlock{Name: "orig0", Body: blockBody("ublk3.orig0", true)}, tx("IGNORED-ublk3"), &gen.NBlock{Name: "orig1", Body: blockBody("ublk3.orig1", true)})
	}
	if g.use >= 2 && g.use != 5 {
		body := blockBody("ublk.orig0", true)
		if shapeNo%2 == 0 {
			body = withNested("ublk.orig0")
		}
		ts["ublk"] = tpl("ublk", inside(shapeNo/2, &gen.NBlock{Name: "orig0", Body: body}))
		if shapeNo%3 != 1 {
			// the library has a block of its own under the name the alias takes: the alias replaces it (it ranks
			// nowhere any more - parent() in the aliased block goes on to the ancestors)
			ts["ublk"].Body = append(ts["ublk"].Body, tx("IGNORED-ublk"), &gen.NBlock{Name: "b0", Body: blockBody("ublk.own-b0", true)})
		}
	}
	return &Program{Templates: ts, Main: tname(g.L - 1), Ctx: map[string]interface{}{}}
}

func (p *c09) build(i int) (*Program, string, bool) {
	if i < p.nEnum {
		gi := searchOffs(p.offs, i)
		g := p.groups[gi]
		j := i - p.offs[gi]
		pat := make([]int, (g.L-1)*g.B)
		for k := range pat {
			pat[k] = j % 3
			j /= 3
		}
		useLevel := g.L - 1
		if i%2 == 0 && g.L > 2 {
			useLevel = 1
		}
		prog := buildConfig(g, pat, i%3 == 0, useLevel)
		over := 0
		for _, v := range pat {
			if v > 0 {
				over++
			}
		}
		return prog, fmt.Sprintf("L%d/B%d/lay%d/use%d@%d/%v", g.L, g.B, g.layout, g.use, useLevel, pat), g.L >= 2 && over >= 1
	}
	// random larger shapes: nested blocks in loops, block() calls, expression-named parents
	r := gen.Rng(p.seed, "c09", i)
	L := 2 + r.Intn(3)
	B := 2 + r.Intn(3)
	g := c09group{L: L, B: B, layout: r.Intn(3), use: r.Intn(6)}
	if L < 3 && g.use == 3 {
		g.use = 2
	}
	pat := make([]int, (L-1)*B)
	for k := range pat {
		pat[k] = r.Intn(3)
	}
	prog := buildConfig(g, pat, r.Intn(2) == 0, 1+r.Intn(L-1))
	// add a block() call of a resolved block at the end of the root layout and inside a root block
	root := prog.Templates[tname(0)]
	which := "b" + strconv.Itoa(r.Intn(B))
	if r.Intn(8) == 0 {
		// a near miss of a block's name names no block: the call is an error, not the block
		which = []string{" " + which, which + " ", strings.ToUpper(which), which + "\n", "b0" + which[1:], which + ".", ""}[r.Intn(7)]
	}
	root.Body = append(root.Body, tx("{blockfn:"), pr(&gen.EBlockFn{Name: str(which)}), tx("}"))
	// an extra block only the root has, rendered inside a loop with a nested block overridden by the leaf
	root.Body = append(root.Body, &gen.NFor{Val: "x", Seq: &gen.EArr{Els: []gen.Expr{str("p"), str("q")}}, Body: []gen.Node{
		&gen.NBlock{Name: "outer", Body: blockBody("t0.outer", false, pr(nm("x")), &gen.NBlock{Name: "innerb", Body: blockBody("t0.innerb", false)})}}})
	leaf := prog.Templates[tname(L-1)]
	leaf.Body = append(leaf.Body, &gen.NBlock{Name: "innerb", Body: blockBody("leaf.innerb", r.Intn(2) == 0)})
	return prog, fmt.Sprintf("rand/L%d/B%d/lay%d/use%d/%v", L, B, g.layout, g.use, pat), true
}

// c09NameCarriers: the name handed to block() is a value like any other - a string from the context, a defined string
// type, a safe value, something with a String method, a capture, a macro's result; the block it names is the same.
func c09NameCarriers() []gen.Named {
	return []gen.Named{
		gen.N("string", func(n string) interface{} { return n }),
		gen.N("defined string type", func(n string) interface{} { return gen.KeyStr(n) }),
		gen.N("safe value", func(n string) interface{} { return stick.NewSafeValue(n, "html") }),
		gen.N("safe value of a defined string", func(n string) interface{} { return stick.NewSafeValue(gen.KeyStr(n), "") }),
		gen.N("Stringer", func(n string) interface{} { return gen.ValStringer{S: n} }),
		gen.N("*Stringer", func(n string) interface{} { return &gen.ValStringer{S: n} }),
		gen.N("nested safe value", func(n string) interface{} { return stick.NewSafeValue(stick.NewSafeValue(n, "js"), "html") }),
	}
}

func (p *c09) runNameCarrier(res *fw.Result, j int) {
	c := c09NameCarriers()[j]
	mk := c.V.(func(string) interface{})
	src := map[string]string{
		"base": "{% for n in sections %}<{{ block(n) }}>{% endfor %}[{% block a %}A0{% endblock %}|{% block b %}B0{% endblock %}|{% block c %}C0{{ block(one) }}{% endblock %}]" +
			"{% set cap %}{{ 'a' }}{% endset %}({{ block(cap) }})({{ block('' ~ one) }})",
		"mid":  "{% extends 'base' %}{% block a %}A1({{ parent() }}){% endblock %}",
		"leaf": "{% extends layout %}{% block b %}B2{% endblock %}",
	}
	ctx := map[string]stick.Value{"sections": []stick.Value{mk("a"), mk("b"), mk("a")}, "one": mk("b"), "layout": mk("mid")}
	want := "<A1(A0)><B2><A1(A0)>[A1(A0)|B2|C0B2](A1(A0))(B2)"
	env, _ := mon.NewCoreEnv(src)
	out, err, pan, _ := execNoPanic(env, "leaf", ctx, 0)
	res.UniqueNT = 1
	res.AddClass("block-name-carrier")
	if pan != nil || err != nil || out != want {
		res.Fail("output", "c09:namecarrier:"+c.Label, fmt.Sprintf("block(name) with the name carried by a %s renders %q (error %v, panic %v), want %q", c.Label, out, err, pan, want), src)
	}
}

// c09nSelf: chains in which one template stands at several levels - it names its parent by an expression that says
// "me again" until a counter, decremented at its top level, runs out. Every level is a level like any other.
const c09nSelf = 6

func c09SelfCase(j int) (*Program, string) {
	if j >= 4 {
		// the template that is extended is also the library of a use: its blocks stand in the chain twice, and
		// parent() goes through both
		fn := func(t string) gen.Node { return pr(&gen.ECall{Fn: "fn", Args: []gen.Expr{str(t)}}) }
		ts := map[string]*gen.Template{
			"r": tpl("r", tx("<"), &gen.NBlock{Name: "a", Body: []gen.Node{tx("R"), fn("r.a")}}, tx("|"), &gen.NBlock{Name: "b", Body: []gen.Node{tx("Rb")}}, tx(">")),
			"m": tpl("m", &gen.NExtends{Tpl: str("r")}, &gen.NBlock{Name: "a", Body: []gen.Node{tx("M"), fn("m.a"), pr(&gen.EParent{})}}, &gen.NBlock{Name: "b", Body: []gen.Node{tx("Mb"), pr(&gen.EParent{})}}),
		}
		child := []gen.Node{&gen.NExtends{Tpl: str("m")}, &gen.NUse{Tpl: str("m")}, &gen.NBlock{Name: "a", Body: []gen.Node{tx("C"), fn("c.a"), pr(&gen.EParent{})}}}
		if j == 5 {
			child = []gen.Node{&gen.NExtends{Tpl: str("m")}, &gen.NUse{Tpl: str("r")}, &gen.NUse{Tpl: str("m")}, &gen.NBlock{Name: "b", Body: []gen.Node{tx("Cb"), pr(&gen.EParent{})}}}
		}
		ts["c"] = tpl("c", child...)
		return &Program{Templates: ts, Main: "c", Ctx: map[string]interface{}{}}, fmt.Sprintf("use-of-the-extended-template/%d", j-4)
	}
	depth := 2 + j%2*2 // the template stands at 2 or 4 levels
	withParent := j/2 == 1
	bbody := []gen.Node{tx("q("), pr(&gen.ECall{Fn: "fn", Args: []gen.Expr{str("q.b")}})}
	if withParent {
		bbody = append(bbody, tx("^"), pr(&gen.EParent{}))
	}
	bbody = append(bbody, tx(")"))
	ts := map[string]*gen.Template{
		"base": tpl("base", tx("BASE["), &gen.NBlock{Name: "b", Body: []gen.Node{tx("base.b"), pr(&gen.ECall{Fn: "fn", Args: []gen.Expr{str("base.b")}})}}, tx("|d="), pr(nm("d")), tx("]")),
		"q": tpl("q", &gen.NExtends{Tpl: &gen.ETern{C: &gen.EBin{Op: ">", L: nm("d"), R: num(1)}, A: str("q"), B: str("base")}}, &gen.NSet{Name: "d", X: &gen.EBin{Op: "-", L: nm("d"), R: num(1)}},
			&gen.NBlock{Name: "b", Body: bbody}),
	}
	return &Program{Templates: ts, Main: "q", Ctx: map[string]interface{}{"d": depth}}, fmt.Sprintf("self-extension/levels=%d/parent=%v", depth, withParent)
}

func (p *c09) Describe(i int) interface{} {
	if i >= p.nEnum+p.nRand+len(c09Long)+c09nSelf {
		return map[string]interface{}{"kind": "block() named by a carried value", "carrier": c09NameCarriers()[i-p.nEnum-p.nRand-len(c09Long)-c09nSelf].Label}
	}
	if i >= p.nEnum+p.nRand+len(c09Long) {
		prog, sig := c09SelfCase(i - p.nEnum - p.nRand - len(c09Long))
		d := prog.describe()
		d["configuration"] = sig
		return d
	}
	if i >= p.nEnum+p.nRand {
		return map[string]interface{}{"kind": "long chain", "templates": c09Long[i-p.nEnum-p.nRand] + 1}
	}
	prog, sig, _ := p.build(i)
	d := prog.describe()
	d["configuration"] = sig
	return d
}

func (p *c09) Run(i int) (res fw.Result) {
	if i >= p.nEnum+p.nRand+len(c09Long)+c09nSelf {
		p.runNameCarrier(&res, i-p.nEnum-p.nRand-len(c09Long)-c09nSelf)
		return
	}
	if i >= p.nEnum+p.nRand+len(c09Long) {
		prog, sig := c09SelfCase(i - p.nEnum - p.nRand - len(c09Long))
		if _, _, ok := modelCase(&res, "c09:"+sig, prog, gen.Canon{}, true); !ok {
			res.Fail("harness", "c09:oor:"+sig, "case left the model's region", prog.describe())
		}
		res.AddClass("self-extension")
		res.UniqueNT = 1
		return
	}
	if i >= p.nEnum+p.nRand {
		L := c09Long[i-p.nEnum-p.nRand]
		src, main, want := c09LongChain(L)
		env, _ := mon.NewCoreEnv(src)
		out, err, pan, steps := execNoPanic(env, main, nil, 0)
		res.UniqueNT = 1
		res.AddObs("exec_steps", steps)
		res.AddClass("long-chain")
		if pan != nil || err != nil || out != want {
			res.Fail("output", fmt.Sprintf("c09:long:%d", L), fmt.Sprintf("a chain of %d templates renders %q (error %v, panic %v), want %q", L+1, clip(out, 200), err, pan, clip(want, 200)), nil)
		}
		return
	}
	prog, sig, nt := p.build(i)
	if strings.Contains(sig, "/use5") {
		p.runAliasChain(&res, prog, sig)
		if nt {
			res.Sigs = append(res.Sigs, sig)
		}
		return
	}
	if style := i % 5; style >= 2 && i < p.nEnum+p.nRand {
		// a template's name is a key, white space and all: " t0" is not "t0", and a layout called "t0\n" is found
		// under that name only
		pad := [][2]string{{" ", ""}, {"", "\n"}, {"\t", "  "}}[style-2]
		names := map[string]bool{}
		for n := range prog.Templates {
			names[n] = true
		}
		renameTemplates(prog, func(n string) string {
			if names[n] {
				return pad[0] + n + pad[1]
			}
			return n
		})
		for n := range names { // what a trimmed name would find
			prog.Templates[n] = tpl(n, tx("DECOY:"+n))
		}
	}
	lib, _, ok := modelCase(&res, "c09:"+sig, prog, gen.Canon{}, true)
	if !ok {
		res.Fail("harness", "c09:oor:"+sig, "configuration left the model's region", prog.describe())
		return
	}
	if strings.Contains(lib.out, "IGNORED") {
		res.Fail("ignored-content", "c09:ign:"+sig, "content of a child outside blocks was rendered: "+clip(lib.out, 300), prog.describe())
	}
	if nt {
		if i < p.nEnum {
			res.UniqueNT = 1
		} else {
			res.Sigs = append(res.Sigs, sig)
		}
	}
	return
}

// runAliasChain: 'use lib with a as b, b as c'. The statement does not say whether the second alias names the
// library's b or the b the first alias just made; either reading is accepted, but it has to be the same reading
// every time the template is rendered.
func (p *c09) runAliasChain(res *fw.Result, prog *Program, sig string) {
	key := "c09:" + sig
	modA, _, okA, _ := runModelWith(prog, &model.Interp{Prog: prog.Templates})
	modB, _, okB, _ := runModelWith(prog, &model.Interp{Prog: prog.Templates, SeqAliases: true})
	if !okA || !okB {
		res.Fail("harness", "c09:oor:"+sig, "configuration left the model's region", prog.describe())
		return
	}
	first := runLib(prog, gen.Canon{}, false)
	res.AddObs("exec_steps", first.exSteps)
	res.AddObs("callbacks_observed", int64(len(first.calls)))
	res.AddObs("output_bytes", int64(len(first.out)))
	res.AddClass("alias-chain")
	mod := modA
	if first.pan == nil && first.err == nil && first.out == modB.out {
		mod = modB
	}
	if !compareRuns(res, key, prog, first, mod, true) {
		return
	}
	if strings.Contains(first.out, "IGNORED") {
		res.Fail("ignored-content", "c09:ign:"+sig, "content of a child outside blocks was rendered: "+clip(first.out, 300), prog.describe())
	}
	for k := 0; k < 7; k++ {
		again := runLib(prog, gen.Canon{}, false)
		res.AddObs("alias_chain_repeats", 1)
		if again.out != first.out || callsString(again.calls) != callsString(first.calls) || (again.err == nil) != (first.err == nil) {
			res.Fail("nondeterministic", key, fmt.Sprintf("the same templates rendered %q and then %q", clip(first.out, 300), clip(again.out, 300)), prog.describe())
			return
		}
	}
}

func (p *c09) Rule() string {
	return p.ruleBase() + " " + "Round 12: block(name) with the name carried by a string, a defined string type, a safe value (plain, of a defined string, nested), a Stringer by value and by pointer, a capture and a concatenation, in a three-level chain whose parent is named the same way; expected output written out by hand."
}

func (p *c09) ruleBase() string {
	return "bounded-exhaustive configurations: chain length L x block names B x for every non-root level and block one of {absent, override, override calling parent() - half of those with a nested block of their own in front of the call} (3^((L-1)B) patterns) x root layout {flat, blocks nested in b0, each block inside a 2-iteration loop} x use at one level {none, plain import of the last block name whose body calls parent(), aliased import 'orig0 as b0', the same library imported by the first child with that alias AND by the leaf without (L>=3), two use statements in one template (B>=2), a chain of aliases 'orig0 as orig1, orig1 as b0' in one statement - either reading of the second alias is accepted, but the same one in each of 8 renders}; half of the parent()-calling bodies, and every imported one, call parent() twice, a third render the next block through block() in front of parent(); children have a stray if / for / filter section / capture outside their blocks; quick: L<=3, B<=2, all layouts and use variants; thorough: full product L<=4, B<=4 on the flat layout (3^12 patterns at the top size) and L<=4, B<=3 for the other layouts/use variants. Parents are named by an expression ('t' ~ '0') in a third of the cases; every child has content outside blocks that must not render. Random: larger shapes with block() calls, a root-only block in a loop with a nested block overridden by the leaf. Every block body prints a unique marker and calls a recording function; oracle = reference model output and the callback log including Context.Name() (must be the defining template, also inside parent() bodies). Non-trivial = chain >= 2 with >= 1 override; enumerated configurations are distinct by construction."
}

func (p *c09) Assumptions() []string {
	return []string{"use is only exercised in extending templates; an aliased block's original name occurs nowhere else (both as the statement's scope)"}
}

func (p *c09) Floors(tier string) map[string]int64 {
	return map[string]int64{"callbacks_observed": 10000, "distinct_nontrivial": 500, "class:alias-chain": 100, "class:long-chain": 2}
}
