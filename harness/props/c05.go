package props

import (
	"fmt"
	"strconv"
	"strings"

	"verifharness/fw"
	"verifharness/gen"
	"verifharness/model"
)

// C05 — expressions evaluate to the documented values.
type c05 struct {
	base
	nRand int
	table []gen.Expr
}

func init() { fw.Register("C05", func() fw.Property { return &c05{} }) }

func (p *c05) ID() string { return "C05" }

var c05BinOps = []string{"+", "-", "*", "/", "//", "%", "**", "~", "==", "!=", "<", "<=", ">", ">=", "and", "or", "in", "not in",
	"starts with", "ends with", "matches", "..", "b-and", "b-or", "b-xor"}

func c05Operands() []gen.Expr {
	return []gen.Expr{
		&gen.ENum{"0"}, &gen.ENum{"1"}, &gen.ENum{"2"}, &gen.ENum{"3"}, &gen.ENum{"7"}, &gen.ENum{"12"}, &gen.ENum{"0.5"}, &gen.ENum{"2.25"}, &gen.ENum{"100"},
		&gen.ENum{"1000"}, &gen.ENum{"65537"}, &gen.ENum{"66536"},
		&gen.EUn{"-", &gen.ENum{"3"}}, &gen.EUn{"-", &gen.ENum{"0.5"}}, &gen.EGroup{&gen.EUn{"-", &gen.ENum{"7"}}},
		&gen.EStr{"a"}, &gen.EStr{"abc"}, &gen.EStr{""}, &gen.EStr{"12"}, &gen.EStr{"2"}, &gen.EStr{"b"}, &gen.EStr{"+5"}, &gen.EStr{"-3"}, &gen.EStr{"+0.5"},
		&gen.EBool{true}, &gen.EBool{false}, &gen.ENull{},
		&gen.EArr{[]gen.Expr{&gen.ENum{"1"}, &gen.ENum{"2"}}}, &gen.EArr{nil}, &gen.EArr{[]gen.Expr{&gen.EStr{"a"}, &gen.EStr{"b"}}},
		&gen.EGroup{&gen.EHash{[]gen.Expr{&gen.EStr{"k"}}, []gen.Expr{&gen.ENum{"2"}}}},
		&gen.EName{"n1"}, &gen.EName{"s1"}, &gen.EName{"arr1"}, &gen.EName{"n4"},
		// ranges as operands (the haystack of 'in' above all: what is in 0..3 is decided like for any other list)
		&gen.EGroup{&gen.EBin{"..", &gen.ENum{"0"}, &gen.ENum{"3"}}}, &gen.EGroup{&gen.EBin{"..", &gen.EGroup{&gen.EUn{"-", &gen.ENum{"1"}}}, &gen.ENum{"1"}}},
		// integer literals with leading zeros are decimal
		&gen.ENum{"010"}, &gen.ENum{"0100"},
	}
}

func (p *c05) Init(tier string, seed int64) {
	p.tier, p.seed = tier, seed
	p.nRand = p.pick(40000, 1200000)
	ops := c05Operands()
	for _, op := range c05BinOps {
		for _, l := range ops {
			for _, r := range ops {
				p.table = append(p.table, &gen.EBin{op, l, r})
			}
		}
	}
	// whole numbers beyond 32 bits: the integer operators work on what a template number holds, not on its low half
	big := []gen.Expr{&gen.ENum{"2147483648"}, &gen.ENum{"3000000000"}, &gen.ENum{"4294967296"}, &gen.ENum{"4294967297"}, &gen.ENum{"6442450944"},
		&gen.ENum{"9007199254740991"}, &gen.EGroup{&gen.EUn{"-", &gen.ENum{"3000000000"}}}, &gen.EName{"n9"}, &gen.EStr{"4294967296"}}
	for _, op := range []string{"%", "b-and", "b-or", "b-xor", "//", "+", "-", "*", "==", "<", "~", "in"} {
		for _, l := range big {
			for _, r := range append(append([]gen.Expr{}, big...), &gen.ENum{"1"}, &gen.ENum{"7"}, &gen.ENum{"10"}, &gen.ENum{"1000"}, &gen.ENum{"65536"}) {
				p.table = append(p.table, &gen.EBin{op, l, r}, &gen.EBin{op, r, l})
			}
		}
	}
	// patterns made of one regular-expression construct each (and of none): a pattern is a regular expression whatever it is made of
	for _, pat := range []string{"a{2}", "a{1,}", "xb{0}y", "a{2,3}$", "a.c", "a|b", "a?b", "[ab]c", "(ab)c", "ab*", "b+", "^", "$", "^b", "ab", "", "a{", "{2}", "}", "a{2}{2}", "aa", "a{2", "é{2}", "(?i)AB", "(?s)a.c", "a b", "a-c", "a,b", "a:b", "a#b", "a/b", "a=b", "a&b", "a<b", "a!b", "a%b", "a~b", "a@b", "a;b", "a_b"} {
		for _, sub := range []string{"aa", "a", "a{2}", "ab", "abc", "", "b", "xy", "xby", "aaa", "a|b", "a.c", "a\nc", "abcabc", "a{1,}", "a{2}{2}", "aaaa", "a{", "{2}", "a?b", "éé", "é{2}", "AB", "ba", "ac", "(ab)c", "[ab]c", "ab*", "b+", "^b", "a b", "a-c", "a,b", "a:b", "a#b", "a/b", "a=b", "a&b", "a<b", "a!b", "a%b", "a~b", "a@b", "a;b", "a_b"} {
			p.table = append(p.table, &gen.EBin{"matches", &gen.EStr{sub}, &gen.EStr{pat}})
		}
	}
	for _, op := range []string{"-", "+", "not"} {
		for _, x := range ops {
			p.table = append(p.table, &gen.EUn{op, x})
		}
	}
	for _, c := range ops {
		p.table = append(p.table, &gen.ETern{c, &gen.EStr{"T"}, &gen.EStr{"F"}})
	}
	// every operand form as the subscript of a hash and of a list (the keys of a hash are strings: a number or a
	// boolean finds the entry under its string form), written with brackets and - where it can be - with a dot
	hash := func() gen.Expr {
		return &gen.EGroup{&gen.EHash{[]gen.Expr{&gen.EStr{"1"}, &gen.EStr{""}, &gen.EStr{"0"}, &gen.EStr{"a"}, &gen.EStr{"2"}, &gen.EStr{"12"}, &gen.EStr{"abc"}, &gen.ENum{"3"}, &gen.ENum{"7"}},
			[]gen.Expr{&gen.EStr{"one"}, &gen.EStr{"empty"}, &gen.EStr{"zero"}, &gen.EStr{"A"}, &gen.EStr{"two"}, &gen.EStr{"twelve"}, &gen.EStr{"ABC"}, &gen.EStr{"three"}, &gen.EStr{"seven"}}}}
	}
	list := func() gen.Expr {
		return &gen.EArr{[]gen.Expr{&gen.EStr{"e0"}, &gen.EStr{"e1"}, &gen.EStr{"e2"}, &gen.EStr{"e3"}}}
	}
	// hashes with several entries are evaluated in source order - key, value, key, value - whatever is done with them
	// afterwards; a key in parentheses is an expression, also when it is a single name, number or string
	fn := func(a string) gen.Expr { return &gen.ECall{"fn", []gen.Expr{&gen.EStr{a}}} }
	grp := func(e gen.Expr) gen.Expr { return &gen.EGroup{e} }
	for _, h := range []*gen.EHash{
		{[]gen.Expr{grp(fn("k1")), grp(fn("k2")), grp(fn("k3"))}, []gen.Expr{fn("v1"), fn("v2"), fn("v3")}},
		{[]gen.Expr{&gen.EStr{"a"}, grp(fn("k2"))}, []gen.Expr{fn("v1"), &gen.ENum{"2"}}},
		{[]gen.Expr{grp(&gen.EName{"s1"}), grp(&gen.EName{"n1"}), &gen.EName{"s1"}}, []gen.Expr{&gen.EStr{"by-value-of-s1"}, &gen.EStr{"by-value-of-n1"}, &gen.EStr{"by-name"}}},
		{[]gen.Expr{grp(grp(&gen.EName{"s1"})), grp(&gen.ENum{"7"}), grp(&gen.EStr{"q"}), grp(&gen.EBool{true}), grp(&gen.ENull{})}, []gen.Expr{&gen.ENum{"1"}, &gen.ENum{"2"}, &gen.ENum{"3"}, &gen.ENum{"4"}, &gen.ENum{"5"}}},
	} {
		for _, k := range []gen.Expr{&gen.EName{"s1"}, &gen.EStr{"s1"}, &gen.EName{"n1"}, &gen.EStr{"n1"}, &gen.EStr{"a"}, &gen.ENum{"7"}, &gen.EStr{"q"}, &gen.EStr{"1"}, &gen.EStr{""}, fn("k2")} {
			p.table = append(p.table, &gen.EAttr{X: grp(h), Key: k})
		}
	}
	for _, k := range ops {
		p.table = append(p.table, &gen.EAttr{X: hash(), Key: k}, &gen.EAttr{X: list(), Key: k},
			&gen.EAttr{X: hash(), Key: &gen.EGroup{&gen.EBin{">", k, &gen.ENum{"1"}}}}, &gen.EAttr{X: hash(), Key: &gen.EGroup{&gen.EUn{"not", k}}}, &gen.EAttr{X: hash(), Key: &gen.EGroup{&gen.EBin{"+", k, &gen.ENum{"1"}}}})
	}
}

func (p *c05) N() int { return len(p.table) + p.nRand + len(c05RangeBounds)*len(c05RangeBounds) }

// c05RangeBounds: l..r for every ordered pair. For integer bounds the elements are l, l±1, ..., r exactly; for
// fractional bounds the statements do not give the elements, but "inclusive range" still means: it starts at l,
// moves in unit steps towards r, never passes r and stops only when the next step would.
var c05RangeBounds = []float64{-3, -1.5, -1, 0, 0.5, 1, 1.5, 2, 2.5, 4, 4.5, 7}

func (p *c05) runRange(res *fw.Result, j int) {
	l, r := c05RangeBounds[j/len(c05RangeBounds)], c05RangeBounds[j%len(c05RangeBounds)]
	lit := func(f float64) gen.Expr {
		if f < 0 {
			return &gen.EGroup{X: &gen.EUn{Op: "-", X: &gen.ENum{Text: model.FmtNum(-f)}}}
		}
		return &gen.ENum{Text: model.FmtNum(f)}
	}
	loop := &gen.NFor{Val: "i", Seq: &gen.EGroup{X: &gen.EBin{Op: "..", L: lit(l), R: lit(r)}}, Body: []gen.Node{pr(nm("i")), tx(",")}}
	prog := mkProg(nil, loop)
	lib := runLib(prog, gen.Canon{}, false)
	key := fmt.Sprintf("c05:range:%v..%v", l, r)
	res.AddClass("range")
	res.UniqueNT = 1
	if lib.pan != nil || lib.err != nil {
		res.Fail("range", key, fmt.Sprintf("{%% for i in %v..%v %%}: error %v, panic %v", l, r, lib.err, lib.pan), prog.describe())
		return
	}
	var els []float64
	for _, f := range strings.Split(strings.TrimSuffix(lib.out, ","), ",") {
		v, err := strconv.ParseFloat(f, 64)
		if err != nil {
			res.Fail("range", key, fmt.Sprintf("%v..%v rendered %q", l, r, lib.out), prog.describe())
			return
		}
		els = append(els, v)
	}
	step := 1.0
	if r < l {
		step = -1
	}
	bad := ""
	switch {
	case len(els) == 0 || els[0] != l:
		bad = "does not start at the left bound"
	default:
		for i, e := range els {
			if i > 0 && e != els[i-1]+step {
				bad = fmt.Sprintf("element %d is not one step after element %d", i, i-1)
			}
			if (step > 0 && e > r) || (step < 0 && e < r) {
				bad = fmt.Sprintf("element %v lies beyond the right bound", e)
			}
		}
		if last := els[len(els)-1] + step; bad == "" && ((step > 0 && last <= r) || (step < 0 && last >= r)) {
			bad = fmt.Sprintf("stops at %v although %v is still within the bounds", els[len(els)-1], last)
		}
	}
	if bad != "" {
		res.Fail("range", key, fmt.Sprintf("%v..%v gives %v: %s", l, r, els, bad), prog.describe())
	}
}

func (p *c05) build(i, attempt int) (*Program, gen.Expr) {
	g := &gen.ExprGen{Callbacks: true}
	ctx := gen.StdContext(g)
	var e gen.Expr
	if i < len(p.table) {
		e = p.table[i]
	} else {
		g.R = gen.Rng(p.seed, "c05", i*31+attempt)
		depth := 1 + g.R.Intn(p.pick(4, 6))
		e = g.Scalar(depth)
	}
	spelled := gen.FullParen(e)
	if i >= len(p.table) && i%3 == 0 {
		// the same expression nodes evaluated three times in one execution under different variable values
		// (anything remembered per node - a compiled pattern, a folded constant, a looked-up callee - shows)
		row := func(n, s, pat string, t bool) gen.Expr {
			return &gen.EArr{Els: []gen.Expr{&gen.ENum{Text: n}, &gen.EStr{S: s}, &gen.EStr{S: pat}, &gen.EBool{V: t}}}
		}
		rows := &gen.EArr{Els: []gen.Expr{row("3", "abc", "^a", true), row("5", "b", "c$", false), row("1", "12", "[0-9]", true)}}
		at := func(k int) gen.Expr {
			return &gen.EAttr{X: &gen.EName{Name: "row"}, Key: &gen.ENum{Text: fmt.Sprint(k)}}
		}
		loop := &gen.NFor{Val: "row", Seq: rows, Body: []gen.Node{
			&gen.NSet{Name: "n1", X: at(0)}, &gen.NSet{Name: "s1", X: at(1)}, &gen.NSet{Name: "pat", X: at(2)}, &gen.NSet{Name: "t", X: at(3)},
			&gen.NPrint{X: spelled}, &gen.NText{S: ";"}}}
		t := &gen.Template{Name: "main", Body: []gen.Node{&gen.NText{S: "["}, loop, &gen.NText{S: "]"}}}
		return &Program{Templates: map[string]*gen.Template{"main": t}, Main: "main", Ctx: ctx}, e
	}
	t := &gen.Template{Name: "main", Body: []gen.Node{&gen.NText{S: "["}, &gen.NPrint{X: spelled}, &gen.NText{S: "]"}}}
	return &Program{Templates: map[string]*gen.Template{"main": t}, Main: "main", Ctx: ctx}, e
}

func (p *c05) Describe(i int) interface{} {
	prog, _ := p.build(i, 0)
	return prog.describe()
}

func exprShape(e gen.Expr, b *strings.Builder, depth int) int {
	max := depth
	sub := func(x gen.Expr) {
		if d := exprShape(x, b, depth+1); d > max {
			max = d
		}
	}
	switch e := e.(type) {
	case *gen.ENum:
		b.WriteByte('n')
	case *gen.EStr:
		b.WriteByte('s')
	case *gen.EStrExpr:
		b.WriteString("s!")
	case *gen.EBool:
		b.WriteByte('b')
	case *gen.ENull:
		b.WriteByte('0')
	case *gen.EName:
		b.WriteString("v:" + e.Name)
	case *gen.EUn:
		b.WriteString("(" + e.Op + " ")
		sub(e.X)
		b.WriteByte(')')
	case *gen.EBin:
		b.WriteString("(")
		sub(e.L)
		b.WriteString(" " + e.Op + " ")
		sub(e.R)
		b.WriteByte(')')
	case *gen.ETern:
		b.WriteString("(?")
		sub(e.C)
		sub(e.A)
		sub(e.B)
		b.WriteByte(')')
	case *gen.ETest:
		b.WriteString("(is " + e.Test)
		sub(e.X)
		for _, a := range e.Args {
			sub(a)
		}
		b.WriteByte(')')
	case *gen.ECall:
		b.WriteString(e.Fn + "(")
		for _, a := range e.Args {
			sub(a)
		}
		b.WriteByte(')')
	case *gen.EFilter:
		b.WriteString("|" + e.Name + "(")
		sub(e.X)
		for _, a := range e.Args {
			sub(a)
		}
		b.WriteByte(')')
	case *gen.EAttr:
		b.WriteString("[.")
		sub(e.X)
		sub(e.Key)
		b.WriteByte(']')
	case *gen.EArr:
		b.WriteString("[")
		for _, a := range e.Els {
			sub(a)
		}
		b.WriteByte(']')
	case *gen.EHash:
		b.WriteString("{")
		for _, a := range e.Vals {
			sub(a)
		}
		b.WriteByte('}')
	case *gen.EInterp:
		b.WriteString("\"")
		for _, a := range e.Parts {
			sub(a)
		}
		b.WriteByte('"')
	case *gen.EGroup:
		sub(e.X)
	default:
		b.WriteByte('?')
	}
	return max
}

func (p *c05) Run(i int) (res fw.Result) {
	if i >= len(p.table)+p.nRand {
		p.runRange(&res, i-len(p.table)-p.nRand)
		return
	}
	for attempt := 0; attempt < 30; attempt++ {
		prog, e := p.build(i, attempt)
		mod, _, inRegion, _ := runModel(prog)
		if !inRegion {
			res.AddObs("out_of_region_rejected", 1)
			if i < len(p.table) {
				res.AddClass("table-out-of-region")
				return
			}
			continue
		}
		var pol gen.Policy = gen.Canon{}
		if i%2 == 1 {
			// the value of an expression does not depend on how it is laid out
			r := gen.Rng(p.seed, "c05pol", i)
			pol = &randPolicy{r: r, quote: []byte{'\'', '"'}[r.Intn(2)], comma: r.Intn(2) == 0}
		}
		lib := runLib(prog, pol, false)
		src := gen.ExprSource(gen.FullParen(e))
		if !compareRuns(&res, "c05:"+src, prog, lib, mod, true) && i%2 == 1 {
			res.Viols[len(res.Viols)-1].Msg += fmt.Sprintf("; spelled as %q", prog.sources(pol)["main"])
		}
		res.AddObs("exec_steps", lib.exSteps)
		res.AddObs("callbacks_observed", int64(len(lib.calls)))
		if mod.err != nil {
			res.AddClass("error")
		} else {
			res.AddClass("value")
		}
		var sb strings.Builder
		depth := exprShape(e, &sb, 0)
		if depth >= 2 || len(mod.calls) > 0 {
			res.Sigs = append(res.Sigs, sb.String())
		}
		return
	}
	res.AddClass("no-in-region-candidate")
	return
}

func (p *c05) Rule() string {
	return fmt.Sprintf("cases: exhaustive depth-1 table (%d binary operators x 28x28 operand forms, 3 unary operators, conditional) filtered by the reference model's agreement region, plus seeded typed random expression trees (depth<=4 quick, <=6 thorough) over literals, context variables carried by different Go numeric types, arrays, single-entry hashes, interpolation, attribute access and recording functions/filters/tests; every third random tree is evaluated three times in one execution (in a loop that re-assigns n1, s1, pat and t), so that its nodes are re-evaluated under other values; every tree is spelled fully parenthesised (odd cases with random white space, quotes and trailing commas between the tokens), rendered through a recording core environment and compared with the reference evaluator on printed value, error-or-not and the exact callback log (name, argument values in order, piped value first, template name). Plus l..r for every ordered pair of 12 bounds (negative, zero, integral, fractional; ascending and descending) against the invariants of an inclusive range. Trees the model refuses (outside the agreement region: zero divisors, non-dyadic quotients, |result|>=10^6, mixed-type equality, negative numbers or \"0\" in boolean context, string haystacks) are regenerated. Non-trivial = depth>=2 or >=1 callback; distinct = expression shape with operators, variable names and literal classes.", len(c05BinOps))
}

func (p *c05) Assumptions() []string {
	return []string{
		"the reference evaluator encodes the documented semantics (numbers are float64, % truncates and takes the dividend's sign, // floors, == compares coerced values, and/or/not use boolean coercion)",
		"ranges with a fractional bound are held to the invariants of an inclusive range only (start at the left bound, unit steps towards the right bound, never beyond it, maximal), not to an element list",
		"callbacks never sit in the right operand of and/or (stick evaluates it eagerly, Twig lazily)",
	}
}

func (p *c05) Floors(tier string) map[string]int64 {
	return map[string]int64{"exec_steps": 10000, "callbacks_observed": 1000, "distinct_nontrivial": 2000}
}
