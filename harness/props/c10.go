package props

import (
	"fmt"
	"reflect"
	"strings"

	"github.com/tyler-sommer/stick"

	"verifharness/fw"
	"verifharness/gen"
)

// C10 — include and embed render the target with the right variables, in isolation.
type c10 struct {
	base
	nEnum, nRand int
}

func init() { fw.Register("C10", func() fw.Property { return &c10{} }) }

func (p *c10) ID() string       { return "C10" }
func (p *c10) Exhaustive() bool { return true }

var (
	c10Kinds   = []string{"include", "embed"}
	c10Modes   = []string{"plain", "with", "only", "with+only", "with-override", "with-variable+only", "with-variable", "with-conditional", "with-conditional+only", "name-expression-that-assigns", "with-hash-that-assigns", "with-special-keys", "with-keyword-keys", "with-keyword-keys+only"}
	c10Sites   = []string{"top", "loop", "block-of-extending-host", "macro", "if", "host-block-same-name"}
	c10Targets = []string{"plain", "sets-colliding", "sets-fresh", "extends-base", "extends-base-sets", "blocks-from-use-only"}
	c10Pool    = []string{"x", "y", "w", "z", "_context", "_charset", "type", "for"}
)

const c10OverSubsets = 4

func (p *c10) Init(tier string, seed int64) {
	p.tier, p.seed = tier, seed
	p.nEnum = len(c10Kinds) * len(c10Modes) * len(c10Sites) * len(c10Targets) * c10OverSubsets * 2
	p.nRand = p.pick(3000, 200000)
}

func (p *c10) N() int { return p.nEnum + p.nRand + c10nSelf + c10nOdd + c10nNest }

// c10nNest: an embed inside an override of an embed (two and three deep), with further overrides of the outer embed
// after it and a block of the host after the whole: every override belongs to the embed whose body it stands in.
const c10nNest = 3

func (p *c10) buildNest(j int) (*Program, string) {
	blk := func(n string, body ...gen.Node) *gen.NBlock { return &gen.NBlock{Name: n, Body: body} }
	inner := &gen.NEmbed{Tpl: str("tgt2"), Blocks: []*gen.NBlock{blk("ta", tx("inner-ta"))}}
	if j >= 1 {
		inner.Blocks = append(inner.Blocks, blk("tb", tx("inner-tb("), &gen.NEmbed{Tpl: str("tgt"), Blocks: []*gen.NBlock{blk("bb", tx("deep-bb"))}}, tx(")")))
	}
	outer := &gen.NEmbed{Tpl: str("tgt"), Blocks: []*gen.NBlock{blk("ba", tx("[ov-ba "), inner, tx("]")), blk("bb", tx("ov-bb"), pr(&gen.EParent{}))}}
	host := []gen.Node{tx("H("), outer, tx("|"), blk("hostblock", tx("host")), tx("|"), &gen.NEmbed{Tpl: str("tgt2"), Blocks: []*gen.NBlock{blk("tb", tx("second-tb"))}}, tx(")")}
	if j == 2 {
		host = []gen.Node{tx("H("), blk("wrap", tx("w["), outer, tx("]")), tx("|"), &gen.NEmbed{Tpl: str("tgt"), Blocks: []*gen.NBlock{blk("ba", tx("last-ba"))}}, tx(")")}
	}
	ts := map[string]*gen.Template{"main": tpl("main", host...),
		"tgt":  tpl("tgt", tx("T("), blk("ba", tx("ba0")), tx("/"), blk("bb", tx("bb0")), tx(")")),
		"tgt2": tpl("tgt2", tx("T2("), blk("ta", tx("ta0")), tx("/"), blk("tb", tx("tb0")), tx(")"))}
	return &Program{Templates: ts, Main: "main", Ctx: map[string]interface{}{}}, fmt.Sprintf("nested-embeds/%d", j)
}

// c10nOdd: with-values that are no hash (a list, a number, a string, a boolean). What the target then sees is not
// claimed - but the construct is over when it is over: the names visible after it are the names visible before it,
// wherever it stands (macro body, loop body, condition), and the execution ends the way it began.
const c10nOdd = 5 * 3 * 4

func (p *c10) buildOdd(j int) (*Program, string) {
	withs := []func() gen.Expr{
		func() gen.Expr { return &gen.EArr{} }, func() gen.Expr { return num(5) }, func() gen.Expr { return str("text") },
		func() gen.Expr { return &gen.EBool{V: true} }, func() gen.Expr { return &gen.EArr{Els: []gen.Expr{num(1), num(2)}} }}
	w, site, form := withs[j%5], (j/5)%3, j/15
	var cons gen.Node
	if form < 2 {
		cons = &gen.NInclude{Tpl: str("tgt"), With: w(), Only: form == 1}
	} else {
		cons = &gen.NEmbed{Tpl: str("tgt"), With: w(), Only: form == 3, Blocks: []*gen.NBlock{{Name: "tb", Body: []gen.Node{tx("over")}}}}
	}
	names := func() gen.Node { return pr(&gen.ECall{Fn: "names"}) }
	var host []gen.Node
	switch site {
	case 0:
		host = []gen.Node{&gen.NMacro{Name: "m", Params: []string{"mp", "mq"}, Body: []gen.Node{tx("("), cons, tx(")")}}, names(), tx("|"),
			pr(&gen.EMethod{X: nm("_self"), Name: "m", Args: []gen.Expr{num(1), num(2)}}), tx("|"), names()}
	case 1:
		host = []gen.Node{names(), tx("|"), &gen.NFor{Key: "lk", Val: "lv", Seq: &gen.EArr{Els: []gen.Expr{num(1), num(2)}}, Body: []gen.Node{tx("("), cons, tx(")")}}, tx("|"), names()}
	default:
		host = []gen.Node{names(), tx("|"), &gen.NIf{Conds: []gen.Expr{&gen.EBool{V: true}}, Bodies: [][]gen.Node{{tx("("), cons, tx(")")}}}, tx("|"), names()}
	}
	ts := map[string]*gen.Template{"main": tpl("main", host...), "tgt": tpl("tgt", tx("T:"), &gen.NBlock{Name: "tb", Body: []gen.Node{tx("tb")}}, &gen.NSet{Name: "fresh", X: num(1)})}
	return &Program{Templates: ts, Main: "main", Ctx: map[string]interface{}{"x": "hx", "y": "hy"}}, fmt.Sprintf("odd-with/%d/site=%d/form=%d", j%5, site, form)
}

func (p *c10) runOdd(res *fw.Result, j int) {
	prog, sig := p.buildOdd(j)
	lib := runLib(prog, gen.Canon{}, false)
	res.Evals++
	res.AddClass("with-value-is-no-hash")
	switch {
	case lib.pan != nil:
		res.Fail("panic", "c10:"+sig, fmt.Sprintf("Execute panicked: %v", lib.pan), prog.describe())
	case lib.endBad != "":
		res.Fail("exec-end-invariant", "c10:"+sig, lib.endBad, prog.describe())
	case lib.err == nil:
		parts := strings.Split(lib.out, "|")
		if len(parts) != 3 || parts[0] != parts[2] {
			res.Fail("names-leaked", "c10:"+sig, fmt.Sprintf("the names visible before and after the construct differ: output %q", lib.out), prog.describe())
		}
	}
	res.UniqueNT = 1
}

func c10probe(tag string) []gen.Node {
	args := make([]gen.Expr, len(c10Pool))
	for i, n := range c10Pool {
		args[i] = str(n)
	}
	return []gen.Node{tx("[" + tag + ":"), pr(&gen.ECall{Fn: "probe", Args: args}), tx("|"), pr(&gen.ECall{Fn: "names"}), tx("]")}
}

type c10cfg struct {
	kind, mode, site, target, over, twice int
}

func (c c10cfg) String() string {
	return fmt.Sprintf("%s/%s/%s/%s/over=%d/twice=%d", c10Kinds[c.kind], c10Modes[c.mode], c10Sites[c.site], c10Targets[c.target], c.over, c.twice)
}

// target builds the included/embedded template (and its base, if it extends one).
func c10target(ts map[string]*gen.Template, name string, target int, callHost bool) {
	sets := func() []gen.Node {
		switch target {
		case 1:
			return append([]gen.Node{&gen.NSet{Name: "x", X: str("tx")}, &gen.NSet{Name: "w", X: str("tw")}}, c10probe(name+".afterset")...)
		case 2:
			return append([]gen.Node{&gen.NSet{Name: "z", X: str("tz")}}, c10probe(name+".afterset")...)
		}
		return nil
	}
	blk := func(bn, tag string, extra ...gen.Node) *gen.NBlock {
		b := append(c10probe(tag), extra...)
		return &gen.NBlock{Name: bn, Body: append([]gen.Node{tx("{" + tag + "}")}, b...)}
	}
	switch target {
	case 5:
		// no block of its own, no parent: the blocks come from a library and are printed through block(); the
		// overrides of an embed rank above them all the same
		ts[name+"lib"] = tpl(name+"lib", blk("ba", name+"lib.ba"), blk("bb", name+"lib.bb"))
		body := []gen.Node{&gen.NUse{Tpl: str(name + "lib")}, tx("T(")}
		body = append(body, c10probe(name+".top")...)
		body = append(body, pr(&gen.EBlockFn{Name: str("ba")}), tx("/"), pr(&gen.EBlockFn{Name: str("bb")}), tx(")"))
		ts[name] = tpl(name, body...)
	case 3, 4:
		var in []gen.Node
		if target == 4 {
			in = []gen.Node{&gen.NSet{Name: "x", X: str("tx")}, &gen.NSet{Name: "z", X: str("tz")}}
		}
		ts[name] = tpl(name, &gen.NExtends{Tpl: str(name + "base")}, blk("ba", name+".ba", in...))
		ts[name+"base"] = tpl(name+"base", append(append([]gen.Node{tx("TB(")}, c10probe(name+"base.top")...),
			blk("ba", name+"base.ba"), tx("/"), blk("bb", name+"base.bb"), tx(")"))...)
	default:
		// the target defines a macro of its own and calls it through _self, however it was entered
		body := []gen.Node{&gen.NMacro{Name: "tm", Params: []string{"p"}, Body: []gen.Node{tx("<tm:"), pr(nm("p")), tx(">")}}, tx("T(")}
		body = append(body, pr(&gen.EMethod{X: nm("_self"), Name: "tm", Args: []gen.Expr{str(name)}}))
		body = append(body, c10probe(name+".top")...)
		body = append(body, sets()...)
		body = append(body, blk("ba", name+".ba"), tx("/"), blk("bb", name+".bb"), tx(")"))
		if callHost {
			// the last thing the target does: a macro of the host, reached through the alias the host passed on,
			// assigns to x, y and z while it runs for the target. Whatever that does to the target's variables (a
			// macro writing to its caller's variables is not claimed either way, so the target does not look),
			// the host's variables stay what they are
			body = append(body, tx("(hm:"), pr(&gen.EMethod{X: nm("hm"), Name: "hm1"}), tx(")"))
		}
		ts[name] = tpl(name, body...)
	}
}

var c10KeywordKeys = []string{"type", "for", "range", "default", "map", "package", "select", "case", "var", "if", "import", "func", "go", "chan", "const", "defer", "else", "break", "continue", "fallthrough", "goto",
	"interface", "return", "struct", "switch", "block", "parent", "loop", "in", "is", "only", "not", "and", "true", "null", "é1", "a b", "1", "0x", "-", "", "a.b", "Type", "nil", "iota", "_"}

func c10construct(c c10cfg, tplName string, over int, tag string) gen.Node {
	var with gen.Expr
	only := false
	switch c.mode {
	case 1:
		with = &gen.EHash{Keys: []gen.Expr{nm("w")}, Vals: []gen.Expr{str("ww-" + tag)}}
	case 2:
		only = true
	case 3:
		with = &gen.EHash{Keys: []gen.Expr{nm("w")}, Vals: []gen.Expr{str("ww-" + tag)}}
		only = true
	case 4:
		with = &gen.EHash{Keys: []gen.Expr{nm("x")}, Vals: []gen.Expr{str("wx-" + tag)}}
	case 5:
		with = nm("vars") // an existing hash, not a literal: the target must get a copy
		only = true
	case 6:
		with = nm("vars")
	case 7, 8:
		// the hash is chosen by a conditional written without parentheses
		with = &gen.ETern{C: &gen.EBin{Op: "==", L: nm("x"), R: str("hx")}, A: &gen.EHash{Keys: []gen.Expr{nm("w")}, Vals: []gen.Expr{str("cw-" + tag)}}, B: &gen.EHash{Keys: []gen.Expr{nm("w")}, Vals: []gen.Expr{str("other")}}}
		only = c.mode == 8
	}
	var name gen.Expr = str(tplName)
	switch c.mode {
	case 9:
		// the expression that names the template assigns (a callback using its context): the target is handed the
		// variables as they are when it starts, not as they were when the tag began
		// (the name itself comes out of a recorded callback: it is asked for once)
		name = &gen.EBin{Op: "~", L: &gen.ECall{Fn: "setvar", Args: []gen.Expr{str("z"), str("set-by-name-" + tag)}}, R: &gen.ECall{Fn: "ident", Args: []gen.Expr{str(tplName)}}}
	case 11:
		// names that mean something in other dialects are keys like any other (only _self is special here)
		with = &gen.EHash{Keys: []gen.Expr{nm("w"), str("_context"), str("_charset"), str("_key")}, Vals: []gen.Expr{str("ww-" + tag), str("ctx-" + tag), str("cs-" + tag), str("key-" + tag)}}
	case 12, 13:
		// a key is a string like any other: words that are reserved somewhere else (in Go, in Twig), words with blanks,
		// digits, non-ASCII letters, the empty word - each one is a variable of the target (the host has a type of its own)
		h := &gen.EHash{Keys: []gen.Expr{nm("w")}, Vals: []gen.Expr{str("ww-" + tag)}}
		for _, k := range c10KeywordKeys {
			h.Keys = append(h.Keys, str(k))
			h.Vals = append(h.Vals, str("kw-"+k+"-"+tag))
		}
		with = h
		only = c.mode == 13
	case 10:
		with = &gen.EHash{Keys: []gen.Expr{nm("w")}, Vals: []gen.Expr{&gen.EBin{Op: "~", L: &gen.ECall{Fn: "setvar", Args: []gen.Expr{str("x"), str("set-by-with-" + tag)}}, R: str("ww-" + tag)}}}
	}
	if c.kind == 0 {
		return &gen.NInclude{Tpl: name, With: with, Only: only}
	}
	e := &gen.NEmbed{Tpl: name, With: with, Only: only}
	if over&1 != 0 {
		ov := append([]gen.Node{tx("{OV-ba-" + tag + "}")}, c10probe("ov.ba")...)
		if c.target%2 == 0 {
			// a block of its own nested in the override: it belongs to this embed like the override does
			ov = append(ov, &gen.NBlock{Name: "bn" + tag, Body: []gen.Node{tx("{NESTED-in-ov-" + tag + "}")}})
		}
		e.Blocks = append(e.Blocks, &gen.NBlock{Name: "ba", Body: ov})
	}
	if over&2 != 0 {
		e.Blocks = append(e.Blocks, &gen.NBlock{Name: "bb", Body: append(append([]gen.Node{tx("{OV-bb-" + tag + "}^(")}, pr(&gen.EParent{})), tx(")"))})
	}
	return e
}

func (p *c10) buildCfg(c c10cfg) *Program {
	ts := map[string]*gen.Template{}
	// the host's import alias reaches the target when the host has one (not in sites 2 and 3) and the construct
	// passes the host's variables on (no 'only')
	callHost := c.site != 2 && c.site != 3 && (c.mode == 0 || c.mode == 1 || c.mode == 4 || c.mode == 6 || c.mode == 7 || c.mode == 9 || c.mode == 10 || c.mode == 11 || c.mode == 12)
	c10target(ts, "tgt", c.target, callHost)
	var site []gen.Node
	site = append(site, c10construct(c, "tgt", c.over, "1"))
	if c.twice == 1 {
		// a second time with the complementary override subset: must not be affected by the first
		site = append(site, tx("~"), c10construct(c, "tgt", 3-c.over, "2"))
	}
	site = append(site, c10probe("after")...)
	if c.mode >= 5 {
		// the host's hash must be untouched by what the target assigned
		site = append(site, tx("{vars:"), pr(attr(nm("vars"), "w")), tx(","), pr(attr(nm("vars"), "x")), tx(","), pr(attr(nm("vars"), "z")), tx("}"))
	}
	pre := []gen.Node{&gen.NSet{Name: "x", X: str("hx")}, &gen.NSet{Name: "y", X: str("hy")}}
	if c.site != 2 && c.site != 3 {
		// the host has an import alias in scope: it is a variable like the others (passed on, or not under only)
		ts["hmac"] = tpl("hmac", &gen.NMacro{Name: "hm1", Body: []gen.Node{tx("HM"), &gen.NSet{Name: "x", X: str("hm-x")}, &gen.NSet{Name: "y", X: str("hm-y")}, &gen.NSet{Name: "z", X: str("hm-z")}}})
		pre = append(pre, &gen.NImport{Tpl: str("hmac"), Alias: "hm"})
	}
	var body []gen.Node
	switch c.site {
	case 0:
		body = append(append(pre, tx("H(")), append(site, tx(")"))...)
	case 1:
		// the loop variable shadows the host's y, in the second iteration with null; directly after the loop the
		// construct is used once more, where the host's own y is visible again
		loop := &gen.NFor{Val: "y", Seq: &gen.EArr{Els: []gen.Expr{str("l1"), &gen.ENull{}}}, Body: site}
		body = append(append(pre, tx("H(")), loop, c10construct(c, "tgt", c.over, "3"), tx(")"))
		body = append(body, c10probe("afterloop")...)
	case 2:
		// the host extends hbase, which has blocks named like the target's
		ts["hbase"] = tpl("hbase", tx("HB("), &gen.NBlock{Name: "ba", Body: []gen.Node{tx("hbase-ba")}}, tx("/"), &gen.NBlock{Name: "bb", Body: []gen.Node{tx("hbase-bb")}}, tx("/"),
			&gen.NBlock{Name: "site", Body: []gen.Node{tx("hbase-site")}}, tx(")"))
		body = []gen.Node{&gen.NExtends{Tpl: str("hbase")}, &gen.NBlock{Name: "ba", Body: []gen.Node{tx("HOST-ba")}},
			&gen.NBlock{Name: "site", Body: append(pre, site...)}}
	case 3:
		// inside a macro body; only the with/only forms are comparable (macro bodies must not look at outer variables)
		mbody := append([]gen.Node{tx("M(")}, site[:len(site)-len(c10probe(""))]...)
		mbody = append(mbody, tx(")"))
		m := &gen.NMacro{Name: "mac", Params: []string{"x"}, Body: mbody}
		body = append([]gen.Node{m}, pre...)
		body = append(body, tx("H("), pr(&gen.EMethod{X: nm("_self"), Name: "mac", Args: []gen.Expr{str("px")}}), tx(")"))
		body = append(body, c10probe("aftermacro")...)
	case 4:
		body = append(append(pre, tx("H(")), &gen.NIf{Conds: []gen.Expr{&gen.EBool{V: true}}, Bodies: [][]gen.Node{site}}, tx(")"))
		body = append(body, c10probe("afterif")...)
	case 5:
		// non-extending host that itself defines blocks named like the target's, one of them containing the construct
		body = append(pre, tx("H("), &gen.NBlock{Name: "bb", Body: []gen.Node{tx("HOSTBB")}}, &gen.NBlock{Name: "ba", Body: append([]gen.Node{tx("HOSTBA(")}, append(site, tx(")"))...)}, tx(")"))
	}
	ts["main"] = tpl("main", body...)
	prog := &Program{Templates: ts, Main: "main", Ctx: map[string]interface{}{"w": "ctxw", "type": "ctx-type", "vars": c10vars(c.over + c.target + c.site)}}
	if style := (c.over + 2*c.twice + 3*c.target + 5*c.site + 7*c.mode) % 5; style == 4 {
		// a backslash is a character of a name like any other: "rows\\tgt" is not "rows/tgt" (which exists and says DECOY)
		names := map[string]string{}
		for n := range ts {
			if n != "main" {
				names[n] = "rows\\" + n
			}
		}
		renameTemplates(prog, func(n string) string {
			if m, ok := names[n]; ok {
				return m
			}
			return n
		})
		for n := range names {
			for _, decoy := range []string{"rows/" + n, n, "rows/" + n + ".twig"} {
				if _, taken := prog.Templates[decoy]; !taken {
					prog.Templates[decoy] = tpl(decoy, tx("DECOY:"+decoy))
				}
			}
		}
	} else if style != 0 {
		// names are keys: the host lives in a "directory" and names its targets with "./" and "../" (or the
		// other way round), and templates that a resolution against the host's directory would find exist
		// and say DECOY
		names := map[string]string{}
		for n := range ts {
			switch {
			case n == "main":
				names[n] = []string{"", "pages/main", "pages/sub/main.twig", "main"}[style]
			case style == 3:
				names[n] = "lib/" + n
			case len(n)%2 == 0:
				names[n] = "./" + n
			default:
				names[n] = "../" + n
			}
		}
		renameTemplates(prog, func(n string) string {
			if m, ok := names[n]; ok {
				return m
			}
			return n
		})
		for n, m := range names {
			if n == "main" {
				continue
			}
			for _, decoy := range []string{"pages/" + n, "pages/sub/" + n, "pages/" + m, "pages/sub/" + m, "lib/" + m, n, strings.TrimPrefix(strings.TrimPrefix(m, "./"), "../")} {
				if _, taken := prog.Templates[decoy]; !taken {
					prog.Templates[decoy] = tpl(decoy, tx("DECOY:"+decoy))
				}
			}
		}
	}
	return prog
}

// c10vars is the hash the host hands over through a variable: a Go map of one type or another (a context
// variable is rarely a map[string]stick.Value), always with the same two entries.
func c10vars(k int) interface{} {
	switch k % 6 {
	case 4: // what a YAML or JSON decoder produces
		return map[interface{}]interface{}{"w": "varsw", "x": "varsx"}
	case 5:
		return &map[string]stick.Value{"w": "varsw", "x": "varsx"}
	case 0:
		return map[string]stick.Value{"w": "varsw", "x": "varsx"}
	case 1:
		return map[string]interface{}{"w": "varsw", "x": "varsx"}
	case 2:
		return map[string]string{"w": "varsw", "x": "varsx"}
	}
	return map[gen.KeyStr]string{"w": "varsw", "x": "varsx"}
}

func (p *c10) cfgAt(i int) c10cfg {
	var c c10cfg
	c.twice = i % 2
	i /= 2
	c.over = i % c10OverSubsets
	i /= c10OverSubsets
	c.target = i % len(c10Targets)
	i /= len(c10Targets)
	c.site = i % len(c10Sites)
	i /= len(c10Sites)
	c.mode = i % len(c10Modes)
	i /= len(c10Modes)
	c.kind = i % len(c10Kinds)
	return c
}

// c10nSelf: templates that include or embed themselves a finite number of times.
const c10nSelf = 12

// buildSelf: terminating self-inclusion - a counter handed down through the with-hash (with and without only), a
// tree rendered by a template that includes itself for every child, two templates including each other, a
// template included by an override of its own embed, and a template that includes itself exactly once.
func (p *c10) buildSelf(j int) (*Program, string) {
	ts := map[string]*gen.Template{}
	lt := func(l, r gen.Expr) gen.Expr { return &gen.EBin{Op: ">", L: l, R: r} }
	minus1 := func(n string) gen.Expr { return &gen.EBin{Op: "-", L: nm(n), R: num(1)} }
	hash1 := func(k string, v gen.Expr) gen.Expr { return &gen.EHash{Keys: []gen.Expr{nm(k)}, Vals: []gen.Expr{v}} }
	ctx := map[string]interface{}{"w": "ctxw"}
	var main []gen.Node
	kind := j % 6
	only := j >= 6
	switch kind {
	case 0: // counter
		ts["rec"] = tpl("rec", tx("R"), pr(nm("n")), tx("("), &gen.NIf{Conds: []gen.Expr{lt(nm("n"), num(0))}, Bodies: [][]gen.Node{{&gen.NInclude{Tpl: str("rec"), With: hash1("n", minus1("n")), Only: only}}}}, tx(")"), pr(nm("n")))
		main = []gen.Node{&gen.NInclude{Tpl: str("rec"), With: hash1("n", num(4)), Only: only}, tx("|"), &gen.NInclude{Tpl: str("rec"), With: hash1("n", num(0))}}
	case 1: // tree
		leaf := func(n string) map[string]interface{} {
			return map[string]interface{}{"name": n, "kids": []interface{}{}}
		}
		ctx["root"] = map[string]interface{}{"name": "r", "kids": []interface{}{
			map[string]interface{}{"name": "a", "kids": []interface{}{leaf("a1"), leaf("a2")}}, leaf("b"),
			map[string]interface{}{"name": "c", "kids": []interface{}{map[string]interface{}{"name": "c1", "kids": []interface{}{leaf("c11")}}}}}}
		ts["tree"] = tpl("tree", tx("<"), pr(attr(nm("node"), "name")), &gen.NFor{Val: "k", Seq: attr(nm("node"), "kids"), Body: []gen.Node{tx(" "), &gen.NInclude{Tpl: str("tree"), With: hash1("node", nm("k")), Only: only}}}, tx(">"))
		main = []gen.Node{&gen.NInclude{Tpl: str("tree"), With: hash1("node", nm("root")), Only: only}}
	case 2: // two templates including each other
		ts["ping"] = tpl("ping", tx("pi"), pr(nm("n")), &gen.NIf{Conds: []gen.Expr{lt(nm("n"), num(0))}, Bodies: [][]gen.Node{{&gen.NInclude{Tpl: str("pong"), With: hash1("n", minus1("n")), Only: only}}}}, tx("."))
		ts["pong"] = tpl("pong", tx("po"), pr(nm("n")), &gen.NIf{Conds: []gen.Expr{lt(nm("n"), num(0))}, Bodies: [][]gen.Node{{&gen.NEmbed{Tpl: str("ping"), With: hash1("n", minus1("n")), Only: only}}}}, tx(","))
		main = []gen.Node{&gen.NInclude{Tpl: str("ping"), With: hash1("n", num(5)), Only: only}}
	case 3: // the override of an embed includes the template that holds the embed
		ts["lay"] = tpl("lay", tx("L["), &gen.NBlock{Name: "eb", Body: []gen.Node{tx("lay-eb")}}, tx("]"))
		ts["host"] = tpl("host", tx("H"), pr(nm("d")), tx("(:"), &gen.NIf{Conds: []gen.Expr{lt(nm("d"), num(0))}, Bodies: [][]gen.Node{{
			&gen.NEmbed{Tpl: str("lay"), Blocks: []*gen.NBlock{{Name: "eb", Body: []gen.Node{tx("ov("), &gen.NInclude{Tpl: str("host"), With: hash1("d", minus1("d")), Only: only}, tx(")")}}}}}}}, tx(":)"))
		main = []gen.Node{&gen.NInclude{Tpl: str("host"), With: hash1("d", num(2)), Only: only}}
	case 5: // a callback renders the template again: a re-entrant Execute with a copy of everything visible
		ts["rr"] = tpl("rr", tx("R"), pr(nm("n")), tx("("), &gen.NIf{Conds: []gen.Expr{lt(nm("n"), num(0))}, Bodies: [][]gen.Node{{&gen.NSet{Name: "n", X: minus1("n")}, &gen.NSet{Name: "mine", X: nm("n")},
			pr(&gen.ECall{Fn: "render", Args: []gen.Expr{str("rr")}}), tx("/"), pr(nm("n")), pr(nm("mine"))}}}, tx(")"))
		main = []gen.Node{&gen.NSet{Name: "n", X: num(3)}, pr(&gen.ECall{Fn: "render", Args: []gen.Expr{str("rr")}}), tx("|"), &gen.NInclude{Tpl: str("rr"), With: hash1("n", num(2)), Only: only}, tx("|"), pr(nm("n")), pr(nm("mine")),
			tx("|"), pr(&gen.ECall{Fn: "render", Args: []gen.Expr{str("nosuchtemplate")}}), tx("|"), &gen.NSetCap{Name: "c", Body: []gen.Node{pr(&gen.ECall{Fn: "render", Args: []gen.Expr{str("rr")}})}}, pr(nm("c"))}
	default: // exactly once, decided by a variable the first pass sets for the second
		ts["once"] = tpl("once", tx("O("), &gen.NIf{Conds: []gen.Expr{&gen.EUn{Op: "not", X: nm("again")}}, Bodies: [][]gen.Node{{&gen.NInclude{Tpl: str("once"), With: hash1("again", &gen.EBool{V: true}), Only: only}}}, HasElse: true, Else: []gen.Node{tx("second")}}, tx(")"))
		main = []gen.Node{&gen.NSet{Name: "again", X: &gen.EBool{V: false}}, &gen.NInclude{Tpl: str("once")}, tx("|"), &gen.NEmbed{Tpl: str("once")}}
	}
	ts["main"] = tpl("main", append(append([]gen.Node{tx("M(")}, main...), tx(")"))...)
	return &Program{Templates: ts, Main: "main", Ctx: ctx}, fmt.Sprintf("self/%d/only=%v", kind, only)
}

func (p *c10) build(i int) (*Program, string, bool) {
	if i >= p.nEnum+p.nRand {
		prog, sig := p.buildSelf(i - p.nEnum - p.nRand)
		return prog, sig, true
	}
	if i < p.nEnum {
		c := p.cfgAt(i)
		if c.site == 3 && c.mode != 2 && c.mode != 3 {
			c.mode = 2 + c.mode%2
		}
		if c.site == 3 && c.mode >= 5 {
			c.mode = 3
		}
		if c.target == 5 && c.kind == 0 {
			c.target = 0 // (a template that gets its blocks from use alone is only comparable when it is embedded)
		}
		collision := c.target == 1 || c.target == 4 || c.site == 2 || c.site == 5 || c.mode == 4 || c.site == 1
		return p.buildCfg(c), c.String(), collision
	}
	// random: include-in-embed-in-include chains
	r := gen.Rng(p.seed, "c10", i)
	c := c10cfg{kind: r.Intn(2), mode: r.Intn(9), site: []int{0, 1, 2, 4, 5}[r.Intn(5)], target: r.Intn(5), over: r.Intn(4), twice: r.Intn(2)}
	prog := p.buildCfg(c)
	// the target's ba block gets a nested construct pointing at a second target
	c2 := c10cfg{kind: r.Intn(2), mode: r.Intn(7), target: r.Intn(3), over: r.Intn(4)}
	c10target(prog.Templates, "tgt2", c2.target, false)
	inner := []gen.Node{tx("N("), c10construct(c2, "tgt2", c2.over, "n"), tx(")")}
	inner = append(inner, c10probe("tgt.afternested")...)
	t := prog.Templates["tgt"]
	for _, n := range t.Body {
		if b, ok := n.(*gen.NBlock); ok && b.Name == "ba" {
			b.Body = append(b.Body, inner...)
		}
	}
	if c2.kind == 1 && r.Intn(2) == 0 {
		// third level inside the nested embed's override
		c3 := c10cfg{kind: 0, mode: r.Intn(5)}
		c10target(prog.Templates, "tgt3", 1, false)
		for _, n := range inner {
			if e, ok := n.(*gen.NEmbed); ok && len(e.Blocks) > 0 {
				e.Blocks[0].Body = append(e.Blocks[0].Body, c10construct(c3, "tgt3", 0, "d"))
			}
		}
	}
	return prog, "rand:" + c.String() + "+" + c2.String(), true
}

func (p *c10) Describe(i int) interface{} {
	if i >= p.nEnum+p.nRand+c10nSelf+c10nOdd {
		prog, sig := p.buildNest(i - (p.nEnum + p.nRand + c10nSelf + c10nOdd))
		d := prog.describe()
		d["coordinates"] = sig
		return d
	}
	if i >= p.nEnum+p.nRand+c10nSelf {
		prog, sig := p.buildOdd(i - (p.nEnum + p.nRand + c10nSelf))
		d := prog.describe()
		d["coordinates"] = sig
		return d
	}
	prog, sig, _ := p.build(i)
	d := prog.describe()
	d["coordinates"] = sig
	return d
}

func (p *c10) Run(i int) (res fw.Result) {
	if i >= p.nEnum+p.nRand+c10nSelf+c10nOdd {
		prog, sig := p.buildNest(i - (p.nEnum + p.nRand + c10nSelf + c10nOdd))
		if _, _, ok := modelCase(&res, "c10:"+sig, prog, gen.Canon{}, true); !ok {
			res.Fail("harness", "c10:oor:"+sig, "case left the model's region ("+lastLayout+")", prog.describe())
		}
		res.AddClass("nested-embeds")
		res.UniqueNT = 1
		return
	}
	if i >= p.nEnum+p.nRand+c10nSelf {
		p.runOdd(&res, i-(p.nEnum+p.nRand+c10nSelf))
		return
	}
	prog, sig, nt := p.build(i)
	lib, _, ok := modelCase(&res, "c10:"+sig, prog, gen.Canon{}, true)
	if !ok {
		res.Fail("harness", "c10:oor:"+sig, "case left the model's region ("+lastLayout+")", prog.describe())
		return
	}
	res.AddObs("probes", int64(strings.Count(lib.out, "[")))
	if v := prog.Ctx["vars"]; v != nil {
		for k := 0; k < 4; k++ {
			if fresh := c10vars(k); reflect.TypeOf(fresh) == reflect.TypeOf(v) && !reflect.DeepEqual(fresh, v) {
				res.Fail("caller-map-changed", "c10:callermap:"+sig, fmt.Sprintf("the hash passed by the caller was modified by the included template: %v", v), prog.describe())
			}
		}
	}
	if nt {
		if i < p.nEnum {
			res.UniqueNT = 1
		} else {
			res.Sigs = append(res.Sigs, sig)
		}
	}
	return
}

func (p *c10) Rule() string {
	return p.ruleBase() + " " + "Round 12: two more modes (with-keyword-keys, with and without only): a with-hash of 47 entries whose keys are Go keywords, Twig words, words with blanks, digits, non-ASCII letters, the empty word; the targets probe the values of type and for and list every name they see, the host has a type of its own."
}

func (p *c10) ruleBase() string {
	return "exhaustive product {include, embed} x {plain, with {w}, only, with+only, with overriding a host variable, with an existing hash variable + only, with an existing hash variable - a Go map of type map[string]Value, map[string]interface{}, map[string]string or keyed by a defined string type} x call site {top level, loop body whose loop variable collides with a host variable (once with a string, once with null; the construct is used again directly after the loop), block of an extending host whose ancestor has blocks named like the target's, macro body, if body, block of a non-extending host that shares both block names} x target {plain, assigns colliding names x and w, assigns a fresh name, extends a base, extends a base and assigns inside a block; the non-extending ones define a macro and call it through _self} x embed override subset (4 subsets of {ba, bb}; bb's override calls parent(); ba's override has a nested block of its own for half of the targets) x {once, twice in a row with the complementary override subset}; random: a second (and third) include/embed nested inside the target's block or an override. Host and target print which of x, y, w, z they see (probe function) at the start, after assignments, inside every block and override, and after the construct. Oracle: reference model (copy of the visible variables overlaid by the with-hash, or the with-hash alone under only; assignments never flow back; embed = exactly the overrides of its body in front of the target's own chain). Non-trivial = a name or block-name collision exists; enumerated coordinates are distinct by construction."
}

func (p *c10) Assumptions() []string {
	return []string{"call sites inside macro bodies use the only forms (macro bodies must not look at outer variables: stick resolves them, Twig does not)"}
}

func (p *c10) Floors(tier string) map[string]int64 {
	return map[string]int64{"probes": 10000, "distinct_nontrivial": 500}
}
