package props

import (
	"bytes"
	"fmt"
	"math/rand"
	"regexp"
	"sort"
	"strings"

	"github.com/tyler-sommer/stick"
	"github.com/tyler-sommer/stick/twig"
	"github.com/tyler-sommer/stick/twig/escape"

	"verifharness/fw"
	"verifharness/gen"
	"verifharness/mon"
)

// C12 — auto-escaping: no unescaped data reaches the output of a Twig environment.
type c12 struct {
	base
	nEnum, nRand, nProg int
	progFilters         []string
}

func init() { fw.Register("C12", func() fw.Property { return &c12{} }) }

func (p *c12) ID() string       { return "C12" }
func (p *c12) Exhaustive() bool { return true }

// template names; "" kinds are inline sources run through the string loader
var c12Names = []string{"t.html", "t.html.twig", "t.js", "t.js.twig", "t.css", "t.txt", "t", "t.twig", "t.xml", "t.foo.twig", "t.url", "t.html_attr",
	"a.b/c", "dir.d/page", "t.HTML", "t.json", "NOTES.TXT", "Widget.JS", "theme.Css.twig", "T.Url", "x.Html_Attr", "Readme.Txt.twig", "t.jS", "page.js.TWIG", "t.txt.twig", "app.min.js", "app.bundle.js.twig", "theme.dark.css", "notes.2024.txt.twig", "v1.2/page", "lib.js/readme",
	// file names with characters that also occur in delimiters: still file names
	"sale-50%.js", "my%20script.js.twig", "theme{dark}.css", "terms-100%.txt", "a{b.js", "c}}d.css", "#notes.txt", "50%{x}.html_attr",
	// path elements that spell an extension are no extension: an extension follows the last dot of the name
	"mail/welcome/txt", "widgets/js", "assets/css/main", "js", "txt", "to/url", "x/html_attr/y", "pages/txt/home.html", "a/js.twig", ".js", "dir/.css", "t.js/", "t.txt/x",
	"twig", ".twig", "twig.twig", "t..twig", "t.", ".", "js.twig",
	"inline:plain", "inline:dot", "inline:dotmid", "inline:ends-txt", "inline:ends-js", "inline:ends-css-twig", "inline:brace-ends-txt", "inline:brace-ends-js", "inline:braces-ends-css", "inline:newlines-ends-js", "inline:newlines-ends-txt"}

var c12Payloads = []string{
	"<script>alert(1)</script>", "' onmouseover='alert(1)", "\"", "&amp; & &lt;", "</style><b>", "a b", "javascript:alert(1)//", "é😀<i>", "plain", "x;y(z)=1/2\\3\n4",
	"<>\"'&", "%3C+~", "{{ 7 }}{% if %}",
}

var c12Wrappers = []string{"plain", "safe-same", "safe-other", "safe-nested-other", "safe-other-with-a-derived-value-safe-for-this-type", "named-int-with-String", "named-bool-with-String", "named-float-with-String", "struct-with-String", "slice-with-String", "map-with-String", "safe-for-no-type", "pointer-to-slice-with-String", "stringer-that-answers-differently-the-second-time", "negative-int", "negative-int64", "negative-float"}

var escFns = map[string]func(string) string{"html": escape.HTML, "html_attr": escape.HTMLAttribute, "js": escape.JS, "css": escape.CSS, "url": escape.URLQueryParam}

// expectedType implements the statement: the escaper registered under the name's
// extension (".twig" stripped) when there is one, nothing for txt, html otherwise.
func expectedType(name string) string {
	if hasOpenDelim(name) {
		return "html" // an inline source (the string loader names a template after its text): no file name, no extension
	}
	n := strings.TrimSuffix(name, ".twig")
	i := strings.LastIndex(n, ".")
	if i < 0 {
		return "html"
	}
	ext := n[i+1:]
	if ext == "txt" {
		return ""
	}
	if _, ok := escFns[ext]; ok {
		return ext
	}
	return "html"
}

type c12site struct {
	id     string
	tpl    string // template whose content type applies
	direct bool   // printed directly: exactness applies
	// value maps the payload to the string that is printed (before escaping); nil = identity
	value func(string) string
	raw   bool // |raw: must come out unchanged
}

type c12construct struct {
	name  string
	multi bool // has a helper template whose extension may differ
	build func(main, helper string) (map[string]string, []c12site)
}

func one(main, src string, sites ...c12site) (map[string]string, []c12site) {
	for i := range sites {
		if sites[i].tpl == "" {
			sites[i].tpl = main
		}
	}
	return map[string]string{main: src}, sites
}

var c12Constructs = []c12construct{
	{"top", false, func(m, h string) (map[string]string, []c12site) {
		return one(m, "a [1:{{ x }}] b", c12site{id: "1", direct: true})
	}},
	{"if", false, func(m, h string) (map[string]string, []c12site) {
		return one(m, "{% if t %}[1:{{ x }}]{% endif %}", c12site{id: "1", direct: true})
	}},
	{"else", false, func(m, h string) (map[string]string, []c12site) {
		return one(m, "{% if f %}a{% else %}[1:{{ x }}]{% endif %}", c12site{id: "1", direct: true})
	}},
	{"elseif", false, func(m, h string) (map[string]string, []c12site) {
		return one(m, "{% if f %}a{% elseif t %}[1:{{ x }}]{% else %}b{% endif %}", c12site{id: "1", direct: true})
	}},
	{"for", false, func(m, h string) (map[string]string, []c12site) {
		return one(m, "{% for i in [1, 2] %}[1:{{ x }}]{% endfor %}", c12site{id: "1", direct: true})
	}},
	{"for-else", false, func(m, h string) (map[string]string, []c12site) {
		return one(m, "{% for i in [] %}a{% else %}[1:{{ x }}]{% endfor %}", c12site{id: "1", direct: true})
	}},
	{"for-if", false, func(m, h string) (map[string]string, []c12site) {
		return one(m, "{% for i in [1, 2] if i > 1 %}[1:{{ x }}]{% endfor %}", c12site{id: "1", direct: true})
	}},
	{"for-value", false, func(m, h string) (map[string]string, []c12site) {
		return one(m, "{% for k, v in arr %}[1:{{ v }}]{% endfor %}", c12site{id: "1", direct: true})
	}},
	{"block", false, func(m, h string) (map[string]string, []c12site) {
		return one(m, "{% block b %}[1:{{ x }}]{% endblock %}", c12site{id: "1", direct: true})
	}},
	{"nested", false, func(m, h string) (map[string]string, []c12site) {
		return one(m, "{% if t %}{% for i in [1] %}{% block b %}{% if t %}[1:{{ x }}]{% endif %}{% endblock %}{% endfor %}{% endif %}", c12site{id: "1", direct: true})
	}},
	{"overridden-block", true, func(m, h string) (map[string]string, []c12site) {
		return map[string]string{
				m: "{% extends '" + h + "' %}{% block b %}[1:{{ x }}]{% endblock %}",
				h: "p [2:{{ x }}] {% block b %}[3:{{ x }}]{% endblock %} [4:{{ x }}]"},
			[]c12site{{id: "1", tpl: m, direct: true}, {id: "2", tpl: h, direct: true}, {id: "4", tpl: h, direct: true}}
	}},
	{"overriding-block-inside-other-statements-of-the-child", true, func(m, h string) (map[string]string, []c12site) {
		return map[string]string{
				m: "{% extends '" + h + "' %}{% if t %}{% block b %}[1:{{ x }}]{% endblock %}{% endif %}{% for i in [1] %}{% block c %}[5:{{ x }}]{% endblock %}{% endfor %}{% filter upper %}{% block d %}[6:{{ x }}]{% endblock %}{% endfilter %}",
				h: "p [2:{{ x }}] {% block b %}[3:{{ x }}]{% endblock %}{% block c %}no{% endblock %}{% block d %}no{% endblock %} [4:{{ x }}]"},
			[]c12site{{id: "1", tpl: m, direct: true}, {id: "5", tpl: m, direct: true}, {id: "6", tpl: m, direct: true}, {id: "2", tpl: h, direct: true}, {id: "4", tpl: h, direct: true}}
	}},
	{"inherited-block", true, func(m, h string) (map[string]string, []c12site) {
		return map[string]string{
				m: "{% extends '" + h + "' %}{% block c %}[1:{{ x }}]{% endblock %}",
				h: "{% block b %}[2:{{ x }}]{% endblock %}{% block c %}no{% endblock %}"},
			[]c12site{{id: "1", tpl: m, direct: true}, {id: "2", tpl: h, direct: true}}
	}},
	{"three-level-chain", true, func(m, h string) (map[string]string, []c12site) {
		return map[string]string{
				m:          "{% extends 'mid.html' %}{% block c %}[1:{{ x }}]{% endblock %}",
				"mid.html": "{% extends '" + h + "' %}{% block b %}[5:{{ x }}]{% endblock %}",
				h:          "{% block b %}no{% endblock %}{% block c %}no{% endblock %}[2:{{ x }}]"},
			[]c12site{{id: "1", tpl: m, direct: true}, {id: "5", tpl: "mid.html", direct: true}, {id: "2", tpl: h, direct: true}}
	}},
	{"parent()", false, func(m, h string) (map[string]string, []c12site) {
		hh := "base-" + strings.ReplaceAll(m, "/", "_")
		return map[string]string{
				m:  "{% extends '" + hh + "' %}{% block b %}[1:{{ x }}]{{ parent() }}{% endblock %}",
				hh: "{% block b %}[3:{{ x }}]{% endblock %}"},
			[]c12site{{id: "1", tpl: m, direct: true}, {id: "3", tpl: m, direct: false}}
	}},
	{"block()", false, func(m, h string) (map[string]string, []c12site) {
		return one(m, "{% block b %}[1:{{ x }}]{% endblock %} and {{ block('b') }}", c12site{id: "1", direct: false})
	}},
	{"include", true, func(m, h string) (map[string]string, []c12site) {
		return map[string]string{m: "[1:{{ x }}]{% include '" + h + "' %}[3:{{ x }}]", h: "i [2:{{ x }}]"},
			[]c12site{{id: "1", tpl: m, direct: true}, {id: "2", tpl: h, direct: true}, {id: "3", tpl: m, direct: true}}
	}},
	{"include-with", true, func(m, h string) (map[string]string, []c12site) {
		return map[string]string{m: "{% include '" + h + "' with {'y': x} only %}", h: "i [2:{{ y }}]"},
			[]c12site{{id: "2", tpl: h, direct: true}}
	}},
	{"embed", true, func(m, h string) (map[string]string, []c12site) {
		return map[string]string{
				m: "{% embed '" + h + "' %}{% block b %}[1:{{ x }}]{% endblock %}{% endembed %}[4:{{ x }}]",
				h: "e [2:{{ x }}]{% block b %}no{% endblock %}{% block c %}[3:{{ x }}]{% endblock %}"},
			[]c12site{{id: "1", tpl: m, direct: true}, {id: "2", tpl: h, direct: true}, {id: "3", tpl: h, direct: true}, {id: "4", tpl: m, direct: true}}
	}},
	{"child-top-level-capture", true, func(m, h string) (map[string]string, []c12site) {
		// whatever a child template does outside its blocks, nothing of it may reach the output unescaped
		return map[string]string{
				m: "{% extends '" + h + "' %}{% set c %}[1:{{ x }}]{% endset %}{% set d = x %}{% block b %}{{ c|raw }}[2:{{ d }}]{% endblock %}",
				h: "p {% block b %}no{% endblock %} q"},
			[]c12site{{id: "1", tpl: m, direct: false}}
	}},
	{"set-capture", false, func(m, h string) (map[string]string, []c12site) {
		return one(m, "{% set c %}[1:{{ x }}]{% endset %}{{ c }}", c12site{id: "1", direct: false})
	}},
	{"set-capture-raw", false, func(m, h string) (map[string]string, []c12site) {
		// the print inside the capture is escaped once; raw then passes the captured markup through
		return one(m, "{% set c %}[1:{{ x }}]{% endset %}{{ c|raw }}[2:{{ x }}]", c12site{id: "1", direct: true}, c12site{id: "2", direct: true})
	}},
	{"capture-in-loop-raw", false, func(m, h string) (map[string]string, []c12site) {
		return one(m, "{% for i in [1, 2] %}{% set c %}{% if t %}[1:{{ x }}]{% endif %}{% endset %}{{ c|raw }}{% endfor %}", c12site{id: "1", direct: true})
	}},
	{"nested-capture-raw", false, func(m, h string) (map[string]string, []c12site) {
		return one(m, "{% set o %}{% set c %}[1:{{ x }}]{% endset %}{{ c|raw }}[2:{{ x }}]{% endset %}{{ o|raw }}", c12site{id: "1", direct: true}, c12site{id: "2", direct: true})
	}},
	{"macro-raw", false, func(m, h string) (map[string]string, []c12site) {
		return one(m, "{% macro mm(v) %}[1:{{ v }}]{% endmacro %}{{ _self.mm(x)|raw }}", c12site{id: "1", direct: true})
	}},
	{"block-fn-raw", false, func(m, h string) (map[string]string, []c12site) {
		return one(m, "{% block b %}[1:{{ x }}]{% endblock %}{{ block('b')|raw }}", c12site{id: "1", direct: true})
	}},
	{"filter-section", false, func(m, h string) (map[string]string, []c12site) {
		return one(m, "{% filter trim %} [1:{{ x }}] {% endfilter %}", c12site{id: "1", direct: false})
	}},
	{"macro", false, func(m, h string) (map[string]string, []c12site) {
		return one(m, "{% macro mm(v) %}[1:{{ v }}]{% endmacro %}{{ _self.mm(x) }}", c12site{id: "1", direct: false})
	}},
	{"macro-import", false, func(m, h string) (map[string]string, []c12site) {
		return map[string]string{m: "{% import 'lib.twig' as l %}{{ l.mm(x) }}", "lib.twig": "{% macro mm(v) %}[1:{{ v }}]{% endmacro %}"}, []c12site{{id: "1", tpl: m, direct: false}}
	}},
	{"ternary", false, func(m, h string) (map[string]string, []c12site) {
		return one(m, "[1:{{ t ? x : 'n' }}][2:{{ f ? 'n' : x }}]", c12site{id: "1", direct: true}, c12site{id: "2", direct: true})
	}},
	{"concat", false, func(m, h string) (map[string]string, []c12site) {
		return one(m, "[1:{{ 'a' ~ x ~ 'b' }}]", c12site{id: "1", direct: true, value: func(p string) string { return "a" + p + "b" }})
	}},
	{"interpolation", false, func(m, h string) (map[string]string, []c12site) {
		return one(m, "[1:{{ \"a#{x}b\" }}]", c12site{id: "1", direct: true, value: func(p string) string { return "a" + p + "b" }})
	}},
	{"via-set", false, func(m, h string) (map[string]string, []c12site) {
		return one(m, "{% set y = x %}[1:{{ y }}]", c12site{id: "1", direct: true})
	}},
	{"attribute", false, func(m, h string) (map[string]string, []c12site) {
		return one(m, "[1:{{ hash.k }}][2:{{ arr[0] }}][3:{{ hash['k'] }}]", c12site{id: "1", direct: true}, c12site{id: "2", direct: true}, c12site{id: "3", direct: true})
	}},
	{"filter-result", false, func(m, h string) (map[string]string, []c12site) {
		return one(m, "[1:{{ x|upper }}][2:{{ u|default(x) }}][3:{{ x|trim }}]",
			c12site{id: "1", direct: true, value: strings.ToUpper}, c12site{id: "2", direct: true}, c12site{id: "3", direct: true, value: strings.TrimSpace})
	}},
	{"payload-as-filter-argument", false, func(m, h string) (map[string]string, []c12site) {
		// the subject is safe, what the filter works in is not: the result is data again
		return one(m, "[1:{{ 'a-N-b'|raw|replace({'N': x}) }}][2:{{ ['a', 'b']|join(x) }}][3:{{ 'a-N-b'|escape|replace({'N': x}) }}][4:{{ u|default(x)|upper }}]",
			c12site{id: "1", direct: true, value: func(p string) string { return "a-" + p + "-b" }}, c12site{id: "2", direct: true, value: func(p string) string { return "a" + p + "b" }},
			c12site{id: "3", direct: true, value: func(p string) string { return "a-" + p + "-b" }}, c12site{id: "4", direct: true, value: strings.ToUpper})
	}},
	{"raw", false, func(m, h string) (map[string]string, []c12site) {
		return one(m, "[1:{{ x|raw }}]", c12site{id: "1", direct: true, raw: true})
	}},
	{"explicit-escape", false, func(m, h string) (map[string]string, []c12site) {
		// an explicit escape for the template's own type never double-escapes: same output as {{ x }}
		t := expectedType(m)
		if t == "" {
			t = "html"
		}
		src := "[1:{{ x|escape('" + t + "') }}][2:{{ x }}]"
		sites := []c12site{{id: "1", direct: true}, {id: "2", direct: true}}
		if expectedType(m) == "html" {
			src += "[3:{{ x|escape }}]"
			sites = append(sites, c12site{id: "3", direct: true})
		}
		if expectedType(m) == "" {
			return one(m, "[2:{{ x }}]", c12site{id: "2", direct: true})
		}
		return one(m, src, sites...)
	}},
	{"explicit-escape-strategy-from-a-variable", false, func(m, h string) (map[string]string, []c12site) {
		// the strategy is data: the template's own type (same output as {{ x }}), and one nobody has registered
		// (whatever the filter does with it, the value is still data in a template of this type)
		if expectedType(m) == "" {
			return one(m, "[2:{{ x }}]", c12site{id: "2", direct: true})
		}
		// ... and what the explicit filter itself returns for the template's own type (seen through raw) is the value
		// escaped once, whichever Go type carries the strategy's name: a string, a defined string type, a Stringer,
		// a string marked safe - and whatever further arguments (a charset, as in other Twig dialects) follow it
		return one(m, "[1:{{ x|escape(own) }}][2:{{ x }}][3:{{ x|escape(strat) }}][4:{{ x|escape(strat)|upper }}][5:{{ x|escape(own)|raw }}][6:{{ x|escape(ownT)|raw }}][7:{{ x|escape(ownS)|raw }}][8:{{ x|escape(own|raw)|raw }}][9:{{ x|escape(own, 'UTF-8') }}][10:{{ x|escape(own, 'UTF-8', 3)|raw }}]",
			c12site{id: "1", direct: true}, c12site{id: "2", direct: true}, c12site{id: "3", direct: false}, c12site{id: "4", direct: false},
			c12site{id: "5", direct: true}, c12site{id: "6", direct: true}, c12site{id: "7", direct: true}, c12site{id: "8", direct: true}, c12site{id: "9", direct: true}, c12site{id: "10", direct: true})
	}},
}

func (p *c12) Init(tier string, seed int64) {
	p.tier, p.seed = tier, seed
	p.nEnum = len(c12Names) * len(c12Constructs) * 2
	p.nRand = p.pick(2000, 200000)
	p.nProg = p.pick(4000, 150000)
	for name := range twig.New(nil).Filters {
		if name != "raw" {
			p.progFilters = append(p.progFilters, name)
		}
	}
	sort.Strings(p.progFilters)
}

func (p *c12) N() int { return p.nEnum + p.nRand + p.nProg + c12nCustom }

// c12ProgContext: every string that can reach a print is a hostile payload.
func c12ProgContext(r *rand.Rand) map[string]stick.Value {
	pl := func() string { return c12Payloads[r.Intn(len(c12Payloads))] }
	th := gen.NewThing()
	th.Name = pl()
	th.Attrs = map[string]stick.Value{"k": pl()}
	arr := []stick.Value{pl(), pl()}
	return map[string]stick.Value{
		"x": pl(), "s": pl(), "es": "", "ns": pl(), "t": true, "f": false, "nul": nil, "n": 3, "z": 0,
		"arr": arr, "parr": &arr, "earr": []stick.Value{}, "vals": []stick.Value{1, pl(), nil},
		"m": map[string]stick.Value{"k": pl()}, "em": map[string]stick.Value{}, "obj": th, "pt": &th,
		"str": gen.ValStringer{S: pl()}, "safeother": stick.NewSafeValue(pl(), "js"), "nested": map[string]stick.Value{"in": map[string]stick.Value{"k": []stick.Value{pl()}}},
	}
}

func (p *c12) program(i int) (map[string]string, map[string]stick.Value) {
	r := gen.Rng(p.seed, "c12prog", i)
	vars := []string{"x", "s", "es", "ns", "t", "f", "nul", "n", "z", "arr", "parr", "earr", "vals", "m", "em", "obj", "pt", "str", "safeother", "nested"}
	g := &gen.ProgGen{R: r, Hostile: false, Inert: true, SingleEntryHashes: true, Vars: vars, IterVars: []string{"arr", "parr", "earr", "vals", "m", "em"}, Filters: p.progFilters, Funcs: []string{"echo"}}
	ts, _ := g.Program()
	return (&Program{Templates: ts, Main: "main"}).sources(gen.Canon{}), c12ProgContext(r)
}

// runProgram: whole-output safety on a random program whose own text is inert.
func (p *c12) runProgram(res *fw.Result, i int) {
	src, ctx := p.program(i)
	env := twig.New(&stick.MemoryLoader{Templates: src})
	env.Functions["echo"] = func(c stick.Context, args ...stick.Value) stick.Value {
		out := ""
		for _, a := range args {
			out += stick.CoerceString(a)
		}
		return out
	}
	var buf bytes.Buffer
	mon.BeginExec()
	var err error
	var pan interface{}
	func() {
		defer func() { pan = recover() }()
		err = env.Execute("main", &buf, ctx)
	}()
	_, _, steps := mon.EndCall()
	res.AddObs("exec_steps", steps)
	res.AddObs("programs_scanned", 1)
	out := buf.String()
	key := fmt.Sprintf("c12:prog:%d:%d", p.seed, i)
	if pan != nil {
		res.AddClass("program/panic(C02)")
		return
	}
	_ = err
	if ok, ch := inertFor("html", out); !ok {
		res.Fail("unsafe-output", key, fmt.Sprintf("output %q contains %q, which is significant in HTML; the templates' own text is inert, so it comes from context data that was printed unescaped", clip(out, 400), ch),
			map[string]interface{}{"templates": src, "context": fmt.Sprintf("%v", ctx["x"])})
	}
	if strings.ContainsAny(out, "&") {
		res.Sigs = append(res.Sigs, key)
	}
	res.AddClass("program/" + okOrErr(err))
}

func c12helper(main string, variant int) string {
	if variant == 0 {
		// same content type as the main template
		switch expectedType(main) {
		case "":
			return "helper.txt"
		case "html":
			return "helper.html.twig"
		default:
			return "helper." + expectedType(main)
		}
	}
	// a different type
	if expectedType(main) == "js" {
		return "helper.html"
	}
	return "helper.js.twig"
}

var c12Inline = map[string]string{"inline:plain": "", "inline:dot": "Version 1.2 of this. ", "inline:dotmid": "see a.js or ",
	// single braces in front of the first delimiter: text like any other
	"inline:brace-ends-txt": "f() { return ", "inline:brace-ends-js": "a { b } c {x} ", "inline:braces-ends-css": "{ } {a: 1} { "}

// c12InlineTail: text after the construct. An inline source is no file name, whatever its last characters are.
var c12InlineTail = map[string]string{"inline:ends-txt": " see notes.txt", "inline:ends-js": " load app.js", "inline:ends-css-twig": " style.css.twig",
	"inline:brace-ends-txt": " } see notes.txt", "inline:brace-ends-js": " load app.js", "inline:braces-ends-css": " main.css",
	// (every tag and print of these two has a line break inside its delimiters)
	"inline:newlines-ends-js": "\nload app.js", "inline:newlines-ends-txt": "\nnotes.txt"}

type c12case struct {
	main      string
	construct int
	variant   int
	inline    bool
}

func (p *c12) caseAt(i int) c12case {
	c := c12case{}
	c.variant = i % 2
	i /= 2
	c.construct = i % len(c12Constructs)
	i /= len(c12Constructs)
	c.main = c12Names[i%len(c12Names)]
	c.inline = strings.HasPrefix(c.main, "inline:")
	return c
}

var tplAlphabet = "ABCDEFGHIJKLMNOPQRSTUVWXYZabcdefghijklmnopqrstuvwxyz0123456789 []|:"

var (
	reHTMLAmp = regexp.MustCompile(`(?i)&(amp|lt|gt|quot|#39|#[0-9]+|#x[0-9A-Fa-f]+);`)
	reJSU     = regexp.MustCompile(`\\u[0-9A-Fa-f]{4}`)
	reCSSH    = regexp.MustCompile(`\\[0-9A-Fa-f]{1,6}`)
	reURLH    = regexp.MustCompile(`%[0-9A-Fa-f]{2}`)
)

// inertFor reports the first character of out that is significant for content type typ.
func inertFor(typ, out string) (bool, string) {
	var rest string
	var extra string
	switch typ {
	case "":
		return true, ""
	case "html":
		rest = reHTMLAmp.ReplaceAllString(out, "")
		if i := strings.IndexAny(rest, "<>\"'&"); i >= 0 {
			return false, rest[i : i+1]
		}
		return true, ""
	case "html_attr":
		rest, extra = reHTMLAmp.ReplaceAllString(out, ""), ",.-_"
	case "js":
		rest, extra = reJSU.ReplaceAllString(out, ""), ",._"
	case "css":
		rest, extra = reCSSH.ReplaceAllString(out, ""), ""
	case "url":
		rest, extra = reURLH.ReplaceAllString(out, ""), "-._~"
	}
	for _, c := range rest {
		if c > 127 || !strings.ContainsRune(tplAlphabet+extra, c) {
			return false, string(c)
		}
	}
	return true, ""
}

func (p *c12) payloadsFor(i int) []string {
	if i < p.nEnum {
		return c12Payloads
	}
	r := gen.Rng(p.seed, "c12", i)
	const sig = "<>&'\"/\\;:(){}=-+%#~`\n\r\t ,.*!?@$^_a1Zé 😀\x00\x7f"
	rs := []rune(sig)
	out := make([]string, 4)
	for k := range out {
		n := 1 + r.Intn(30)
		var b strings.Builder
		for j := 0; j < n; j++ {
			b.WriteRune(rs[r.Intn(len(rs))])
		}
		out[k] = b.String()
	}
	return out
}

// c12nCustom: an application's own escaper, registered with the extension under its own content type - before the
// extension is registered with the environment and after it (the extension's Escapers table is exported: that is how
// an escaper is registered) - for templates named after that type, by themselves and included from an html page.
const c12nCustom = 2 * 3

// c12json is an application's escaper: everything comes out as hexadecimal digits in brackets (inert anywhere,
// and decodable: nothing is lost, nothing is escaped twice unnoticed).
func c12json(s string) string { return fmt.Sprintf("[%x]", s) }

func (p *c12) runCustom(res *fw.Result, j int) {
	late, shape := j%2 == 1, j/2
	tpls := map[string]string{
		"d.json":         "{{ v }}|{% if true %}{{ v }}{% endif %}|{% for i in 1..2 %}{{ v }}{% endfor %}|{% block b %}{{ v }}{% endblock %}|{% set c %}{{ v }}{% endset %}{{ v|escape('json') }}|{{ v|escape('html') }}|{% include 'part.json.twig' %}",
		"part.json.twig": "P{{ v }}",
		"page.html":      "<p>{{ v }}</p>{% include 'd.json' %}<i>{{ v }}</i>",
		"child.json":     "{% extends 'd.json' %}{% block b %}C{{ v }}{% endblock %}",
	}
	main := []string{"d.json", "page.html", "child.json"}[shape]
	env := stick.New(&c12loader{tpls})
	for name, f := range twig.New(nil).Filters {
		env.Filters[name] = f
	}
	ext := twig.NewAutoEscapeExtension()
	if !late {
		ext.Escapers["json"] = c12json
	}
	if err := env.Register(ext); err != nil {
		res.Fail("harness", "c12:custom:register", err.Error(), nil)
		return
	}
	if late {
		ext.Escapers["json"] = c12json
	}
	res.AddClass("custom-escaper")
	res.UniqueNT = 1
	for _, payload := range c12Payloads {
		J, H := c12json(payload), escape.HTML(payload)
		// the explicit escape for html of a value in a json template is then escaped for json as well (html-safe is
		// not json-safe): both readings of "exactly once" are about direct prints, which is what is compared exactly
		d := J + "|" + J + "|" + J + J + "|" + J + "|" + J + "|" + c12json(H) + "|P" + J
		want := d
		switch shape {
		case 1:
			want = "<p>" + H + "</p>" + d + "<i>" + H + "</i>"
		case 2:
			want = J + "|" + J + "|" + J + J + "|C" + J + "|" + J + "|" + c12json(H) + "|P" + J
		}
		var buf bytes.Buffer
		err := env.Execute(main, &buf, map[string]stick.Value{"v": payload})
		res.Evals++
		if err != nil || buf.String() != want {
			res.Fail("custom-escaper", fmt.Sprintf("c12:custom:%d:%v:%q", shape, late, payload), fmt.Sprintf("an escaper registered under 'json' (%s the extension was registered with the environment), template %s, value %q: output %q (error %v), want %q", map[bool]string{false: "before", true: "after"}[late], main, payload, buf.String(), err, want), tpls)
		}
	}
}

func (p *c12) Describe(i int) interface{} {
	if i >= p.nEnum+p.nRand+p.nProg {
		j := i - p.nEnum - p.nRand - p.nProg
		return map[string]interface{}{"kind": "an application's own escaper for its own content type", "registered_after_the_extension": j%2 == 1, "shape": j / 2}
	}
	if i >= p.nEnum+p.nRand {
		src, _ := p.program(i)
		return map[string]interface{}{"kind": "random program with inert own text, hostile context", "templates": src}
	}
	c := p.caseAt(i % p.nEnum)
	main, tpls, _ := p.templates(c)
	return map[string]interface{}{"main": main, "construct": c12Constructs[c.construct].name, "helper_variant": c.variant, "templates": tpls, "payloads": len(p.payloadsFor(i)), "wrappers": c12Wrappers}
}

func (p *c12) templates(c c12case) (string, map[string]string, []c12site) {
	con := c12Constructs[c.construct]
	main := c.main
	if c.inline {
		main = "INLINE"
	}
	helper := c12helper(c.main, c.variant)
	if c.inline {
		helper = "helper.html"
		if c.variant == 1 {
			helper = "helper.js"
		}
	}
	tpls, sites := con.build(main, helper)
	if c.inline {
		// the main template's source is its own name under the string loader
		src := c12Inline[c.main] + tpls["INLINE"] + c12InlineTail[c.main]
		if strings.Contains(c.main, "newlines") {
			src = strings.NewReplacer("{{ ", "{{\n", " }}", "\n}}", "{% ", "{%\n", " %}", "\n%}").Replace(src)
		}
		delete(tpls, "INLINE")
		for k := range sites {
			if sites[k].tpl == "INLINE" {
				sites[k].tpl = src
			}
		}
		main = src
		tpls[src] = src
	}
	return main, tpls, sites
}

type c12loader struct {
	m map[string]string
}

func (l *c12loader) Load(name string) (stick.Template, error) {
	return (&stick.MemoryLoader{Templates: l.m}).Load(name)
}

func (p *c12) Run(i int) (res fw.Result) {
	if i >= p.nEnum+p.nRand+p.nProg {
		p.runCustom(&res, i-p.nEnum-p.nRand-p.nProg)
		return
	}
	if i >= p.nEnum+p.nRand {
		p.runProgram(&res, i)
		return
	}
	c := p.caseAt(i % p.nEnum)
	con := c12Constructs[c.construct]
	main, tpls, sites := p.templates(c)
	if c.inline && expectedType(main) != "html" {
		res.Fail("harness", "c12:inline", "inline source does not resolve to html per the statement: "+main, nil)
		return
	}
	mixed := false
	for _, s := range sites {
		if expectedType(s.tpl) != expectedType(main) {
			mixed = true
		}
	}
	for name := range tpls {
		if expectedType(name) != expectedType(main) {
			mixed = true
		}
	}
	env := twig.New(&c12loader{tpls})
	for pi, payload := range p.payloadsFor(i) {
		for wi, wname := range c12Wrappers {
			mainType := expectedType(main)
			other := "js"
			if mainType == "js" {
				other = "html"
			}
			var x stick.Value = payload
			safeSame := false
			switch wi {
			case 1:
				if mainType == "" {
					continue
				}
				if mixed {
					continue // "same type" is ambiguous when the sites have different types
				}
				x = stick.NewSafeValue(payload, mainType)
				safeSame = true
			case 2:
				x = stick.NewSafeValue(payload, other)
				if mixed {
					continue
				}
			case 3:
				x = stick.NewSafeValue(stick.NewSafeValue(payload, "css"), "url")
				if mainType == "css" || mainType == "url" || mixed {
					continue
				}
			case 4:
				// marking a derived value safe for this type says nothing about the value it was derived from
				if mixed || mainType == "" {
					continue
				}
				x = stick.NewSafeValue(payload, other)
				_ = stick.NewSafeValue(x, mainType)
			case 5:
				gen.KindText = payload
				x = gen.KindInt(7)
			case 6:
				gen.KindText = payload
				x = gen.KindBool(true)
			case 7:
				gen.KindText = payload
				x = gen.KindFloat(1.5)
			case 8:
				x = gen.ValStringer{S: payload}
			case 9:
				gen.KindText = payload
				x = gen.KindSlice{1, 2}
			case 10:
				gen.KindText = payload
				x = gen.KindMap{"k": 1}
			case 11:
				// marked safe, but for no content type at all: safe nowhere
				x = stick.NewSafeValue(payload)
			case 12:
				gen.KindText = payload
				x = &gen.KindSlice{3}
			case 13:
				// every answer of the value is data: whichever of them is printed is escaped (which answer a
				// construct prints is not pinned: only the safety of the whole output is looked at)
				x = &gen.Changing{Text: payload}
			}
			changing := wi == 13
			switch wi {
			case 14:
				// numbers are data too: a minus sign is a character the js and css escapers encode
				x, payload = -5, "-5"
			case 15:
				x, payload = int64(-1234567890123), "-1234567890123"
			case 16:
				x, payload = -2.5, "-2.5"
			}
			ctx := map[string]stick.Value{"x": x, "t": true, "f": false, "arr": []stick.Value{x, x}, "hash": map[string]stick.Value{"k": x}, "own": mainType, "ownT": gen.KeyStr(mainType), "ownS": gen.ValStringer{S: mainType}, "strat": "nosuchstrategy"}
			var buf bytes.Buffer
			mon.BeginExec()
			var err error
			var pan interface{}
			func() {
				defer func() { pan = recover() }()
				err = env.Execute(main, &buf, ctx)
			}()
			_, _, steps := mon.EndCall()
			res.Evals++
			res.AddObs("exec_steps", steps)
			out := buf.String()
			key := fmt.Sprintf("c12:%s/%s/v%d/p%d/%s", c.main, con.name, c.variant, pi, wname)
			in := map[string]interface{}{"main": main, "templates": tpls, "x": payload, "wrapper": wname}
			if pan != nil {
				res.Fail("panic", key, fmt.Sprintf("Execute panicked: %v", pan), in)
				continue
			}
			if err != nil {
				res.Fail("error", key, fmt.Sprintf("Execute failed: %v", err), in)
				continue
			}
			significant := false
			for _, s := range sites {
				typ := expectedType(s.tpl)
				val := payload
				if s.value != nil {
					val = s.value(payload)
				}
				var want string
				switch {
				case s.raw, typ == "":
					want = val
				case safeSame && s.value == nil:
					want = val
				default:
					want = escFns[typ](val)
				}
				if want != val {
					significant = true
				}
				if !s.direct || changing {
					continue
				}
				re := regexp.MustCompile(`\[` + s.id + `:([^\]]*)\]`)
				ms := re.FindAllStringSubmatch(out, -1)
				if len(ms) == 0 {
					res.Fail("missing-print", key, fmt.Sprintf("print %s does not appear in the output %q", s.id, clip(out, 300)), in)
					continue
				}
				res.AddObs("direct_prints_checked", int64(len(ms)))
				for _, m := range ms {
					if m[1] != want {
						cls := "not-escaped-exactly-once"
						if m[1] == val && want != val {
							cls = "unescaped"
						}
						res.Fail(cls, key, fmt.Sprintf("print %s in %q (content type %q) rendered %q; want %q (payload %q, wrapper %s)", s.id, s.tpl, typ, m[1], want, val, wname), in)
					}
				}
			}
			// safety over the whole output when every template involved has one content type
			if !mixed && !safeSame && con.name != "raw" {
				if ok, ch := inertFor(expectedType(main), out); !ok {
					res.Fail("unsafe-output", key, fmt.Sprintf("output %q contains %q, which is significant for content type %q and can only come from the data", clip(out, 300), ch, expectedType(main)), in)
				}
				res.AddObs("whole_outputs_scanned", 1)
			}
			if significant {
				res.Sigs = append(res.Sigs, fmt.Sprintf("%s|%s|%d|%d|%s", c.main, con.name, c.variant, pi%len(c12Payloads), wname))
			}
		}
	}
	res.AddClass(con.name)
	return
}

func (p *c12) Rule() string {
	return p.ruleBase() + " " + "Round 12: six cases with an environment assembled by hand (stick.New + the Twig filters + twig.NewAutoEscapeExtension registered) and an application's own escaper under the content type json, stored in the extension's Escapers before and after the extension is registered: templates d.json (prints at top level, in if / for / block / capture, explicit escape for json and for html, an included part.json.twig), page.html including it, child.json extending it; expected output computed from the escaper (hexadecimal in brackets) for each of the 13 payloads."
}

func (p *c12) ruleBase() string {
	return fmt.Sprintf("exhaustive product for single-construct templates: %d template names (html, html.twig, js, js.twig, css, txt, txt.twig, no extension, .twig only, unknown extensions xml/foo/json/HTML, url, html_attr, names with a dot in a directory part, and inline sources through the string loader with and without dots, also ending in '.txt', '.js' or '.css.twig') x %d constructs (top level, if/else/elseif, for, for-else, for..if, loop value, block, nested, overridden/inherited block, three-level chain, parent(), block(), include, include-with-only, embed with override, a capture at the top level of an extending template used raw inside a block, set-capture, filter section, macro, imported macro, ternary, concatenation, interpolation, via set, attribute access, filter results, raw, explicit escape) x helper template of the same / a different content type x %d payloads x 9 value wrappers (plain, safe for the same type, safe for another type, nested safe for other types, safe for another type while a value derived from it was marked safe for this type, named int / bool / float types and a struct whose String method returns the payload); random payloads over the significant alphabet on top; plus seeded random multi-template programs (every tag, inheritance, include/embed/use/import, macros, captures, filter sections, all built-in filters except raw) whose own text and string literals are inert while every context string is a hostile payload - their whole output must be HTML-inert. Every print is bracketed by inert sentinels; template literal text uses an inert alphabet. Oracles: (exactness) each directly printed segment equals escaper(value) applied once for the content type of the template that contains the print (statement's rule: registered extension, txt = none, html otherwise), raw and same-type-safe values unchanged, explicit escape = implicit; (safety) in single-type cases the whole output contains no character significant for that type outside escape sequences - this also covers prints routed through captures, filter sections, macros, block() and parent(). Non-trivial = the payload contains a character the resolved escaper changes; distinct = (name, construct, helper variant, payload, wrapper).", len(c12Names), len(c12Constructs), len(c12Payloads))
}

func (p *c12) Assumptions() []string {
	return []string{"user-registered escapers and escape() with strategies other than the template's own are not exercised",
		"for prints whose bytes pass through a capture, filter section, macro, block() or parent() only safety is demanded (the statement promises exactly-once for direct prints)"}
}

func (p *c12) Floors(tier string) map[string]int64 {
	return map[string]int64{"direct_prints_checked": 20000, "whole_outputs_scanned": 10000, "programs_scanned": 2000, "distinct_nontrivial": 5000, "class:explicit-escape-strategy-from-a-variable": 100, "class:filter-section": 100, "class:child-top-level-capture": 100}
}
