package props

import (
	"bytes"
	"fmt"
	"hash/fnv"
	"io"
	"math/rand"
	"runtime/debug"
	"sort"
	"strings"

	"github.com/tyler-sommer/stick"

	"verifharness/fw"
	"verifharness/gen"
	"verifharness/model"
	"verifharness/mon"
)

// Program is a set of templates, the one to render and its context.
type Program struct {
	Templates map[string]*gen.Template
	Main      string
	Ctx       map[string]interface{}
}

func (p *Program) sources(pol gen.Policy) map[string]string {
	m := map[string]string{}
	for name, t := range p.Templates {
		src, _ := gen.Source(t, pol)
		m[name] = src
	}
	return m
}

// describe writes the program out for reports.
func (p *Program) describe() map[string]interface{} {
	src := p.sources(gen.Canon{})
	ctx := map[string]string{}
	for k, v := range p.Ctx {
		ctx[k] = clip(fmt.Sprintf("%#v", v), 80)
	}
	return map[string]interface{}{"main": p.Main, "templates": src, "context": ctx}
}

type runOut struct {
	out      string
	err      error
	calls    []model.Call
	pan      interface{}
	endBad   string
	destBad  string
	destSeen int
	exSteps  int64
}

// poisonSrc are templates that fail half-way through a capturing construct, a block, an include or at
// parse time. poison renders them on a throw-away environment before a case is run with the library:
// the library may keep no state from one execution to the next, so this must not change any result.
// (Anything pooled, cached or memoised at package level would carry their partial output over.)
var poisonSrc = map[string]string{
	"p1":    "a{% set x %}LEFTOVER-set{{ nosuchfn() }}{% endset %}b",
	"p2":    "{% filter upper %}LEFTOVER-filter{{ nosuchfn() }}{% endfilter %}",
	"p3":    "{% macro m(a) %}LEFTOVER-macro{{ nosuchfn() }}{% endmacro %}{{ _self.m(1) }}",
	"p4":    "{% block b %}LEFTOVER-b{{ block('c') }}{% endblock %}{% block c %}LEFTOVER-c{{ nosuchfn() }}{% endblock %}",
	"p5":    "{% extends 'pbase' %}{% block b %}LEFTOVER-child{{ parent() }}{% endblock %}",
	"p6":    "{% for v in [1, 2] %}LEFTOVER-loop{% include 'pinc' %}{% endfor %}",
	"p7":    "{% embed 'pbase' %}{% block b %}LEFTOVER-embed{{ nosuchfn() }}{% endblock %}{% endembed %}",
	"p8":    "LEFTOVER-parse{% if %}",
	"p9":    "{% set v = 'LEFTOVER-value' %}{% set w %}{{ v }}{{ 1 % 0 }}{% endset %}",
	"pinc":  "LEFTOVER-inc{{ nosuchfn() }}",
	"pbase": "[{% block b %}LEFTOVER-base{{ nosuchfn() }}{% endblock %}]",
}

// poisonEvery: one case in poisonEvery is preceded by the failing renders (1 = every case, 0 = never).
var poisonEvery = 4

var poisonNames = []string{"p1", "p2", "p3", "p4", "p5", "p6", "p7", "p8", "p9"}

func poison() {
	env := stick.New(&stick.MemoryLoader{Templates: poisonSrc})
	for _, n := range poisonNames {
		func() {
			defer func() { recover() }()
			var buf bytes.Buffer
			env.Execute(n, &buf, map[string]stick.Value{"v": "LEFTOVER-ctx"})
		}()
	}
}

// runLib renders the program with the real library (core environment, recording callbacks).
func runLib(p *Program, pol gen.Policy, twigEnv bool) (o runOut) {
	return runLibTo(p, pol, twigEnv, nil)
}

// runLibTo renders into the given destination (nil: a buffer, whose contents are the result's output).
func runLibTo(p *Program, pol gen.Policy, twigEnv bool, dest io.Writer) (o runOut) {
	src := p.sources(pol)
	if poisonEvery > 0 {
		// decided by the program text, so that a replayed case is preceded by the same renders
		h := uint32(2166136261)
		for _, c := range []byte(src[p.Main]) {
			h = (h ^ uint32(c)) * 16777619
		}
		if h%uint32(poisonEvery) == 0 {
			mon.BeginExec()
			poison()
			mon.EndCall()
		}
	}
	var env *stick.Env
	var rec *mon.Recorder
	if twigEnv {
		env, rec = mon.NewTwigEnv(src)
	} else {
		env, rec = mon.NewCoreEnv(src)
	}
	ctx := map[string]stick.Value{}
	for k, v := range p.Ctx {
		ctx[k] = v
	}
	total := 0
	for _, s := range src {
		total += len(s)
	}
	var buf bytes.Buffer
	mon.BeginExec()
	mon.TakeExecEndBad()
	func() {
		defer func() {
			if r := recover(); r != nil {
				o.pan = fmt.Sprintf("%v [%s]", r, panicSite())
			}
		}()
		if dest != nil {
			o.err = env.Execute(p.Main, dest, ctx)
		} else {
			rec.Dest = &buf
			o.err = env.Execute(p.Main, &buf, ctx)
			rec.Snap("the end")
		}
	}()
	o.destBad, o.destSeen = rec.DestBad, rec.DestSeen
	_, _, o.exSteps = mon.EndCall()
	o.endBad = mon.TakeExecEndBad()
	o.out = buf.String()
	o.calls = rec.Calls
	return
}

// panicSite names the innermost frames of the library on the stack of the panic being recovered (to be called
// from the deferred function that recovers it).
func panicSite() string {
	var at []string
	for _, l := range strings.Split(string(debug.Stack()), "\n") {
		l = strings.TrimSpace(l)
		if i := strings.Index(l, " +0x"); i > 0 && strings.Contains(l, ".go:") && !strings.Contains(l, "/harness/") && !strings.Contains(l, "/go/src/") && !strings.Contains(l, "/usr/") {
			l = l[:i]
			if j := strings.LastIndex(l, "/"); j >= 0 {
				l = l[j+1:]
			}
			at = append(at, l)
			if len(at) == 3 {
				break
			}
		}
	}
	return strings.Join(at, " < ")
}

// runModel renders the program with the reference model. inRegion is false when
// the model refused the program (generator left the agreement region).
func runModel(p *Program) (o runOut, steps int, inRegion bool, why string) {
	return runModelWith(p, &model.Interp{Prog: p.Templates})
}

func runModelWith(p *Program, in *model.Interp) (o runOut, steps int, inRegion bool, why string) {
	ctx := map[string]interface{}{}
	inRegion = true
	func() {
		defer func() {
			if r := recover(); r != nil {
				if oo, ok := r.(model.OutOfRegion); ok {
					inRegion, why = false, oo.Msg
					return
				}
				panic(r)
			}
		}()
		for k, v := range p.Ctx {
			ctx[k] = model.Normalize(v)
		}
		o.out, o.err = in.Render(p.Main, ctx)
	}()
	o.calls = in.Calls
	return o, in.Steps, inRegion, why
}

func callsString(cs []model.Call) string {
	parts := make([]string, len(cs))
	for i, c := range cs {
		parts[i] = c.String()
	}
	return strings.Join(parts, "; ")
}

// compareRuns applies the differential oracle and records violations.
func compareRuns(res *fw.Result, key string, p *Program, lib, mod runOut, checkCalls bool) bool {
	ok := true
	fail := func(class, msg string) {
		ok = false
		if lastLayout != "canonical" {
			msg += "; layout: " + lastLayout
		}
		res.Fail(class, key, msg, p.describe())
	}
	if lib.pan != nil {
		fail("panic", fmt.Sprintf("Execute panicked: %v", lib.pan))
		return false
	}
	if lib.destBad != "" {
		fail("capture-reached-destination", lib.destBad)
	}
	if lib.endBad != "" {
		fail("exec-end-invariant", lib.endBad)
	}
	if (lib.err == nil) != (mod.err == nil) {
		fail("error-mismatch", fmt.Sprintf("implementation error: %v; reference model error: %v; implementation output %q, model output %q", lib.err, mod.err, clip(lib.out, 300), clip(mod.out, 300)))
		return false
	}
	if lib.out != mod.out {
		fail("output", fmt.Sprintf("output %q, reference model %q (error: %v)", clip(lib.out, 400), clip(mod.out, 400), lib.err))
	}
	if checkCalls {
		if a, b := callsString(lib.calls), callsString(mod.calls); a != b {
			fail("callbacks", fmt.Sprintf("callback log [%s], reference model [%s]", clip(a, 500), clip(b, 500)))
		}
	}
	return ok
}

func sortedKeys(m map[string]int64) []string {
	ks := make([]string, 0, len(m))
	for k := range m {
		ks = append(ks, k)
	}
	sort.Strings(ks)
	return ks
}

// lastLayout names the spelling policy of the case in progress (for failure messages).
var lastLayout = "canonical"

// layoutPolicy is a seeded random layout: any white space between tokens, none where that is possible, either
// quote, trailing commas, trim markers where there is nothing to trim.
type layoutPolicy struct {
	r     *rand.Rand
	quote byte
	comma bool
	trim  bool
}

func (v *layoutPolicy) WS(prev, next string, mayBeEmpty bool) string {
	ws := []string{"", "", " ", "  ", "\n", "\t", "\r\n", " \n\t "}[v.r.Intn(8)]
	if ws == "" && !mayBeEmpty {
		return " "
	}
	return ws
}
func (v *layoutPolicy) Quote() byte         { return v.quote }
func (v *layoutPolicy) TrailingComma() bool { return v.comma }
func (v *layoutPolicy) Trim() bool          { return v.trim }

func layoutFor(key string) (gen.Policy, string) {
	h := fnv.New64a()
	h.Write([]byte(key))
	x := h.Sum64()
	switch (x >> 3) % 8 {
	case 0, 1, 2:
		return gen.Canon{}, "canonical"
	case 3:
		if (x>>6)%2 == 0 {
			return gen.Vast{}, "vast (33 .. 1025 characters of white space between any two tokens)"
		}
		return gen.Canon{}, "canonical"
	case 4:
		return gen.Tight{}, "tight (no blank that can be left out)"
	case 5:
		return gen.Wide{}, "wide (a line break between any two tokens)"
	}
	r := rand.New(rand.NewSource(int64(x)))
	return &layoutPolicy{r: r, quote: []byte{'\'', '"'}[r.Intn(2)], comma: r.Intn(2) == 0, trim: r.Intn(4) == 0}, fmt.Sprintf("random layout %x", x)
}

// modelCase runs a program through the model and the library and compares. It
// returns false when the model refused the program (out of region).
func modelCase(res *fw.Result, key string, prog *Program, pol gen.Policy, checkCalls bool) (lib, mod runOut, ok bool) {
	if _, canon := pol.(gen.Canon); canon {
		// a caller without an opinion on the layout gets one of four, decided by the case: what a template means
		// does not depend on how it is laid out (C14), so every model-based check may as well see all layouts
		pol, lastLayout = layoutFor(key)
	} else {
		lastLayout = fmt.Sprintf("%T", pol)
	}
	mod, steps, inRegion, why := runModel(prog)
	if !inRegion {
		res.AddObs("out_of_region_rejected", 1)
		res.AddClass("out-of-region")
		lastLayout = "model refused: " + why
		return lib, mod, false
	}
	lib = runLib(prog, pol, false)
	compareRuns(res, key, prog, lib, mod, checkCalls)
	if hk := fnv.New32a(); true {
		hk.Write([]byte(key))
		if hk.Sum32()%16 == 7 && lib.pan == nil {
			// where the output goes is no business of the execution: rendered into io.Discard (a destination a
			// library might recognise) the template fails or succeeds alike and makes the same callbacks with
			// the same arguments
			d := runLibTo(prog, pol, false, io.Discard)
			res.AddObs("renders_into_discard", 1)
			if d.pan != nil || (d.err == nil) != (lib.err == nil) || callsString(d.calls) != callsString(lib.calls) {
				res.Fail("destination-matters", key+":discard", fmt.Sprintf("rendered into io.Discard: error %v, panic %v, callbacks [%s]; rendered into a buffer: error %v, callbacks [%s]", d.err, d.pan, clip(callsString(d.calls), 400), lib.err, clip(callsString(lib.calls), 400)), prog.describe())
			}
		}
	}
	res.AddObs("exec_steps", lib.exSteps)
	res.AddObs("model_steps", int64(steps))
	res.AddObs("callbacks_observed", int64(len(lib.calls)))
	res.AddObs("output_bytes", int64(len(lib.out)))
	res.AddObs("destination_snapshots", int64(lib.destSeen))
	if lib.err != nil {
		res.AddClass("error")
	} else {
		res.AddClass("rendered")
	}
	return lib, mod, true
}

// helpers to build trees tersely
func tx(s string) *gen.NText               { return &gen.NText{S: s} }
func pr(e gen.Expr) *gen.NPrint            { return &gen.NPrint{X: e} }
func nm(s string) *gen.EName               { return &gen.EName{Name: s} }
func num(i int) *gen.ENum                  { return &gen.ENum{Text: fmt.Sprint(i)} }
func str(s string) *gen.EStr               { return &gen.EStr{S: s} }
func attr(x gen.Expr, k string) *gen.EAttr { return &gen.EAttr{X: x, Key: &gen.EStr{S: k}, Dot: true} }
func tpl(name string, body ...gen.Node) *gen.Template {
	return &gen.Template{Name: name, Body: body}
}

// renameTemplates gives the templates of a program other names: every template name and every reference that is
// a plain string literal (extends, include, embed, use, import, from; also the literals of a list of names) goes
// through f. A template's name is an opaque key for the loader: what a program renders does not depend on how
// its templates are called, be it "./x", "a/../x", " x " or "x\n". (Callbacks that report a template's name report
// the new one to the model and to the library alike.)
func renameTemplates(prog *Program, f func(string) string) {
	ts := map[string]*gen.Template{}
	for n, t := range prog.Templates {
		t.Name = f(n)
		ts[t.Name] = t
		renameRefs(t.Body, f)
	}
	prog.Templates = ts
	prog.Main = f(prog.Main)
}

func renameRef(e gen.Expr, f func(string) string) {
	switch x := e.(type) {
	case *gen.EStr:
		x.S = f(x.S)
	case *gen.EArr:
		for _, el := range x.Els {
			renameRef(el, f)
		}
	case *gen.EGroup:
		renameRef(x.X, f)
	case *gen.ECall:
		if x.Fn == "ident" && len(x.Args) == 1 {
			renameRef(x.Args[0], f) // a name handed through a callback that returns it
		}
	case *gen.EBin:
		// a name put together from two literals
		l, lok := x.L.(*gen.EStr)
		r, rok := x.R.(*gen.EStr)
		if x.Op == "~" && lok && rok {
			l.S, r.S = f(l.S+r.S), ""
		} else if x.Op == "~" && rok {
			if _, call := x.L.(*gen.ECall); call {
				r.S = f(r.S) // a call that returns nothing in front of the name
			}
		} else if c, ok := x.R.(*gen.ECall); ok && x.Op == "~" && c.Fn == "ident" && len(c.Args) == 1 {
			renameRef(c.Args[0], f) // ... and the name handed through a callback that returns it
		}
	case *gen.ETern:
		renameRef(x.A, f)
		renameRef(x.B, f)
	}
}

func renameRefs(nodes []gen.Node, f func(string) string) {
	for _, n := range nodes {
		switch x := n.(type) {
		case *gen.NIf:
			for _, b := range x.Bodies {
				renameRefs(b, f)
			}
			renameRefs(x.Else, f)
		case *gen.NFor:
			renameRefs(x.Body, f)
			renameRefs(x.Else, f)
		case *gen.NSetCap:
			renameRefs(x.Body, f)
		case *gen.NFilter:
			renameRefs(x.Body, f)
		case *gen.NBlock:
			renameRefs(x.Body, f)
		case *gen.NMacro:
			renameRefs(x.Body, f)
		case *gen.NImport:
			renameRef(x.Tpl, f)
		case *gen.NFrom:
			renameRef(x.Tpl, f)
		case *gen.NInclude:
			renameRef(x.Tpl, f)
		case *gen.NExtends:
			renameRef(x.Tpl, f)
		case *gen.NUse:
			renameRef(x.Tpl, f)
		case *gen.NEmbed:
			renameRef(x.Tpl, f)
			for _, b := range x.Blocks {
				renameRefs(b.Body, f)
			}
		}
	}
}
