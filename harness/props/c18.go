package props

import (
	"bytes"
	"fmt"
	"github.com/shopspring/decimal"
	"hash/fnv"
	"math/rand"
	"os"
	"path/filepath"
	"regexp"
	"runtime"
	"sort"
	"strconv"
	"strings"
	"sync"
	"sync/atomic"
	"time"

	"github.com/tyler-sommer/stick"
	"github.com/tyler-sommer/stick/parse"
	"github.com/tyler-sommer/stick/twig"

	"verifharness/fw"
	"verifharness/gen"
)

// C18 — a configured environment can be used concurrently.
//
// Half of the workers run the -race build, in which the traverse hook only calls
// runtime.Gosched() and the goroutines share nothing but a start barrier and a
// WaitGroup (monitor-side synchronisation would add happens-before edges and hide
// races). The other half run the plain build, in which the hook injects seeded
// yields and micro-sleeps and an event log records the global order in which
// modules were entered, from which distinct interleaving fingerprints are counted.
type c18 struct {
	base
	rounds   int
	names    []string
	expected map[string]c18exp // key: env|op|template|ctxVariant
	twigEnv  *stick.Env
	coreEnv  *stick.Env
}

type c18exp struct {
	out string
	err string
}

func init() { fw.Register("C18", func() fw.Property { return &c18{} }) }

func (p *c18) ID() string               { return "C18" }
func (p *c18) Race() bool               { return true }
func (p *c18) MaxWorkers() int          { return 8 }
func (p *c18) RaceWorker(k, K int) bool { return k%2 == 0 }
func (p *c18) CPUBudget() float64       { return 120 }

var c18Templates = map[string]string{
	"a.html":        "<p>{{ x }}</p>{% for i in items %}<li>{{ i }}</li>{% endfor %}",
	"b.js":          "var v = '{{ x }}'; {% for i in items %}f('{{ i }}');{% endfor %}",
	"c.css":         "a { content: '{{ x }}'; }",
	"d.txt":         "plain {{ x }} {{ items|join(',') }}",
	"e":             "noext {{ x }}{% if t %} yes {{ x|upper }}{% endif %}",
	"f.html.twig":   "{% block one %}[one {{ x }}]{% endblock %}{% block two %}[two {{ x }}]{% endblock %}",
	"g.html.twig":   "{% extends 'f.html.twig' %}{% block one %}child {{ x }} {{ parent() }}{% endblock %}",
	"h.js.twig":     "{% extends 'base.js.twig' %}{% block body %}js child '{{ x }}' {{ parent() }}{% endblock %}",
	"base.js.twig":  "/* base */ {% block body %}base '{{ x }}'{% endblock %} /* end */",
	"i.html":        "<html><script>{% include 'b.js' %}</script><style>{% include 'c.css' %}</style>{{ x }}</html>",
	"j.html":        "{% embed 'f.html.twig' %}{% block two %}embedded {{ x }}{% endblock %}{% endembed %} after {{ x }}",
	"k.js":          "{% embed 'base.js.twig' %}{% block body %}emb '{{ x }}'{% endblock %}{% endembed %}",
	"l.html":        "{% macro m(v) %}<b>{{ v }}</b>{% endmacro %}{{ _self.m(x)|raw }}{{ _self.m('lit')|raw }}",
	"m.html":        "{% import 'macros.twig' as mm %}{{ mm.wrap(x)|raw }}",
	"macros.twig":   "{% macro wrap(v) %}({{ v }}){% endmacro %}",
	"n.html":        "{% filter upper %}filtered {{ x }}{% endfilter %} tail {{ x }}",
	"o.css":         "{% for k, v in items %}.c{{ k }} { w: '{{ v }}' }{% endfor %}",
	"p.html":        "{% set cap %}<i>{{ x }}</i>{% endset %}{{ cap|raw }}|{{ cap }}",
	"q.txt":         "{% for i in 1..5 %}{{ i }}{% if not loop.last %},{% endif %}{% endfor %} {{ x }}",
	"r.html":        "{{ x ? x : 'none' }}{{ 'a' ~ x ~ \"b#{x}c\" }}{{ [x, x]|length }}",
	"s.js":          "{% if t %}'{{ x }}'{% else %}no{% endif %}{% set y = x %}'{{ y }}'",
	"t.html":        "{% use 'f.html.twig' %}{{ block('one') }}",
	"u.xml":         "<x>{{ x }}</x>",
	"bad.html":      "oops {{ x ",
	"runtime.html":  "before {{ x }} {{ nofunc() }} after",
	"includes.html": "{% for i in 1..3 %}{% include 'a.html' %}{% include 'd.txt' %}{% endfor %}",
	// every operator and built-in filter family, with different literals per template (hidden shared caches)
	"v.txt":        "{% for i in 1..20 %}{{ x matches '^p' }}{{ ('b' ~ i) matches 'b[0-9]+$' }},{% endfor %}",
	"w.txt":        "{% for i in 1..20 %}{{ x matches 'n$' }}{{ i matches '^1' }};{% endfor %}",
	"ops.txt":      "{{ 1 + 2 - 3 * 4 / 5 // 6 % 7 ** 2 }}{{ x ~ 'y' == 'plainy' != false }}{{ 1 < 2 <= 3 > 0 >= 1 }}{{ t and not f or t }}{{ 2 in [1, 2] }}{{ 3 not in 1..2 }}{{ x starts with 'pl' }}{{ x ends with 'in' }}{{ 6 b-and 3 b-or 8 b-xor 1 }}{{ t ? 'a' : 'b' }}{{ -1 + +2 }}{{ {'k': [1, 2]}.k[1] }}{{ \"i#{1 + 1}\" }}",
	"filters.html": "{{ x|upper|lower|title|capitalize|trim }}{{ items|length }}{{ items|join('-') }}{{ items|first }}{{ items|last }}{{ items|reverse|join }}{{ items|batch(2, 'f')|length }}{{ items|keys|join }}{{ items|merge([9])|length }}{{ 3.14159|round(2) }}{{ -5|abs }}{{ nothing|default('d') }}{{ x|url_encode }}{{ x|json_encode }}{{ x|replace({'a': 'b'}) }}{{ 'now'|date('Y')|length }}{{ x|escape('js') }}{{ x|raw }}",
	// values shared by every context (one Go slice with spare capacity, one Go map): results built from them
	"merge.txt":     "{{ shared|merge([x])|join(',') }}|{{ shared|merge(items)|length }}|{{ sharedmap|merge({'a': x})|join(',') }}|{{ shared|reverse|join(',') }}|{{ shared|batch(1)|length }}|{{ shared|slice(0, 1)|merge([x, x])|join('+') }}",
	"sharedall.txt": "{{ shared|sort|join(',') }}|{{ shared|sort|first }}|{{ shared|keys|join }}|{{ shared|first }}{{ shared|last }}{{ shared|length }}|{{ shared|json_encode }}|{{ sharedmap|json_encode }}|{{ sharedmap|keys|join }}|{{ sharedmap|sort|join }}|{{ sharedmap|reverse|join }}|{{ sharedmap|first }}|{{ shared|default('d')|join }}|{{ shared|batch(3, x)|json_encode }}|{{ shared|slice(1)|join }}|{{ shared|slice(-1, 1)|merge(shared)|join }}|{% for k, v in sharedmap|merge(sharedmap) %}{{ k }}={{ v }}{% endfor %}|{% for v in shared|reverse %}{{ v }}{% endfor %}{{ shared|join }}",
	// run-time errors after partial output inside every capturing construct
	"failfilter.html": "{% filter upper %}partial-{{ x }}-{{ nofunc() }}{% endfilter %}",
	"failset.html":    "{% set c %}partial-{{ x }}{{ nofunc() }}{% endset %}[{{ c }}]",
	"failmacro.html":  "{% macro m(v) %}partial-{{ v }}{{ nofunc() }}{% endmacro %}[{{ _self.m(x) }}]",
	"failblock.html":  "{% set c = block('b') %}{% block b %}partial-{{ x }}{% if t %}{{ nofunc() }}{% endif %}{% endblock %}",
	"failinc.html":    "{% filter upper %}outer-{% include 'runtime.html' %}{% endfilter %}",
	// the same kind of parse error at different places of different templates: every caller keeps its own
	"dblext1.html": "{% extends 'f.html.twig' %}\n{% extends 'a.html' %}",
	"dblext2.twig": "x{% extends 'a.html' %}{% block one %}{% endblock %}\n\n  {% extends 'f.html.twig' %}",
	"dblext3.txt":  "{% extends 'a.html' %}{% extends 'a.html' %}",
	// top-level assignments (also run without any context map)
	"toplevel.txt": "{% set v = 'own' %}{{ v }}[{{ leak }}]{% set leak = 'L' ~ x %}{% import 'macros.twig' as mm %}{{ mm.wrap(leak) }}",
	// six templates deep, so that 64 callers hold several hundred includes open at the same time
	"deep6.txt": "6({% include 'deep5.txt' %})", "deep5.txt": "5({% include 'deep4.txt' %})", "deep4.txt": "4({% include 'deep3.txt' %})",
	"deep3.txt": "3({% include 'deep2.txt' %})", "deep2.txt": "2({% include 'deep1.txt' %})", "deep1.txt": "1({{ meet() }}{% include 'reenter.txt' %}{% for i in 1..3 %}{{ x }}{% endfor %})", "reenter.txt": "R{{ x }}",
	// explicit escape strategies, registered and not: first uses happen concurrently on the fresh shared environments
	"strategies.html": "{{ x|escape('xml') }}{{ x|e('svg') }}{{ x|escape('js') }}{{ x|escape('nope') }}{{ x|escape('txt') }}{{ x|e }}",
	// one name, different things in different templates: an import alias here, a context variable there; a macro
	// here, a registered function there; a block name in unrelated templates; the first verbatim of the process
	"aliasitems.html": "{% import 'macros.twig' as items %}{{ items.wrap(x) }}{% from 'macros.twig' import wrap as t %}{{ t(x) }}",
	"aliasvar.html":   "{{ mm.title }}|{{ mm.wrap }}|{{ mm.title ~ mm.wrap }}",
	"aliasvar.js":     "var a = '{{ mm.title }}';",
	"macropure.html":  "{% from 'macros2.twig' import pure %}{{ pure() }}{% import 'macros2.twig' as x %}{{ x.pure() }}",
	"macros2.twig":    "{% macro pure() %}<macro-pure>{% endmacro %}",
	"funcpure.html":   "{{ pure() }}{{ x }}",
	"zone.html":       "{% block one %}[z-one {{ x }}]{% endblock %}{% block two %}{{ block('one') }}{% endblock %}",
	"verb.html":       "{% verbatim %}{{ x }}{% if %}{% endverbatim %}{{ x }}{% verbatim %}2{% endverbatim %}",
	"verb.js":         "{%- verbatim -%} '{{ x }}' {%- endverbatim -%}'{{ x }}'",
	// what a call returns is a function of the template and the context, also when a filter is handed a hash
	// whose keys overlap
	"replace.txt": "{{ 'abcabc'|replace({'a': '1', 'ab': '2', 'abc': '3', 'b': '4'}) }}|{{ x|replace({'a': 'A', 'al': 'AL', 'p': 'P', 'pl': 'PL', 'ain': '!'}) }}",
	// every built-in filter with the arguments that select its less usual paths, from many callers at once
	"dates.txt":   "{{ tm1|date('jS F Y') }}|{{ tm2|date('dS M') }}|{{ tm3|date('D, d M Y H:i:s') }}|{{ tm22|date('S') }}|{{ tm1|date('Y') }}|{{ tm2|date }}",
	"dates2.txt":  "{% for d in [tm1, tm2, tm3, tm22, tm11] %}{{ d|date('jS') }},{% endfor %}{{ tm3|date('c') }}|{{ tm11|date('l jS \\o\\f F') }}",
	"numbers.txt": "{{ 1234.567|number_format(2, ',', '.') }}|{{ 0.5|round }}|{{ 2.5|round(0, 'floor') }}|{{ items|json_encode }}|{{ dec|json_encode }}|{{ [dec, 1.5]|json_encode }}|{{ dec }}|{{ 7|abs }}|{{ 'a,b'|split(',')|join('+') }}",
	// filter sections naming the escaping filters and every other string filter, next to templates that apply the same
	// filters to single values: a section is not entitled to anything that other callers can see
	"fsec.html": "{% filter escape %}<s>{{ x }}{% for i in items %}{{ i|escape }}{% endfor %}</s>{% endfilter %}|{% filter upper|escape %}<u>{{ x|e }}{% endfilter %}|{% filter e %}'{{ x|raw }}'{% endfilter %}",
	"fsec.txt":  "{% filter lower|title|trim|capitalize %} {{ x }} {% filter nl2br|striptags|url_encode %}a\nb{{ x }}{% endfilter %}{% endfilter %}{% filter raw %}{{ x }}{% endfilter %}{% filter escape %}<{{ x }}>{{ meet() }}{% endfilter %}",
	"fsec.js":   "{% filter escape %}'{{ x }}'{% filter e %}{{ x|escape }}{% endfilter %}{% endfilter %}{{ x|escape('html') }}{{ x|e }}",
	// templates that ask for templates nobody has, each under another name
	"miss1.html": "a{% include 'nothere-1' %}b", "miss2.txt": "{% extends 'nothere-22' %}{% block b %}x{% endblock %}", "miss3.html": "p{% import 'nothere-333' as m %}{{ m.x() }}q",
	"miss4.js": "{% for i in 1..3 %}{% include 'gone' ~ i %}{% endfor %}", "miss5.html": "{% embed 'nothere-55555' %}{% endembed %}", "miss6.txt": "{% use 'nothere-6' %}{% from 'nothere-66' import a %}",
	// two from-imports under one name, and several that are not there: whichever wins, it wins every time
	"fromdup.html":  "{% from 'macros3.twig' import a as x, b as x, c as y, a as y %}{{ x() }}{{ y() }}",
	"frommiss.html": "{% from 'macros3.twig' import zz1, a, zz2 as q, zz3 %}{{ a() }}",
	"macros3.twig":  "{% macro a() %}A{% endmacro %}{% macro b() %}B{% endmacro %}{% macro c() %}C{% endmacro %}",
	// ... and two imported blocks under one name, and several that are not there
	"usedup.html":  "{% use 'f.html.twig' with one as z, two as z %}{{ block('z') }}",
	"usemiss.html": "{% use 'f.html.twig' with nob1 as p, one as q, nob2 as r, nob3 as s %}{{ block('q') }}",
	// hash and list literals are values of the call that evaluates them: a callback may fill the one it is given
	"fill.txt":  "{% set h = fill({}, 'k-' ~ x, 1) %}{{ h|length }}{% for k, v in fill({}, x, 2) %}[{{ k }}]{% endfor %}{% for i in 1..3 %}{{ fill({}, i, i)|length }}{% endfor %}{{ {}|length }}{{ []|length }}",
	"tests.txt": "{{ 4 is pos }}{{ 0 is not pos }}{% for i in items if i %}{{ loop.index }}{{ i }}{% else %}none{% endfor %}",
}

// c18Shared / c18SharedMap are read-only values that every context refers to (the same Go slice, with spare
// capacity behind its length, and the same Go map): no call may write to them, visibly or not.
var c18Shared = append(make([]stick.Value, 0, 8), "s0", "s1")
var c18SharedMap = map[string]stick.Value{"a": 1}

func init() {
	// every way in which the tokeniser or the parser refuses a template (C20's list), and errors at strings that
	// hold interpolations: a failing parse has two goroutines winding down at once
	for i, src := range c20Broken[2:] {
		c18Templates[fmt.Sprintf("broken-%03d.html", i)] = src
	}
	for i, src := range []string{"line one\n{{ a \"x#{b}y\" }}\nline three", "{% block \"n#{a}\" %}{% endblock %}", "{% if a \"#{b}\" %}yes{% endif %}", "{{ \"#{a}\" \"#{b}\" }}", "{{ [1 \"x#{b}\"] }}", "{% for \"i#{x}\" in items %}{% endfor %}",
		"{{ \"a#{b @ c}d\" }}", "{{ \"a#{b\" }}", "{{ \"a#{\"#{'x' @}\"}\" }}", "{% include \"p#{x}\" nonsense %}", "{{ x|f(\"a#{b}\" 1) }}"} {
		c18Templates[fmt.Sprintf("broken-interp-%02d.txt", i)] = src
	}
	for _, c := range c18Ctx {
		c["shared"] = c18Shared
		c["sharedmap"] = c18SharedMap
		c["dec"] = decimal.NewFromFloat(1.5)
		for _, d := range []int{1, 2, 3, 11, 22} {
			c["tm"+strconv.Itoa(d)] = time.Date(2021, 3, d, 4, 5, 6, 0, time.UTC)
		}
	}
}

// c18SharedIntact reports a modification of the shared values (also beyond the slice's length).
func c18SharedIntact() string {
	full := c18Shared[:cap(c18Shared)]
	if len(c18Shared) != 2 || full[0] != "s0" || full[1] != "s1" {
		return fmt.Sprintf("the shared slice was changed: %v", c18Shared)
	}
	for i := 2; i < len(full); i++ {
		if full[i] != nil {
			return fmt.Sprintf("the spare capacity of the shared slice was written to: slot %d = %v", i, full[i])
		}
	}
	if len(c18SharedMap) != 1 || c18SharedMap["a"] != 1 {
		return fmt.Sprintf("the shared map was changed: %v", c18SharedMap)
	}
	return ""
}

var c18Ctx = []map[string]stick.Value{
	{"x": "<b>&\"'x</b>", "t": true, "items": []stick.Value{"<i>", "two"}, "mm": map[string]stick.Value{"title": "<i>'t'</i>", "wrap": "<w>"}},
	{"x": "plain", "t": false, "items": []stick.Value{}},
	{"x": "'; alert(1); //", "t": true, "items": []stick.Value{1, 2, 3}, "mm": map[string]stick.Value{"title": "</script>"}},
	{"x": "é😀</script>", "t": true, "items": []stick.Value{"a'b"}},
}

// c18All is c18Templates plus generated multi-template programs (every tag and
// operator, inheritance, include/embed/use/import), each under its own name prefix.
var c18All map[string]string
var c18Generated []string

func c18Build(seed int64, n int) {
	c18All = map[string]string{}
	c18Generated = nil
	for k, v := range c18Templates {
		c18All[k] = v
	}
	var filters []string
	for name := range twig.New(nil).Filters {
		if name != "date" && name != "date_modify" {
			filters = append(filters, name)
		}
	}
	sort.Strings(filters)
	for k := 0; k < n; k++ {
		prefix := fmt.Sprintf("g%d/", k)
		g := &gen.ProgGen{R: gen.Rng(seed, "c18prog", k), Hostile: k%4 == 3, Vars: c02vars, IterVars: c02IterVars, SingleEntryHashes: true,
			Prefix: prefix, Filters: filters, Funcs: []string{"pure"}, Tests: []string{"pos"}}
		ts, main := g.Program()
		for name, src := range (&Program{Templates: ts, Main: main}).sources(gen.Canon{}) {
			c18All[name] = src
		}
		c18Generated = append(c18Generated, main)
	}
}

// c18memLoader is the Twig environment's loader. It has one error value for "no such template" (and a second one
// that carries a path): a loader may hand out the same read-only error to every caller - it is race-free as long
// as nobody writes to it. Every environment has its own loader and so its own error values.
type c18memLoader struct {
	inner              *stick.MemoryLoader
	notFound, notThere *os.PathError
}

func newC18memLoader() *c18memLoader {
	return &c18memLoader{inner: &stick.MemoryLoader{Templates: c18All},
		notFound: &os.PathError{Op: "load", Path: "", Err: os.ErrNotExist}, notThere: &os.PathError{Op: "load", Path: "(a template)", Err: os.ErrNotExist}}
}

func (l *c18memLoader) Load(name string) (stick.Template, error) {
	if _, ok := l.inner.Templates[name]; !ok {
		if len(name)%3 != 0 {
			return nil, l.notFound
		}
		return nil, l.notThere
	}
	return l.inner.Load(name)
}

var (
	c18fsOnce sync.Once
	c18fsRoot string // relative to the working directory
)

// c18fsDir writes the templates to a directory (the same bytes from every worker process: a file that is there
// is left alone, a new one is moved into place) and returns its path relative to the working directory - the
// core environment loads from the file system, through a root directory given the way programs usually give it.
func c18fsDir() string {
	c18fsOnce.Do(func() {
		base := os.Getenv("VERIF_DIR")
		if base == "" {
			base = os.TempDir()
		}
		dir := filepath.Join(base, "work", "C18", "fsroot")
		for name, src := range c18All {
			path := filepath.Join(dir, filepath.FromSlash(name))
			if old, err := os.ReadFile(path); err == nil && string(old) == src {
				continue
			}
			os.MkdirAll(filepath.Dir(path), 0o755)
			tmp := fmt.Sprintf("%s.%d.tmp", path, os.Getpid())
			if err := os.WriteFile(tmp, []byte(src), 0o644); err == nil {
				os.Rename(tmp, path)
			}
		}
		wd, _ := os.Getwd()
		rel, err := filepath.Rel(wd, dir)
		if err != nil {
			rel = dir
		}
		c18fsRoot = rel
	})
	return c18fsRoot
}

func c18NewEnvs() (*stick.Env, *stick.Env) {
	tw := twig.New(newC18memLoader())
	co := stick.New(stick.NewFilesystemLoader(c18fsDir()))
	for _, e := range []*stick.Env{tw, co} {
		e.Functions["pure"] = func(ctx stick.Context, args ...stick.Value) stick.Value { return "pure:" + ctx.Name() }
		// meet() holds a caller at the bottom of the include chain until every caller of the round has got there
		// (or two seconds have passed), so that all of them are as deep as they get at the same moment
		e.Functions["meet"] = func(ctx stick.Context, args ...stick.Value) stick.Value {
			if b, _ := c18meet.Load().(*c18barrier); b != nil {
				b.arrive()
			}
			return ""
		}
		e.Tests["pos"] = func(ctx stick.Context, v stick.Value, args ...stick.Value) bool { return stick.CoerceNumber(v) > 0 }
		// fill(h, k, v) puts an entry into the hash it is handed and gives it back: the hash is the caller's own
		e.Functions["fill"] = func(ctx stick.Context, args ...stick.Value) stick.Value {
			if len(args) == 3 {
				if h, ok := args[0].(map[string]stick.Value); ok {
					h[stick.CoerceString(args[1])] = args[2]
					return h
				}
			}
			return nil
		}
	}
	for n, f := range tw.Filters {
		if _, ok := co.Filters[n]; !ok && n != "escape" {
			co.Filters[n] = f
		}
	}
	co.Filters["raw"] = func(ctx stick.Context, v stick.Value, args ...stick.Value) stick.Value { return v }
	tw.Visitors = append(tw.Visitors, &c18reenter{tw})
	co.Visitors = append(co.Visitors, &c18reenter{co})
	return tw, co
}

func c18copyCtx(m map[string]stick.Value) map[string]stick.Value {
	if m == nil {
		return nil // a call without variables
	}
	c := make(map[string]stick.Value, len(m))
	for k, v := range m {
		c[k] = v
	}
	return c
}

var c18ptrRe = regexp.MustCompile(`0x[0-9a-f]{6,}`)

// c18errText is the error's text with pointer values masked: an error that prints a Go value with %v shows
// the addresses of this call's own copies of the context values.
func c18errText(err error) string {
	return c18ptrRe.ReplaceAllString(err.Error(), "0xPTR")
}

// c18ctxAt returns context ci; index len(c18Ctx) is "no context at all" (nil map).
func c18ctxAt(ci int) map[string]stick.Value {
	if ci >= len(c18Ctx) {
		return nil
	}
	return c18Ctx[ci]
}

func c18do(env *stick.Env, op int, name string, ctx map[string]stick.Value) c18exp {
	e, _ := c18doErr(env, op, name, ctx)
	return e
}

// c18doErr also hands out the error value itself: it belongs to the caller from then on.
func c18doErr(env *stick.Env, op int, name string, ctx map[string]stick.Value) (e c18exp, errObj error) {
	if strings.HasPrefix(name, "g") && strings.Contains(name, "/") {
		ctx = detContext() // a fresh map per call
	}
	func() {
		defer func() {
			if r := recover(); r != nil {
				e.err = fmt.Sprintf("PANIC: %v", r)
			}
		}()
		if op == 1 {
			t, err := env.Parse(name)
			if err != nil {
				e.err, errObj = c18errText(err), err
			} else {
				e.out = t.Root().String()
			}
			return
		}
		var buf bytes.Buffer
		if err := env.Execute(name, &buf, ctx); err != nil {
			e.err, errObj = c18errText(err), err
		}
		e.out = buf.String()
	}()
	return e, errObj
}

// c18barrier lets the callers of one round wait for each other (race-free: a counter under a mutex and a channel).
type c18barrier struct {
	mu      sync.Mutex
	want    int
	arrived int
	open    chan struct{}
}

func (b *c18barrier) arrive() {
	b.mu.Lock()
	b.arrived++
	if b.arrived == b.want {
		close(b.open)
	}
	b.mu.Unlock()
	select {
	case <-b.open:
	case <-time.After(2 * time.Second):
	}
}

var c18meet atomic.Value      // *c18barrier of the round in progress, or a nil *c18barrier
var c18meetParse atomic.Value // the same for the callers that are parsing reenter.txt

// c18reenter is a user's node visitor that uses the environment it is registered on: when the template
// reenter.txt is parsed it parses another template through the same environment (as a visitor that validates
// the templates an include names would). In the rounds in which every caller gets to that point it first waits
// for the others, so that as many parses as there are callers are in progress - each inside another load - at the
// same moment. It keeps no state.
type c18reenter struct{ env *stick.Env }

func (v *c18reenter) Enter(n parse.Node) {
	m, ok := n.(*parse.ModuleNode)
	if !ok || m.Origin != "reenter.txt" {
		return
	}
	if b, _ := c18meetParse.Load().(*c18barrier); b != nil {
		b.arrive()
	}
	v.env.Parse("d.txt")
}
func (v *c18reenter) Leave(parse.Node) {}

// event log of the plain build
var (
	c18mu      sync.Mutex
	c18events  []string
	c18rng     *rand.Rand
	c18live    int64
	c18maxLive int64
)

func (p *c18) Init(tier string, seed int64) {
	p.tier, p.seed = tier, seed
	p.rounds = p.pick(160, 3200)
	c18Build(seed, p.pick(10, 24))
	p.names = nil
	for n := range c18Templates {
		p.names = append(p.names, n)
	}
	p.names = append(p.names, c18Generated...)
	sort.Strings(p.names)
	// no monitor-side atomics in this check: remove the step hooks installed by the worker
	parse.VerifLexStep, parse.VerifLexStart, parse.VerifLexExit, parse.VerifParseStep = nil, nil, nil, nil
	stick.VerifExecStep, stick.VerifExecEnd = nil, nil
	if fw.IsRaceBuild {
		parse.VerifTraverse = func(n parse.Node) {
			switch n.(type) {
			case *parse.ModuleNode, *parse.BlockNode, *parse.PrintNode, *parse.BodyNode:
				runtime.Gosched()
			}
		}
	} else {
		c18rng = rand.New(rand.NewSource(seed))
		parse.VerifTraverse = func(n parse.Node) {
			m, isMod := n.(*parse.ModuleNode)
			c18mu.Lock()
			if isMod {
				c18events = append(c18events, m.Origin)
			}
			k := c18rng.Intn(40)
			c18mu.Unlock()
			switch {
			case k < 6:
				runtime.Gosched()
			case k == 6:
				time.Sleep(time.Duration(1+k) * time.Microsecond)
			}
		}
	}
	if fw.IsRaceBuild {
		// cold start: the very first use of everything in this process happens concurrently (what is initialised
		// on first use is initialised under the race detector's eyes); pairs of goroutines walk the templates in
		// the same order, each pair starting somewhere else. Only the race log matters here.
		tw, co := c18NewEnvs()
		var wg sync.WaitGroup
		for g := 0; g < 16; g++ {
			wg.Add(1)
			go func(g int) {
				defer wg.Done()
				off := (g / 2) * len(p.names) / 8
				for k := range p.names {
					n := p.names[(off+k)%len(p.names)]
					env := tw
					if g%4 >= 2 {
						env = co
					}
					c18do(env, k%2, n, c18copyCtx(c18ctxAt(g%len(c18Ctx))))
				}
			}(g)
		}
		wg.Wait()
		// ... and an environment written down as a struct literal (a loader and nothing else: no function, filter
		// or test map, no visitor), used by eight goroutines from its first call on
		lit := &stick.Env{Loader: co.Loader}
		for g := 0; g < 8; g++ {
			wg.Add(1)
			go func(g int) {
				defer wg.Done()
				defer func() { recover() }()
				off := g * len(p.names) / 8
				for k := range p.names {
					c18do(lit, (k+g)%2, p.names[(off+k)%len(p.names)], c18copyCtx(c18ctxAt(g%len(c18Ctx))))
				}
			}(g)
		}
		wg.Wait()
	}
	// sequential result table: every template on a fresh, identically configured pair of environments of its own
	// ("alone" means that nothing else has ever been parsed or run there)
	p.expected = map[string]c18exp{}
	for _, n := range p.names {
		tw, co := c18NewEnvs()
		for ei, env := range []*stick.Env{tw, co} {
			for ci := 0; ci <= len(c18Ctx); ci++ {
				for op := 0; op < 2; op++ {
					p.expected[fmt.Sprintf("%d|%d|%s|%d", ei, op, n, ci)] = c18do(env, op, n, c18copyCtx(c18ctxAt(ci)))
				}
			}
		}
	}
	p.twigEnv, p.coreEnv = c18NewEnvs()
}

func (p *c18) N() int { return p.rounds }

type c18round struct {
	goroutines, calls, maxprocs int
}

func (p *c18) round(i int) c18round {
	ns := []int{2, 4, 16, 64}
	mp := []int{1, 2, 16}
	r := c18round{goroutines: ns[(i/2)%4], maxprocs: mp[(i/8)%3]}
	r.calls = 6
	if r.goroutines >= 16 {
		r.calls = 3
	}
	return r
}

func (p *c18) Describe(i int) interface{} {
	r := p.round(i)
	return map[string]interface{}{"round": i, "goroutines": r.goroutines, "calls_per_goroutine": r.calls, "GOMAXPROCS": r.maxprocs,
		"templates": len(c18Templates), "race_build_worker": i%2 == 0, "shared": "one twig.New and one stick.New environment per worker process, reused by every round"}
}

type c18held struct {
	err  error
	text string
}

type c18mismatch struct {
	key      string
	got, exp c18exp
}

func (p *c18) Run(i int) (res fw.Result) {
	rd := p.round(i)
	old := runtime.GOMAXPROCS(rd.maxprocs)
	defer runtime.GOMAXPROCS(old)
	if !fw.IsRaceBuild {
		c18mu.Lock()
		c18events = c18events[:0]
		c18mu.Unlock()
		atomic.StoreInt64(&c18maxLive, 0)
	}
	if i%8 >= 6 {
		c18meet.Store(&c18barrier{want: rd.goroutines, open: make(chan struct{})})
		c18meetParse.Store(&c18barrier{want: rd.goroutines, open: make(chan struct{})})
	} else {
		c18meet.Store((*c18barrier)(nil))
		c18meetParse.Store((*c18barrier)(nil))
	}
	start := make(chan struct{})
	var wg sync.WaitGroup
	results := make([][]c18mismatch, rd.goroutines)
	held := make([][]c18held, rd.goroutines) // errors the callers keep until the round is over
	for g := 0; g < rd.goroutines; g++ {
		wg.Add(1)
		go func(g int) {
			defer wg.Done()
			r := gen.Rng(p.seed, "c18", i*1000+g)
			// decide the whole call list before the barrier
			type call struct {
				ei, op, ci int
				name       string
			}
			calls := make([]call, rd.calls)
			for k := range calls {
				calls[k] = call{ei: r.Intn(4) / 3, op: r.Intn(4) / 3, ci: r.Intn(len(c18Ctx) + 1), name: p.names[r.Intn(len(p.names))]}
				if i%8 >= 6 {
					// every caller of this round renders the six-deep include chain (or, first, the explicit strategies)
					calls[k].name, calls[k].op = "deep6.txt", 0
					if k == 0 {
						calls[k].name = "strategies.html"
					}
				}
			}
			<-start
			for _, c := range calls {
				env := p.twigEnv
				if c.ei == 1 {
					env = p.coreEnv
				}
				if !fw.IsRaceBuild {
					l := atomic.AddInt64(&c18live, 1)
					for {
						m := atomic.LoadInt64(&c18maxLive)
						if l <= m || atomic.CompareAndSwapInt64(&c18maxLive, m, l) {
							break
						}
					}
				}
				got, errObj := c18doErr(env, c.op, c.name, c18copyCtx(c18ctxAt(c.ci)))
				if errObj != nil {
					held[g] = append(held[g], c18held{errObj, got.err})
				}
				if !fw.IsRaceBuild {
					atomic.AddInt64(&c18live, -1)
				}
				key := fmt.Sprintf("%d|%d|%s|%d", c.ei, c.op, c.name, c.ci)
				if exp := p.expected[key]; got != exp {
					results[g] = append(results[g], c18mismatch{key, got, exp})
				}
			}
		}(g)
	}
	// while the callers run, somebody else builds and configures an environment of their own - with filters of their
	// own under names the built-in ones have - and uses it: another environment is another environment
	wg.Add(1)
	go func() {
		defer wg.Done()
		<-start
		for k := 0; k < 3; k++ {
			tw2, co2 := c18NewEnvs()
			for _, e := range []*stick.Env{tw2, co2} {
				e.Filters["upper"] = func(ctx stick.Context, v stick.Value, args ...stick.Value) stick.Value {
					return "SOMEBODY-ELSE'S-UPPER"
				}
				e.Filters["join"] = func(ctx stick.Context, v stick.Value, args ...stick.Value) stick.Value { return "SOMEBODY-ELSE'S-JOIN" }
				e.Filters["c18own"] = func(ctx stick.Context, v stick.Value, args ...stick.Value) stick.Value { return v }
				e.Functions["c18fn"] = func(ctx stick.Context, args ...stick.Value) stick.Value { return "" }
				e.Tests["c18test"] = func(ctx stick.Context, v stick.Value, args ...stick.Value) bool { return true }
			}
			c18do(tw2, 0, "e", c18copyCtx(c18ctxAt(0)))
			c18do(co2, 0, "d.txt", c18copyCtx(c18ctxAt(1)))
			runtime.Gosched()
		}
	}()
	close(start)
	wg.Wait()
	for g := range held {
		for _, h := range held[g] {
			if now := c18errText(h.err); now != h.text {
				res.Fail("error-changed-after-return", "c18:heldError", fmt.Sprintf("round %d: an error that read %q when the call returned reads %q after the other calls have finished", i, clip(h.text, 200), clip(now, 200)), nil)
			}
		}
	}
	if bad := c18SharedIntact(); bad != "" {
		res.Fail("caller-value-changed", "c18:shared", fmt.Sprintf("round %d: a value handed in through the context was modified: %s", i, bad), nil)
	}
	res.Evals = rd.goroutines * rd.calls
	res.AddObs("concurrent_calls", int64(res.Evals))
	for g, ms := range results {
		for _, m := range ms {
			cls := "result-differs"
			if strings.HasPrefix(m.got.err, "PANIC") {
				cls = "panic"
			}
			res.Fail(cls, "c18:"+m.key, fmt.Sprintf("round %d (%d goroutines, GOMAXPROCS %d), goroutine %d, call env|op|template|ctx=%s: got output %q error %q; run alone it gives output %q error %q",
				i, rd.goroutines, rd.maxprocs, g, m.key, clip(m.got.out, 200), m.got.err, clip(m.exp.out, 200), m.exp.err), nil)
		}
	}
	if fw.IsRaceBuild {
		res.AddClass("race-build-round")
		res.AddObs("race_build_rounds", 1)
	} else {
		res.AddClass("plain-build-round")
		c18mu.Lock()
		h := fnv.New64a()
		for _, e := range c18events {
			h.Write([]byte(e))
			h.Write([]byte{0})
		}
		nev := len(c18events)
		c18mu.Unlock()
		ml := atomic.LoadInt64(&c18maxLive)
		res.AddObs("max:calls_in_flight", ml)
		res.AddObs("module_enter_events", int64(nev))
		if ml >= 2 {
			res.AddObs("rounds_with_overlap", 1)
			res.Sigs = append(res.Sigs, fmt.Sprintf("%d:%x", rd.goroutines, h.Sum64()))
		}
	}
	return
}

func (p *c18) Rule() string {
	return fmt.Sprintf("rounds: N in {2,4,16,64} goroutines released by one barrier, each doing 3..6 calls decided beforehand (Execute or Parse, Twig or core environment, one of %d hand-written templates and 10 (quick) / 24 (thorough) generated multi-template programs (every tag and operator, inheritance chains, include/embed/use/import; own name prefix each), mixing .html/.js/.css/.txt/no extension/unknown extension, blocks, inheritance, include and embed of another content type, macros, imports, filter sections, captures, a six-deep include chain (in a quarter of the rounds - those with 64 goroutines - every caller renders it and a race-free meet() function at the bottom holds each until all have arrived, so that 64 callers have 384 includes open at the same moment), explicit escape strategies incl. unregistered ones, a syntax error, run-time errors (also after partial output inside a filter section, a capture, a macro, a block and an include), filters building new values from a slice (with spare capacity) and a map that ALL contexts share; 4 contexts and no context at all) with its own context map and buffer, on ONE shared twig.New and ONE shared stick.New environment per worker process; GOMAXPROCS in {1,2,16}. Even rounds run in -race workers (traverse hook = bare Gosched at module/block/body/print nodes, no monitor-side synchronisation); odd rounds in plain workers (hook = seeded yields and micro-sleeps, global module-enter event log). Oracles: (1) the race detector's log (halt_on_error=0, log_path) parsed by the driver: every report with a library frame is a violation, deduplicated by the set of library functions involved; (2) every concurrent result (output and error text, or the parsed tree's String()) equals the result of the same call on a fresh identically configured environment on which nothing but that template has ever been parsed or run; (1') in -race workers the first thing the process does is a cold start - 16 goroutines, in pairs, walking all templates on fresh environments - so that whatever is initialised on first use is initialised concurrently; (3) no panic in any goroutine; (4) the shared context values are unchanged after every round, spare capacity included; (5) every error value a call returned still reads the same after all other calls of the round have finished. Non-trivial = plain-build round in which >=2 calls were in flight at once; distinct = (N, hash of the global order of module-enter events).", len(c18Templates))
}

func (p *c18) Assumptions() []string {
	return []string{"only the schedules the Go scheduler plus the yield hook produce are explored", "user callbacks registered by the harness are pure; the loader's map is never written"}
}

func (p *c18) Floors(tier string) map[string]int64 {
	return map[string]int64{"concurrent_calls": 2000, "race_build_rounds": 40, "rounds_with_overlap": 30, "distinct_nontrivial": 30, "race_log_files": 0}
}
