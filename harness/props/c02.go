package props

import (
	"bytes"
	"fmt"
	"math"
	"sort"
	"strings"
	"time"

	"github.com/tyler-sommer/stick"
	"github.com/tyler-sommer/stick/twig"

	"verifharness/fw"
	"verifharness/gen"
	"verifharness/mon"
)

// C02 — execution is total.
type c02 struct {
	base
	nProg       int
	filters     []string
	zoo         []gen.Named
	argLists    [][]stick.Value
	nFilterCase int
	handN       int
	hand        []string
}

func init() { fw.Register("C02", func() fw.Property { return &c02{} }) }

func (p *c02) ID() string { return "C02" }

// hand-written templates for the situations the property names
var c02Hand = []string{
	"{{ 1 % 0.5 }}", "{{ 7 % '0.25' }}", "{{ x % (1/3) }}", "{{ 7 % (-1/3) }}", "{{ 7 % '' }}", "{{ 7 % null }}", "{{ 7 // 0.5 }}", "{{ 7 % (0/0) }}", "{{ 7 % (1/0) }}", "{{ (1/0) % 3 }}", "{{ 1e300 % 7 }}", "{{ 7 % 1e300 }}", "{{ (-9223372036854775808) % (-1) }}",
	// names the executor uses itself, bound to something else by the template or the caller
	"{% set loop = 'a' %}{% for i in arr %}{{ loop.index }}{{ loop.parent }}{{ loop.parent.index }}{% endfor %}{{ loop }}", "{% macro m(loop, _self, _context) %}{% for i in [1, 2] %}{{ loop.index }}{{ loop.parent }}{% endfor %}{{ _self }}{% endmacro %}{{ _self.m(7, 8, 9) }}{{ _self.m() }}",
	"{% for loop in arr %}{{ loop }}{% for j in [1] %}{{ loop.parent }}{{ loop.index }}{% endfor %}{% endfor %}", "{% for i in arr %}{% set loop = i %}{{ loop.index }}{% for j in arr %}{{ loop.parent }}{% endfor %}{% endfor %}",
	"{% set _self = 3 %}{{ _self }}{{ _self.m() }}{% macro m() %}x{% endmacro %}", "{% for k, loop in {'a': 1} %}{{ loop }}{{ k }}{% endfor %}", "{% set loop = {'parent': {'parent': 3}} %}{% for i in [1] %}{{ loop.parent.parent.parent }}{% endfor %}",
	"{% set loop = null %}{% for i in arr %}{{ loop.parent }}{% endfor %}", "{% set loop = arr %}{% for i in loop %}{{ loop.index }}{{ loop.parent|length }}{% endfor %}",
	// a callback that uses everything its context offers, called from every place a callback can be called from
	"{{ ctxall() }}{% include 'inc' %}{% embed 'inc' %}{% block ib %}{{ ctxall() }}{% block nested %}{{ ctxall() }}{% endblock %}{% endblock %}{% endembed %}{% macro m() %}{{ ctxall() }}{% endmacro %}{{ _self.m() }}{% block b %}{{ ctxall() }}{% endblock %}{{ block('b') }}",
	"{% set c %}{{ ctxall() }}{% endset %}{% filter upper %}{{ ctxall() }}{% endfilter %}{% for i in arr %}{{ ctxall() }}{% else %}{{ ctxall() }}{% endfor %}{% for i in [] %}{% else %}{{ ctxall() }}{% endfor %}{% if ctxall() %}{% endif %}{% do ctxall() %}{% include ctxall() ~ 'inc' with {'a': ctxall()} only %}",
	"{% embed 'inc' with {'a': ctxall()} %}{% block ib %}{% embed 'inc' %}{% block ib %}{{ ctxall() }}{{ parent() }}{% endblock %}{% endembed %}{% include 'inc' %}{% endblock %}{% endembed %}{% import 'inc' as q %}{% from 'inc' import nomacro %}",
	"{{ 1 % 0 }}", "{{ 1 // 0 }}", "{{ 1 / 0 }}", "{{ x % z }}", "{{ 5..1 }}", "{{ (0/0)..3 }}", "{{ 1..2.5 }}", "{{ (-2)..2 }}", "{{ 3..3 }}", "{{ 'a'..'e' }}",
	"{% for i in arr if i > 1 %}{{ i }}{% endfor %}", "{% for i in arr if false %}{{ i }}{% else %}none{% endfor %}",
	"{{ m[1] }}", "{{ m[null] }}", "{{ m[true] }}", "{{ {(s):1}[1] }}", "{{ {'a':1}[0] }}", "{{ mi['x'] }}", "{{ mi[1.5] }}", "{{ arr['x'] }}", "{{ arr[null] }}",
	"{{ obj.Add(1, 2) }}", "{{ obj.Add('a', null) }}", "{{ obj.Add(1) }}", "{{ obj.NilFunc() }}", "{{ obj.hidden }}", "{{ obj.hiddenFn }}", "{{ obj.hiddenFn() }}", "{% if obj.hiddenFn %}y{% endif %}{{ obj.hiddenNil() }}", "{{ obj['hiddenFn'] }}{{ obj.Inner.hiddenFn }}", "{{ obj.TakesPtr(null) }}", "{{ obj.Concat(1, 2) }}", "{{ np.Name }}", "{{ np.ValueMethod() }}",
	"{{ s|capitalize }}", "{{ ''|capitalize }}", "{{ []|first }}", "{{ []|last }}", "{{ ''|first }}", "{{ arr|first }}", "{{ parr|first }}", "{{ parr|last }}", "{{ parr|reverse }}", "{{ []|reverse }}",
	"{{ arr|batch(0) }}", "{{ arr|batch(2, 'x')|length }}", "{{ 3.7|round(1, 'floor') }}", "{{ 1|round(400) }}", "{{ 'now'|date('Y') }}", "{{ 5|date('Y-m-d') }}", "{{ m|keys|join(',') }}", "{{ m|merge(arr) }}", "{{ arr|merge(m)|length }}",
	"{{ s|replace({'a': 'b'}) }}", "{{ s|replace(1) }}", "{{ arr|join }}", "{{ obj|json_encode }}", "{{ fnv|json_encode }}", "{{ m|length }}", "{{ null|length }}", "{{ s|slice(1) }}",
	"{{ not(arr) }}", "{{ -s }}", "{{ -arr }}", "{{ arr ~ m }}", "{{ arr + 1 }}", "{{ arr == arr }}", "{{ 1 in 5 }}", "{{ 'a' in 'abc' }}", "{{ s matches '(' }}", "{{ 2 ** 1024 }}", "{{ 2 b-and -1 }}",
	"{% set x = 1 %}{% for k, v in m %}{{ k }}{{ v }}{{ loop.parent }}{% endfor %}", "{% include 1 %}", "{% include null %}", "{% include arr %}", "{% include 'nope' %}",
	"{% filter nofilter %}x{% endfilter %}", "{% filter upper %}{{ 1 % 0 }}{% endfilter %}", "{{ nofunc() }}", "{{ x is notest }}", "{{ block('none') }}", "{{ parent() }}", "{% do 1 % 0 %}",
	"{% macro m(a) %}{{ a.b }}{% endmacro %}{{ _self.m() }}{{ _self.m(1, 2, 3) }}{{ _self.nope() }}", "{{ _self.templateName }}", "{{ _self }}", "{{ loop }}", "{{ loop.index }}",
	"{% import 'nope' as x %}", "{% from 'nope' import y %}", "{% extends 'nope' %}", "{% use 'nope' %}", "{% embed 'nope' %}{% endembed %}",
	"{% for i in 1..3 %}{% for j in i..3 %}{{ loop.parent.loop.index }}{{ loop.parent.index }}{% endfor %}{% endfor %}",
	"{{ 'now'|date('Y\\') }}", "{{ 'now'|date('\\') }}", "{{ tm|date('D, d M Y\\') }}", "{{ nilm|merge({'a': 1}) }}", "{{ nilm|merge(m) }}", "{{ m|merge(nilm) }}", "{{ arr[arr] }}", "{{ m[m] }}", "{{ m[arr] }}", "{{ m[fnv] }}", "{{ obj[obj] }}", "{{ (1..3)[5] }}", "{{ 'str'.x }}", "{{ 5.x }}", "{{ null.x }}", "{{ true[0] }}",
}

func (p *c02) Init(tier string, seed int64) {
	p.tier, p.seed = tier, seed
	p.nProg = p.pick(40000, 1500000)
	env := twig.New(nil)
	for name := range env.Filters {
		p.filters = append(p.filters, name)
	}
	sort.Strings(p.filters)
	p.zoo = append(gen.Scalars(), gen.Containers()...)
	p.argLists = [][]stick.Value{{}, {0}, {1}, {2}, {-1}, {"x"}, {""}, {nil}, {1.5}, {math.NaN()}, {2, "f"}, {3, nil}, {"Y-m-d"}, {[]int{1, 2}}, {map[string]stick.Value{"a": "b"}}, {1, 2, 3},
		{400}, {math.Inf(1)}, {-5, "ceil"}, {"a", "b"}, {true},
		{"j日\\a"}, {"日\\"}, {"é\\é"}, {"\\日"}, {"日本\\語x"}, {"\xe6\\a"}, {"😀\\"}, {"\\"}, {"Y-m-d\\"}, {"D, d M Y H:i:s \\a\\t"}, {"jS F y"}, {"%"}, {"%s %d %"}, {strings.Repeat("x", 300)}, {"é"}, {"\xff"}, {-1, -1}, {1 << 40}, {0.5, 0.5},
		{2.5}, {2.9, "f"}, {"2.9"}, {3.5}, {7, -2}, {-2.5}, {0.9}, {1, 1.5}, {19}, {20}, {21, 1},
		{map[string]stick.Value(nil)}, {[]stick.Value(nil)}, {(*int)(nil)}, {gen.ValStringer{S: "s"}}, {[]string{"a", "b"}, "x"}, {"", ""}, {" ", 2}}
	p.nFilterCase = len(p.filters) * len(p.zoo)
	// every context variable looked up with every awkward key, in every way a template can
	p.hand = append([]string{}, c02Hand...)
	for _, v := range c02Vars() {
		for _, k := range gen.HostileStrs {
			if strings.ContainsAny(k, "'\\") {
				continue
			}
			p.hand = append(p.hand, fmt.Sprintf("{{ %s['%s'] }}{{ '%s' in %s }}{%% for x in %s['%s'] %%}.{%% endfor %%}{{ %s['%s'] is defined }}{%% set y = %s[('%s')] ~ 1 %%}", v, k, k, v, v, k, v, k, v, k))
		}
	}
	// ... and handed to every construct that takes a whole value: the with-hash of include and embed, the name of a
	// template, a loop with key, the subject of the container filters
	for _, v := range c02Vars() {
		p.hand = append(p.hand,
			fmt.Sprintf("{%% include 'inc' with %s %%}{%% include 'inc' with %s only %%}{%% embed 'inc' with %s %%}{%% endembed %%}{%% embed 'inc' with %s only %%}{%% block ib %%}{{ a }}{%% endblock %%}{%% endembed %%}", v, v, v, v),
			fmt.Sprintf("{%% for k, x in %s %%}{{ k }}={{ x }}{{ loop.length }}{%% else %%}none{%% endfor %%}{{ %s|length }}{{ %s|keys|join(',') }}{{ %s|first }}{{ %s|last }}{{ %s|merge(%s)|length }}{{ %s|json_encode }}", v, v, v, v, v, v, v, v),
			fmt.Sprintf("{%% include %s %%}", v), fmt.Sprintf("{%% extends %s %%}", v), fmt.Sprintf("{%% import %s as q %%}{{ q.m() }}", v), fmt.Sprintf("{%% use %s %%}", v),
			fmt.Sprintf("{%% include ['inc', %s] %%}", v), fmt.Sprintf("{{ {(%s): 1}|keys|join }}{{ [%s, %s]|join(%s) }}{{ %s ? %s : %s }}{{ %s == %s }}{{ %s in [%s] }}{{ %s starts with %s }}{{ %s matches '/' ~ %s ~ '/' }}", v, v, v, v, v, v, v, v, v, v, v, v, v, v, v))
	}
	// ... and bound to the names the executor uses itself, in front of the constructs that bind those names
	for _, v := range append(c02Vars(), "null", "nan", "7", "'a'", "[1]", "{'parent': 1}", "{'parent': {'parent': x}}") {
		p.hand = append(p.hand, fmt.Sprintf("{%% set loop = %s %%}{%% for i in arr %%}{{ loop.index }}{{ loop.parent }}{%% for j in arr %%}{{ loop.parent.index }}{{ loop.parent.parent }}{{ loop.parent.parent.parent }}{%% endfor %%}{%% endfor %%}{{ loop }}{%% for i in loop %%}{{ loop.first }}{%% endfor %%}", v),
			fmt.Sprintf("{%% macro m(loop, _self) %%}{%% for i in [1, 2] %%}{{ loop.index }}{{ loop.parent }}{{ loop.parent.parent }}{%% endfor %%}{{ _self }}{%% endmacro %%}{%% set _self = %s %%}{{ _self.m(%s, %s) }}{{ _self.m(%s) }}", v, v, v, v),
			fmt.Sprintf("{%% include 'inc' with {'loop': %s, '_self': %s} only %%}{%% for loop in [%s] %%}{%% for j in [1] %%}{{ loop.parent }}{{ loop.parent.parent }}{%% endfor %%}{%% endfor %%}", v, v, v))
	}
	// ... and to every method of a struct, as the only argument and as one of two (null included: "nul")
	for _, v := range []string{"enil", "enilp", "eptr", "onil", "onilp", "np", "obj", "pt", "ov", "op"} {
		for _, m := range []string{"String", "Number", "Boolean", "Hello", "PtrHello", "Name", "Tag", "N"} {
			p.hand = append(p.hand, fmt.Sprintf("{{ %s.%s }}{{ %s.%s() }}{{ %s.%s(1) }}{{ %s }}{{ %s ~ 'x' }}{{ %s + 1 }}{%% if %s %%}t{%% endif %%}{{ %s == %s }}{{ %s in [%s] }}", v, m, v, m, v, m, v, v, v, v, v, v, v, v))
		}
	}
	// every pattern-like string as a pattern, as a subject and on both sides of the string operators
	pats := []string{"/", "/admin", "//", "/a/", "/a/i", "/a", "a/", "[", "(", "(?", "(?i)a", "\\", "*", "+", "?", "{", "a{2", "a{2,1}", "^", "$", ".", "|", "(a|", "[a-", "\\p{", "(?P<n>", "x{1000}", "(((((a)))))", "\\1", ""}
	for _, pt := range pats {
		q := "'" + pt + "'"
		for _, form := range []string{"{{ 'abc/admin' matches %s }}", "{{ %s matches 'a' }}", "{{ s matches %s }}", "{{ %s starts with %s }}", "{{ %s ends with s }}", "{{ %s in [%s] }}", "{%% if '/x' matches %s %%}y{%% endif %%}", "{{ {(%s): 1}|keys|join }}", "{{ s|replace({(%s): %s}) }}", "{{ s|split(%s)|join(%s) }}", "{{ s|trim(%s) }}"} {
			args := make([]interface{}, strings.Count(form, "%s"))
			for k := range args {
				args[k] = q
			}
			p.hand = append(p.hand, fmt.Sprintf(form, args...))
		}
	}
	for _, m := range []string{"ValueMethod", "PtrMethod", "Add", "Concat", "Variadic", "Join", "Fmt", "Two", "Nothing", "TakesPtr", "TakesIface", "TakesFloat", "TakesSlice", "TakesUint", "TakesInt8", "TakesUint8", "NilFunc", "Fn", "Name", "TakesArray", "TakesArrayPtr", "TakesVals", "TakesBytes", "TakesValsPtr"} {
		for _, v := range append(c02Vars(), "null", "nan", "inf", "big") {
			p.hand = append(p.hand, fmt.Sprintf("{{ obj.%s(%s) }}{{ pt.%s(%s, %s) }}{{ obj.%s('x', 1, %s) }}", m, v, m, v, v, m, v))
		}
	}
	// lists of every small length (as literals and from the context) for parameters that are slices and arrays
	for _, m := range []string{"TakesSlice", "TakesArray", "TakesArrayPtr", "TakesVals", "TakesBytes", "TakesValsPtr", "TakesIface", "Variadic", "Join"} {
		for _, a := range []string{"[]", "[1]", "[1, 2]", "[1, 2, 3]", "['a']", "[null]", "[[1]]", "earr", "arr", "parr", "vals", "s", "es", "{}", "{'a': 1}", "1..2", "1..4", "s|split('')"} {
			p.hand = append(p.hand, fmt.Sprintf("{{ obj.%s(%s) }}|{{ pt.%s(%s) }}|{{ attribute(obj, '%s', [%s]) }}", m, a, m, a, m, a))
		}
	}
	p.handN = len(p.hand)
}

func (p *c02) N() int { return p.handN + p.nFilterCase + p.nProg }

func c02Context() map[string]stick.Value {
	th := gen.NewThing()
	var np *gen.Thing
	arr := []int{1, 2, 3}
	return map[string]stick.Value{
		"x": 7, "z": 0, "neg": -3, "fr": 0.5, "s": "abc", "es": "", "t": true, "f": false, "nul": nil, "ns": "12",
		"arr": arr, "parr": &arr, "earr": []stick.Value{}, "vals": []stick.Value{1, "a", nil, 2.5},
		"m": map[string]stick.Value{"a": 1, "k": "v"}, "mi": map[int]string{1: "one"}, "em": map[string]stick.Value{},
		"obj": th, "pt": &th, "np": np, "nan": math.NaN(), "inf": math.Inf(1), "big": int64(math.MaxInt64), "fnv": func() {},
		"things": []gen.Thing{th}, "nested": map[string]stick.Value{"in": map[string]stick.Value{"k": []int{1}}},
		"ks": map[gen.KeyStr]int{"a": 1}, "ki": map[gen.KeyInt]string{1: "one"}, "dn": gen.KeyInt(2), "ds": gen.KeyStr("a"), "db": gen.NamedBool(true), "nsl": gen.NamedSlice{5, 6},
		"ov": gen.OuterVal{Inner: gen.Inner{Name: "in", N: 1}, Extra: 2}, "op": gen.OuterPtr{Inner: &gen.Inner{Name: "ep", N: 5}, Extra: 6}, "onil": gen.OuterPtr{Extra: 7}, "oi": gen.OuterIface{Any: []int{1}},
		"cyc": cyclicMap(), "cycs": cyclicSlice(), "cycp": cyclicStruct(), "cychold": gen.OuterIface{Any: cyclicMap()}, "cycholdp": &gen.OuterIface{Any: cyclicSlice()},
		"str": gen.ValStringer{S: "st"}, "safe": stick.NewSafeValue("<b>", "html"), "tm": time.Date(2021, 3, 4, 5, 6, 7, 0, time.UTC), "nilm": map[string]stick.Value(nil),
		"mnan": map[float64]string{math.NaN(): "a", 1: "b"}, "mif": map[interface{}]stick.Value{"a": 1, 2: "b", nil: 3, math.NaN(): 4, [2]int{1, 2}: 5}, "mbool": map[bool]int{true: 1, false: 0},
		"enil": gen.EmbedsIfaces{}, "enilp": &gen.EmbedsIfaces{}, "eptr": gen.EmbedsStringerPtr{Tag: "t"}, "onilp": &gen.OuterPtr{Extra: 8},
		// maps whose keys are pointers to (or hold) values that contain themselves
		"mpk": map[*gen.OuterIface]int{cyclicStruct(): 1}, "mpk2": map[*gen.OuterIface]int{{Any: cyclicMap()}: 1, nil: 2}, "mik": map[interface{}]int{cyclicStruct(): 1, &gen.OuterIface{Any: cyclicSlice()}: 2},
		"mptr": &map[string]stick.Value{"a": 1}, "mst": map[gen.Inner]int{{Name: "x", N: 1}: 1},
	}
}

// Values that contain themselves: a map, a slice, and a struct reached through its own pointer field.
func cyclicMap() map[string]stick.Value {
	m := map[string]stick.Value{"k": "v"}
	m["self"] = m
	return m
}

func cyclicSlice() []stick.Value {
	s := []stick.Value{"e", nil}
	s[1] = s
	return s
}

func cyclicStruct() *gen.OuterIface {
	o := &gen.OuterIface{Any: "a"}
	o.Next = o
	return o
}

// detContext is c02Context without multi-entry maps (nothing may depend on Go's
// map iteration order in the differential checks).
func detContext() map[string]stick.Value {
	c := c02Context()
	c["m"] = map[string]stick.Value{"k": "v"}
	delete(c, "cyc") // two entries: iteration order
	delete(c, "cychold")
	delete(c, "cycholdp")
	c["mnan"] = map[float64]string{math.NaN(): "a"}
	c["mif"] = map[interface{}]stick.Value{math.NaN(): 4}
	c["mbool"] = map[bool]int{true: 1}
	c["mpk2"] = map[*gen.OuterIface]int{{Any: cyclicMap()}: 1}
	c["mik"] = map[interface{}]int{cyclicStruct(): 1}
	return c
}

func c02Vars() []string {
	var vs []string
	for k := range c02Context() {
		if k != "big" && k != "inf" && k != "nan" { // range-like operators never see huge or non-finite bounds
			vs = append(vs, k)
		}
	}
	sort.Strings(vs)
	return vs
}

var c02vars = c02Vars()

var c02IterVars = []string{"arr", "parr", "earr", "vals", "m", "mi", "em", "things", "nul", "ks", "ki", "nsl"}

func (p *c02) program(i int) (map[string]*gen.Template, bool) {
	g := &gen.ProgGen{R: gen.Rng(p.seed, "c02", i), Hostile: i%3 != 2, Vars: c02vars, IterVars: c02IterVars}
	useTwig := i%2 == 1
	if useTwig {
		g.Filters = p.filters
		g.Funcs = nil
	} else {
		g.Filters = []string{"wrap", "inc", "up", "ident"}
		g.Funcs = []string{"fn", "num", "truth", "pair", "ident"}
		g.Tests = []string{"pos", "eq", "divisible by", "empty"}
	}
	ts, _ := g.Program()
	return ts, useTwig
}

func (p *c02) Describe(i int) interface{} {
	switch {
	case i < p.handN:
		return map[string]interface{}{"kind": "hand-written", "template": p.hand[i], "envs": "core and twig"}
	case i < p.handN+p.nFilterCase:
		j := i - p.handN
		return map[string]interface{}{"kind": "builtin-filter", "filter": p.filters[j/len(p.zoo)], "value": p.zoo[j%len(p.zoo)].Label, "arg_lists": len(p.argLists)}
	}
	ts, tw := p.program(i - p.handN - p.nFilterCase)
	return map[string]interface{}{"kind": "random-program", "twig_env": tw, "templates": gen.DescribeTemplates(ts)}
}

// c02MainNames: what the hand-written templates are called.
var c02MainNames = []string{"main", "main.html", "main.js.twig", "twig", ".twig", "twig.twig", ".", "..", "a.", "x/.twig", "main.txt", "noext", ".html", "a..b", "twig.", ".twig.twig", "main", "t.url", "a/b/c", "/", "./twig", "x.twig/y", "é.js", "main.", "...", "main.css"}

// c02Inc is what the hand-written templates include and embed.
const c02Inc = "<{{ ctxall() }}{{ a }}{{ k }}{% block ib %}ib{{ ctxall() }}{% endblock %}{% set a = 1 %}{% for q in [1, 2] %}{{ loop.index }}{{ loop.parent }}{% endfor %}{{ _self }}>"

func execNoPanic(env *stick.Env, name string, ctx map[string]stick.Value, budgetLen int) (out string, err error, pan interface{}, steps int64) {
	var buf bytes.Buffer
	mon.BeginExec()
	func() {
		defer func() {
			if r := recover(); r != nil {
				pan = fmt.Sprintf("%v [%s]", r, panicSite())
			}
		}()
		err = env.Execute(name, &buf, ctx)
	}()
	_, _, steps = mon.EndCall()
	return buf.String(), err, pan, steps
}

func kindsSig(k map[string]int64) string {
	ks := make([]string, 0, len(k))
	for n := range k {
		ks = append(ks, n)
	}
	sort.Strings(ks)
	return strings.Join(ks, ",")
}

func (p *c02) Run(i int) (res fw.Result) {
	mon.TallyKinds()
	var kinds map[string]int64
	switch {
	case i < p.handN:
		src := p.hand[i]
		// the template goes by a name; whatever is derived from names (a content type, a directory) is derived from
		// every name without accident
		main := c02MainNames[i%len(c02MainNames)]
		for _, tw := range []bool{false, true} {
			var env *stick.Env
			if tw {
				env, _ = mon.NewTwigEnv(map[string]string{main: src, "inc": c02Inc})
			} else {
				env, _ = mon.NewCoreEnv(map[string]string{main: src, "inc": c02Inc})
				for n, f := range twig.New(nil).Filters {
					if _, ok := env.Filters[n]; !ok && n != "escape" {
						env.Filters[n] = f
					}
				}
			}
			_, err, pan, steps := execNoPanic(env, main, c02Context(), len(src)*8)
			res.Evals++
			res.AddObs("exec_steps", steps)
			if pan != nil {
				res.Fail("panic", fmt.Sprintf("c02:hand:%v:%s", tw, src), fmt.Sprintf("Execute(%q) under the name %q (twig=%v) panicked: %v", src, main, tw, pan), nil)
			}
			res.AddClass("hand/" + okOrErr(err))
		}
		res.UniqueNT = 1
	case i < p.handN+p.nFilterCase:
		j := i - p.handN
		name, z := p.filters[j/len(p.zoo)], p.zoo[j%len(p.zoo)]
		env := twig.New(nil)
		f := env.Filters[name]
		for ai, args := range p.argLists {
			res.Evals++
			func() {
				defer func() {
					if r := recover(); r != nil {
						res.Fail("filter-panic", fmt.Sprintf("c02:filter:%s:%s:%d", name, z.Label, ai), fmt.Sprintf("filter %s applied to %s with args %s panicked: %v", name, z.Label, clip(fmt.Sprintf("%#v", args), 100), r), nil)
					}
				}()
				f(nil, z.V, args...)
			}()
		}
		// and through a template: {{ v|name(a) }} and {% filter name %}
		for _, src := range []string{"{{ v|" + name + " }}", "{{ v|" + name + "(a) }}", "{{ v|" + name + "(a, b) }}", "{% filter " + name + " %}{{ v }}{% endfilter %}"} {
			ctx := map[string]stick.Value{"v": z.V, "a": p.argLists[(j+1)%len(p.argLists)], "b": "b"}
			if al := p.argLists[j%len(p.argLists)]; len(al) > 0 {
				ctx["a"] = al[0]
			}
			env := twig.New(&stick.MemoryLoader{Templates: map[string]string{"main": src}})
			_, err, pan, steps := execNoPanic(env, "main", ctx, len(src)*8)
			res.Evals++
			res.AddObs("exec_steps", steps)
			if pan != nil {
				res.Fail("filter-panic", fmt.Sprintf("c02:filtertpl:%s:%s:%s", name, z.Label, src), fmt.Sprintf("%s with v=%s panicked: %v", src, z.Label, pan), nil)
			}
			res.AddClass("filter-template/" + okOrErr(err))
		}
		res.UniqueNT = 1
	default:
		ts, tw := p.program(i - p.handN - p.nFilterCase)
		prog := &Program{Templates: ts, Main: "main"}
		src := prog.sources(gen.Canon{})
		var env *stick.Env
		if tw {
			env, _ = mon.NewTwigEnv(src)
		} else {
			env, _ = mon.NewCoreEnv(src)
		}
		total := 0
		for _, s := range src {
			total += len(s)
		}
		_, err, pan, steps := execNoPanic(env, "main", c02Context(), total*8)
		res.AddObs("exec_steps", steps)
		res.AddObs("max:exec_steps_per_call", steps)
		if pan != nil {
			res.Fail("panic", fmt.Sprintf("c02:prog:%d:%d", p.seed, i), fmt.Sprintf("Execute panicked: %v", pan), map[string]interface{}{"twig_env": tw, "templates": src})
		}
		res.AddClass("program/" + okOrErr(err))
		if err != nil && strings.HasPrefix(err.Error(), "parse:") {
			// what kind of parse error the generator's programs run into (they are meant to parse)
			res.AddClass("program-parse-error: " + errKind(err))
		}
		if steps > 3 {
			kinds = mon.Kinds()
			res.Sigs = append(res.Sigs, kindsSig(kinds)+"|"+errKind(err))
		}
	}
	if kinds == nil {
		kinds = mon.Kinds()
	}
	for k, v := range kinds {
		res.AddObs("node:"+k, v)
	}
	return
}

func okOrErr(err error) string {
	if err == nil {
		return "rendered"
	}
	if strings.HasPrefix(err.Error(), "parse:") {
		return "parse-error"
	}
	return "runtime-error"
}

func (p *c02) Rule() string {
	return p.ruleBase() + " " + "Round 12: methods with array parameters ([2]int, *[3]int, [2]Value, [4]byte) called with lists of every small length (literals, context slices, ranges, split results) directly and through attribute(); zoo values whose MarshalJSON / MarshalText is promoted from an embedded pointer or interface that is nil (struct{ *time.Time }{}), alone and inside slices, maps and structs, under every built-in filter."
}

func (p *c02) ruleBase() string {
	return "cases: (0) every context variable (48, incl. maps keyed by defined types, defined scalars, embedded structs with a nil embedded pointer, structs with interface fields) looked up with every awkward key (NaN, Inf, 1e400, 0x1, -1, field names ...) through [], in, for, is defined and set; (1) hand-written templates for every situation the statement names (zero divisors, descending/fractional/NaN ranges, 'for..if' with false conditions, hashes indexed by number/null/array, wrong-typed/nil/missing method arguments, nil func fields, unexported fields, empty and pointer inputs to filters, missing templates, unknown callbacks), each in the core and the Twig environment; (2) every built-in Twig filter x the whole Go-value zoo x 21 argument lists, called directly and through {{ v|f }}, {{ v|f(a) }}, {{ v|f(a,b) }} and {% filter f %}; (3) seeded random programs from the hostile generator: every tag (if/elseif/else, for[/key][/if][/else], set, set-capture, filter, block, macro, import, from, include[/with][/only], embed, extends chains of 0..3 ancestors with parent() at every level and expression-named parents, use[/alias], do, verbatim, comments) and every operator over a 26-variable context holding the zoo's shapes. Oracle: Execute returns (output or error); a panic, a process death, an executor step budget (20M) or CPU budget overrun is a violation. Non-trivial = more than 3 executor steps; distinct = (set of node kinds the executor hook saw, error kind)."
}

func (p *c02) Assumptions() []string {
	return []string{"template call graphs are acyclic and macros only call earlier macros (unbounded recursion is outside the claim)",
		"range bounds are small literals (spans above a million and non-finite bounds are outside the claim)",
		"methods and callbacks of the harness do not panic"}
}

func (p *c02) Floors(tier string) map[string]int64 {
	return map[string]int64{"exec_steps": 100000, "distinct_nontrivial": 500, "node:ForNode": 100, "node:IfNode": 100, "node:BlockNode": 100, "node:FilterExpr": 100, "node:GetAttrExpr": 100, "node:EmbedNode": 10, "node:IncludeNode": 10}
}
