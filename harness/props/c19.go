package props

import (
	"bytes"
	"fmt"
	"os"
	"path/filepath"
	"runtime"
	"runtime/debug"
	"sort"
	"strings"
	"sync/atomic"
	"syscall"
	"time"

	"github.com/tyler-sommer/stick"
	"github.com/tyler-sommer/stick/parse"
	"github.com/tyler-sommer/stick/twig"

	"verifharness/fw"
	"verifharness/gen"
	"verifharness/mon"
)

// C19 — no goroutines or file handles are left behind.
type c19 struct {
	base
	inj   []string // corpus templates with one syntax error injected at a fragment boundary
	nInj  int      // histories covering inj exhaustively
	nRand int
	// fragment sequences
	nSeq, nSeqHist int
	seqOffs        []int
}

func init() { fw.Register("C19", func() fw.Property { return &c19{} }) }

func (p *c19) ID() string { return "C19" }

const c19PerHistory = 25

func (p *c19) Init(tier string, seed int64) {
	p.tier, p.seed = tier, seed
	bad := []string{"@", "{% zork %}", "5 5", "}}", "{{", "'", "("}
	stride := p.pick(3, 1)
	for ci, s := range gen.Corpus() {
		f := gen.Split(s)
		for j := 0; j <= len(f); j++ {
			// every boundary of the templates with interpolated strings (the tokeniser runs a nested loop there)
			if (j+ci)%stride != 0 && !strings.Contains(s, "#{") {
				continue
			}
			p.inj = append(p.inj, strings.Join(f[:j], "")+bad[(j+ci)%len(bad)]+strings.Join(f[j:], ""))
		}
	}
	// operators of two words, the words apart by more (or other) than one blank: the tokeniser hands over a token
	// that is not spelled like its input. Every kind of offender at every boundary, touching its neighbours
	for _, s := range []string{"{{ a is  not b }}", "{{ a not\tin b }}", "{% if a starts\n with 'x' %}y{% endif %}", "{{ a ends   with 'x' and b is \t not c }}", "{{ a is\r\nnot b ? c not  in d : e }}"} {
		f := gen.Split(s)
		for j := 0; j <= len(f); j++ {
			for _, b := range append(bad, ")", "]", "}", "\"") {
				p.inj = append(p.inj, strings.Join(f[:j], "")+b+strings.Join(f[j:], ""))
				if j > 0 && strings.TrimSpace(f[j-1]) == "" {
					p.inj = append(p.inj, strings.Join(f[:j-1], "")+b+strings.Join(f[j:], ""))
				}
			}
		}
	}
	p.nInj = (len(p.inj) + c19PerHistory - 1) / c19PerHistory
	p.nRand = p.pick(600, 20000)
	// bounded-exhaustive fragment sequences: where exactly the input ends decides whether the tokeniser is
	// still owed a reader when the parser gives up
	nf := len(gen.Fragments)
	for l := 1; l <= p.pick(3, 4); l++ {
		p.seqOffs = append(p.seqOffs, p.nSeq)
		p.nSeq += gen.Pow(nf, l)
	}
	p.nSeqHist = (p.nSeq + c19SeqPerHistory - 1) / c19SeqPerHistory
}

const c19SeqPerHistory = 200

func (p *c19) N() int { return p.nInj + p.nRand + p.nSeqHist }

type c19call struct {
	loader string // string | memory | fs
	kind   string
	name   string // template to execute (or source, for the string loader)
	parse  bool   // Parse instead of Execute
	twig   bool
}

type c19history struct {
	files map[string]string // templates for the memory / filesystem loaders
	calls []c19call
}

func (p *c19) history(i int) c19history {
	h := c19history{files: map[string]string{}}
	if i < p.nInj {
		for k := i * c19PerHistory; k < (i+1)*c19PerHistory && k < len(p.inj); k++ {
			name := fmt.Sprintf("inj%d.twig", k)
			h.files[name] = p.inj[k]
			ld := []string{"string", "memory", "fs"}[k%3]
			c := c19call{loader: ld, kind: "injected-syntax-error", name: name, parse: k%2 == 0, twig: k%4 == 1}
			if ld == "string" {
				c.name = p.inj[k]
			}
			h.calls = append(h.calls, c)
		}
		return h
	}
	if i >= p.nInj+p.nRand {
		j0 := (i - p.nInj - p.nRand) * c19SeqPerHistory
		for j := j0; j < j0+c19SeqPerHistory && j < p.nSeq; j++ {
			k := searchOffs(p.seqOffs, j)
			h.calls = append(h.calls, c19call{loader: "string", kind: "fragment-sequence", name: gen.FragSeq(j-p.seqOffs[k], k+1), parse: j%5 != 0, twig: j%7 == 0})
		}
		return h
	}
	r := gen.Rng(p.seed, "c19", i)
	g := &gen.ProgGen{R: r, Hostile: r.Intn(2) == 0, Vars: c02vars, IterVars: c02IterVars, SingleEntryHashes: true,
		Filters: []string{"wrap", "inc", "up", "ident", "b1"}, Funcs: []string{"fn", "num", "truth", "pair", "ident"}, Tests: []string{"pos", "eq", "divisible by", "empty"}}
	ts, _ := g.Program()
	src := (&Program{Templates: ts, Main: "main"}).sources(gen.Canon{})
	for n, s := range src {
		h.files[n] = s
	}
	// broken variants of the partials: a parse error surfaces in the middle of a render
	h.files["broken-lex"] = "ok {{ 'unclosed }} tail"
	h.files["broken-parse"] = "ok {% if x %} never closed {{ 1 + }}"
	h.files["includes-broken"] = "before {% include 'broken-parse' %} after"
	h.files["extends-broken"] = "{% extends 'broken-lex' %}{% block a %}x{% endblock %}"
	h.files["imports-broken"] = "{% import 'broken-parse' as b %}{{ b.m() }}"
	h.files["runtime-fail"] = "a {{ nofunc() }} b"
	h.files["many"] = "{% for i in 1..3 %}{% include 'part2' %}{% include 'broken-lex' %}{% endfor %}"
	// names that can be opened but not read as a file: a directory, and the empty name (the root itself)
	h.files["subdir/inner"] = "inner {{ x }}"
	h.files["includes-dir"] = "a {% include 'subdir' %} b"
	h.files["includes-empty"] = "a {% include undefinedname %} b"
	h.files["extends-dir"] = "{% extends 'subdir' %}"
	// files of unusual sizes: empty, a page and a byte, beyond a megabyte, beyond any sensible template (the large
	// ones in every 32nd history only: the collector is off while a history runs)
	h.files["size-0"] = ""
	h.files["size-4097"] = strings.Repeat("p", 4096) + "\n"
	sized := []string{"size-0", "size-4097"}
	if i%32 == 3 {
		h.files["size-1M"] = strings.Repeat("0123456789abcde\n", 1<<16) + "{{ 1 }}"
		h.files["size-9M"] = strings.Repeat("0123456789abcde\n", 9<<16) + "{{ 2 }}"
		h.files["includes-9M"] = "a {% include 'size-9M' %} b"
		sized = append(sized, "size-1M", "size-9M", "includes-9M")
	}
	// files that begin like something else: byte order marks of every encoding, the magic numbers of archives,
	// images and programs. A template is bytes; whatever a loader thinks of them, it gives back what it opened
	for k, head := range c19Heads {
		n := fmt.Sprintf("head-%02d", k)
		h.files[n] = head + "h\x00i\x00 {{ 1 }}"
		sized = append(sized, n)
		if (k+i)%4 == 0 {
			h.files["includes-"+n] = "a {% include '" + n + "' %} b"
			sized = append(sized, "includes-"+n)
		}
	}
	// errors inside strings that hold interpolations: open ones, illegal characters with and without a closing brace
	// behind them, nested ones
	for k, src := range c19BrokenInterp {
		n := fmt.Sprintf("broken-interp-%02d", k)
		h.files[n] = src
		sized = append(sized, n)
	}
	names := []string{"main", "part1", "part2", "layout", "macros", "base0", "broken-lex", "broken-parse", "includes-broken", "extends-broken", "imports-broken", "runtime-fail", "many", "no-such-template", "subdir", "", "includes-dir", "includes-empty", "extends-dir", "subdir/inner",
		"linkout.twig", "linkdir/o.twig", "linkin.twig", "dangling.twig", "procversion.twig", "procstatus.twig", "proccpuinfo.twig", "includes-proc", "linkdir", "includes-linkout", "../" + "x", "subdir/../main", "./main", "subdir//inner", "../c19-outside.twig", "subdir/../../c19-outside.twig", "includes-dotdot"}
	h.files["includes-proc"] = "a {% include 'procversion.twig' %} b {% include 'procstatus.twig' %}"
	h.files["includes-dotdot"] = "a {% include '../c19-outside.twig' %} b"
	h.files["includes-linkout"] = "a {% include 'linkout.twig' %} b {% include 'linkdir/o.twig' %}"
	n := 1 + r.Intn(p.pick(50, 200))
	for k := 0; k < n; k++ {
		ld := []string{"string", "memory", "fs", "fs"}[r.Intn(4)]
		name := names[r.Intn(len(names))]
		c := c19call{loader: ld, kind: "program", name: name, parse: r.Intn(3) == 0, twig: r.Intn(3) == 0}
		if ld == "string" {
			if s, ok := h.files[name]; ok {
				c.name = s
			}
		}
		h.calls = append(h.calls, c)
	}
	for k, name := range sized {
		for _, ld := range []string{"fs", "memory"} {
			h.calls = append(h.calls, c19call{loader: ld, kind: "sized-file", name: name, parse: (k+i)%2 == 0, twig: false})
		}
	}
	return h
}

func (p *c19) Describe(i int) interface{} {
	h := p.history(i)
	calls := make([]string, 0, len(h.calls))
	for k, c := range h.calls {
		if k >= 12 {
			calls = append(calls, fmt.Sprintf("... (%d calls in all)", len(h.calls)))
			break
		}
		op := "Execute"
		if c.parse {
			op = "Parse"
		}
		calls = append(calls, fmt.Sprintf("%s[%s,twig=%v](%s)", op, c.loader, c.twig, clip(fmt.Sprintf("%q", c.name), 120)))
	}
	return map[string]interface{}{"calls": calls, "templates": len(h.files)}
}

var c19Heads = []string{"\xff\xfe", "\xfe\xff\x00", "\xff\xfe\x00\x00", "\x00\x00\xfe\xff", "\xef\xbb\xbf", "\xef\xbb", "\x1f\x8b\x08\x00", "PK\x03\x04", "\x7fELF\x02\x01", "%PDF-1.4\n", "#!/bin/sh\n", "<?xml version=\"1.0\"?>",
	"\x00\x00\x00\x00", "MZ\x90\x00", "GIF89a", "\xff\xd8\xff\xe0", "\x89PNG\r\n\x1a\n", "{\\rtf1", "\xff\xff\xff\xff", "BZh9", "\xfd7zXZ\x00", "\xca\xfe\xba\xbe", "\x2b\x2f\x76\x38", "\x0e\xfe\xff", "\xfb\xee\x28", "\x84\x31\x95\x33", "\r\n\r\n", "\x1b[0m"}

var c19BrokenInterp = []string{"{{ \"a#{b@c\" }}", "{{ \"a#{b@\" }}", "{{ \"#{@\" }}x", "{{ \"a#{b @ c}d\" }}", "{{ \"a#{b\" }}", "{{ \"a#{ 'y@ }\" }}", "{{ \"a#{\"#{@\"}\" }}", "{{ \"a#{b}c#{d@\" }} tail {{ 1 }}", "{% set x = \"#{(1 @\" %}", "{{ \"#{[1, @\" }}",
	"{{ \"#{{'a': @\" }}", "{{ \"a#{b\\\" }}", "{{ \"#{\" }}", "{{ \"#{}\" }}", "{{ \"#{ }#{\" }}", "{{ '#{@' }}{{ \"#{1 2\" }}"}

var c19dirSeq int64

func (p *c19) Run(i int) (res fw.Result) {
	h := p.history(i)
	// filesystem fixture
	dir := filepath.Join(os.Getenv("VERIF_DIR"), "work", "C19", fmt.Sprintf("fs-%d-%d", os.Getpid(), atomic.AddInt64(&c19dirSeq, 1)))
	if err := os.MkdirAll(dir, 0o755); err != nil {
		panic(err)
	}
	defer os.RemoveAll(dir)
	for n, s := range h.files {
		if err := os.MkdirAll(filepath.Dir(filepath.Join(dir, n)), 0o755); err != nil {
			panic(err)
		}
		if err := os.WriteFile(filepath.Join(dir, n), []byte(s), 0o644); err != nil {
			panic(err)
		}
		if i%2 == 1 {
			// files that were not written a moment ago (whatever is remembered about a file between two loads
			// is usually tied to its modification time)
			old := time.Now().Add(-time.Duration(1+i%72) * time.Hour)
			os.Chtimes(filepath.Join(dir, n), old, old)
		}
	}
	// someone else is working on the templates: in every fourth history every file is open elsewhere and locked
	// (advisory locks, exclusive and shared ones alternating) - nobody's business but the lock holders'
	if i%4 == 2 {
		k := 0
		for n := range h.files {
			if f, err := os.OpenFile(filepath.Join(dir, n), os.O_RDWR, 0); err == nil {
				how := syscall.LOCK_EX
				if k%3 == 2 {
					how = syscall.LOCK_SH
				}
				syscall.Flock(int(f.Fd()), how|syscall.LOCK_NB)
				defer f.Close()
				k++
			}
		}
		res.AddObs("files_locked_elsewhere", int64(k))
	}
	// symbolic links: to a file and to a directory outside the loader's root, to a file inside it, and to nothing
	outside := dir + "-outside"
	if err := os.MkdirAll(outside, 0o755); err != nil {
		panic(err)
	}
	defer os.RemoveAll(outside)
	os.WriteFile(filepath.Join(outside, "o.twig"), []byte("outside {{ 1 }}"), 0o644)
	os.Symlink(filepath.Join(outside, "o.twig"), filepath.Join(dir, "linkout.twig"))
	os.Symlink(outside, filepath.Join(dir, "linkdir"))
	os.Symlink(filepath.Join(dir, "main"), filepath.Join(dir, "linkin.twig"))
	os.Symlink(filepath.Join(dir, "nowhere"), filepath.Join(dir, "dangling.twig"))
	// files whose size is not the number of bytes that can be read from them (the kernel's, through links)
	os.Symlink("/proc/version", filepath.Join(dir, "procversion.twig"))
	os.Symlink("/proc/self/status", filepath.Join(dir, "procstatus.twig"))
	os.Symlink("/proc/cpuinfo", filepath.Join(dir, "proccpuinfo.twig"))
	// an existing file next to the root, reachable from inside through "..": whether the loader serves it or
	// refuses it, it must not keep it open (the same file for every history and worker: written, never removed)
	if shared := filepath.Join(filepath.Dir(dir), "c19-outside.twig"); true {
		if _, err := os.Stat(shared); err != nil {
			os.WriteFile(shared, []byte("next to the root {{ 1 }}"), 0o644)
		}
	}
	mk := func(loader stick.Loader, tw bool) *stick.Env {
		var env *stick.Env
		if tw {
			env = twig.New(loader)
		} else {
			env = stick.New(loader)
		}
		(&mon.Recorder{}).Register(env)
		return env
	}
	loaders := map[string]stick.Loader{"string": &stick.StringLoader{}, "memory": &stick.MemoryLoader{Templates: h.files}, "fs": stick.NewFilesystemLoader(dir)}

	// Finalizers must not hide a missing Close: no garbage collection during the history.
	runtime.GC()
	old := debug.SetGCPercent(-1)
	defer debug.SetGCPercent(old)
	if left, _ := mon.Settle(200); len(left) > 0 {
		res.AddClass("dirty-baseline-skipped")
		return
	}
	baseFD := mon.OpenFDs()
	baseLex := atomic.LoadInt64(&mon.LiveLexers)
	key := fmt.Sprintf("c19:%d:%d", p.seed, i)
	var outcomes []string
	failing := 0
	for k, c := range h.calls {
		env := mk(loaders[c.loader], c.twig)
		var err error
		var pan interface{}
		started0 := atomic.LoadInt64(&mon.LexStarted)
		mon.BeginExec()
		func() {
			defer func() { pan = recover() }()
			if c.parse {
				var t *parse.Tree
				t, err = env.Parse(c.name)
				_ = t
			} else {
				var buf bytes.Buffer
				err = env.Execute(c.name, &buf, detContext())
			}
		}()
		mon.EndCall()
		res.Evals++
		res.AddObs("calls", 1)
		res.AddObs("tokenisers_started", atomic.LoadInt64(&mon.LexStarted)-started0)
		oc := "ok"
		switch {
		case pan != nil:
			oc = "panic"
		case err != nil && strings.HasPrefix(err.Error(), "parse"):
			oc = "parse-error"
		case err != nil:
			oc = "runtime-error"
		}
		if oc != "ok" {
			failing++
		}
		outcomes = append(outcomes, c.loader+":"+oc)
		res.AddClass(c.loader + "/" + oc)
		// census after every call
		left, waited := mon.Settle(200)
		res.AddObs("max:settle_rounds", int64(waited))
		call := fmt.Sprintf("call %d of %d: %s loader, %s, outcome %s, template %s", k+1, len(h.calls), c.loader, map[bool]string{true: "Parse", false: "Execute"}[c.parse], oc, clip(fmt.Sprintf("%q", c.name), 200))
		if len(left) > 0 {
			res.Fail("goroutine-leak", key+fmt.Sprintf(":g%d", k), fmt.Sprintf("after %s: %d goroutine(s) with library frames remain: %v", call, len(left), left), nil)
			return // the leaked goroutine would be reported again for every later call
		}
		if live := atomic.LoadInt64(&mon.LiveLexers); live != baseLex {
			res.Fail("goroutine-leak", key+fmt.Sprintf(":l%d", k), fmt.Sprintf("after %s: live tokeniser gauge is %d, was %d before the history", call, live, baseLex), nil)
			return
		}
		fds := mon.OpenFDs()
		var extra []string
		for fd, t := range fds {
			if _, ok := baseFD[fd]; !ok {
				extra = append(extra, fd+"->"+t)
			}
		}
		if len(extra) > 0 {
			sort.Strings(extra)
			res.Fail("fd-leak", key+fmt.Sprintf(":f%d", k), fmt.Sprintf("after %s: %d descriptor(s) that were not open before the history: %v", call, len(extra), extra), nil)
			return
		}
	}
	if failing > 0 {
		sort.Strings(outcomes)
		sig := strings.Join(uniqStrings(outcomes), ",")
		if i < p.nInj || i >= p.nInj+p.nRand {
			res.UniqueNT = 1
		} else {
			res.Sigs = append(res.Sigs, fmt.Sprintf("%s#%d", sig, len(h.calls)))
		}
	}
	return
}

func uniqStrings(xs []string) []string {
	var out []string
	for i, x := range xs {
		if i == 0 || x != xs[i-1] {
			out = append(out, x)
		}
	}
	return out
}

func (p *c19) Rule() string {
	return "histories of calls, census after EVERY call: (1) exhaustive: every corpus template with one syntax error (illegal character, unknown tag, surplus literal, stray delimiter, lone quote or parenthesis) injected at every fragment boundary (every third boundary in quick, every boundary of templates with interpolated strings), 25 calls per history, rotating over the string, memory and filesystem loaders, Parse and Execute, core and Twig environments - so the parser stops with 0..n tokens still to come; (2) seeded histories of 1..50 (quick) / 1..200 (thorough) calls over generated programs (include/embed/extends/import across files, so one call opens several files), templates that fail in the tokeniser or in the parser, templates that include/extend/import a broken template, run-time failures, missing templates, and names that can be opened but not read (a directory, the empty name), directly and through include/extends. (3) every sequence of <=3 (quick) / <=4 (thorough) fragments of the 26-fragment hostile alphabet through the string loader, 200 per history. The filesystem loader works on a directory the check creates and removes; in every other history the files carry modification times hours in the past, and one loader instance serves the whole history, so files are loaded repeatedly. Monitors: goroutine census (runtime.Stack(all), goroutines with a library frame, by state and top frame) after a bounded settling loop, the live-tokeniser gauge of the verif hook, and /proc/self/fd compared with the set before the history, with garbage collection disabled during the history so that a finalizer cannot hide a missing Close. Non-trivial = history with at least one failing call; injected histories are distinct by construction, random ones by (loader:outcome set, length)."
}

func (p *c19) Assumptions() []string {
	return []string{"a goroutine still present after 200 yield+1ms rounds is blocked, not slow (a leaked tokeniser is blocked on a channel only the returned parser could drain)"}
}

func (p *c19) Floors(tier string) map[string]int64 {
	return map[string]int64{"calls": 5000, "tokenisers_started": 5000, "distinct_nontrivial": 100}
}

func (p *c19) MaxWorkers() int { return 0 }
func (p *c19) Race() bool      { return false }

// RaceSample: an extra -race worker re-runs a strided sample of the histories (the
// tokeniser is stopped from the parser's goroutine while it may still be running).
func (p *c19) RaceSample(tier string) int {
	if tier == "thorough" {
		return 499
	}
	return 41
}
