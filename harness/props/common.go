// Package props holds one file per property check.
package props

import (
	"errors"
	"fmt"
	"io/fs"
	"regexp"
	"strings"
)

type base struct {
	tier string
	seed int64
}

func (b *base) Level() string    { return "exploration" }
func (b *base) Exhaustive() bool { return false }
func (b *base) thorough() bool   { return b.tier == "thorough" }
func (b *base) pick(q, t int) int {
	if b.tier == "thorough" {
		return t
	}
	return q
}

var digitsRe = regexp.MustCompile(`0x[0-9a-fA-F]+|[0-9]+`)

// errKind reduces an error text to its kind (positions and numbers stripped).
func errKind(err error) string {
	if err == nil {
		return "ok"
	}
	if errors.Is(err, fs.ErrNotExist) {
		// a template that is not there: how the loader at hand words that (memory, file system) is not the library's
		return "template does not exist"
	}
	s := err.Error()
	if len(s) > 120 {
		s = s[:120]
	}
	s = digitsRe.ReplaceAllString(s, "N")
	return s
}

func clip(s string, n int) string {
	if len(s) > n {
		return s[:n] + fmt.Sprintf("…(+%d bytes)", len(s)-n)
	}
	return s
}

func hasOpenDelim(s string) bool {
	return strings.Contains(s, "{{") || strings.Contains(s, "{%") || strings.Contains(s, "{#")
}
