package props

import (
	"bytes"
	"fmt"
	"github.com/tyler-sommer/stick/twig/filter"
	"math"
	"math/big"
	"math/rand"
	"reflect"
	"sort"
	"strconv"

	"github.com/tyler-sommer/stick"

	"verifharness/fw"
	"verifharness/gen"
	"verifharness/mon"
)

// C16 — attribute access and iteration are total and visit what is there.
type c16 struct {
	base
	conts, keys []gen.Named
	args        [][]stick.Value
	iterVals    []gen.Named
	nGet, nIter int
	neighbour   map[string]gen.Named
	nRand       int
}

var c16TwigFilters = filter.TwigFilters()

func init() { fw.Register("C16", func() fw.Property { return &c16{} }) }

func (p *c16) ID() string { return "C16" }

func (p *c16) Init(tier string, seed int64) {
	p.tier, p.seed = tier, seed
	p.conts, p.keys, p.args = gen.Containers(), gen.Keys(), gen.ArgLists()
	p.nGet = len(p.conts) * len(p.keys)
	p.neighbour = map[string]gen.Named{}
	for i, c := range p.conts {
		p.neighbour[c.Label] = p.conts[(i+len(p.conts)-1)%len(p.conts)]
		for _, d := range p.conts {
			if c.V != nil && d.V != nil && d.Label != c.Label && fmt.Sprintf("%T", c.V) == fmt.Sprintf("%T", d.V) && reflect.TypeOf(c.V) != reflect.TypeOf(d.V) {
				p.neighbour[c.Label] = d
			}
		}
	}
	// iteration zoo: containers + scalars + generated lengths 0..8 through 0..2 pointer levels
	p.iterVals = append(append([]gen.Named{}, gen.Containers()...), gen.Scalars()...)
	// 0..8 elements, and lengths around the sizes at which counters of one and two bytes, a thousand and a
	// buffer of 4096 run out
	for _, n := range []int{0, 1, 2, 3, 4, 5, 6, 7, 8, 64, 65, 127, 128, 129, 255, 256, 257, 1000, 1001, 1024, 4097, 65537} {
		sl := make([]int, n)
		vs := make([]stick.Value, n)
		m := map[string]int{}
		mi := map[int]string{}
		for i := range sl {
			sl[i] = 100 + i
			vs[i] = fmt.Sprintf("e%d", i)
			m[fmt.Sprintf("k%d", i)] = i
			mi[i] = fmt.Sprintf("v%d", i)
		}
		psl := &sl
		p.iterVals = append(p.iterVals, gen.N(fmt.Sprintf("[]int len %d", n), sl), gen.N(fmt.Sprintf("*[]int len %d", n), psl), gen.N(fmt.Sprintf("**[]int len %d", n), &psl),
			gen.N(fmt.Sprintf("[]Value len %d", n), vs))
		if n <= 1100 { // the oracle matches every visit of a map against the map: quadratic
			p.iterVals = append(p.iterVals, gen.N(fmt.Sprintf("map[string]int len %d", n), m), gen.N(fmt.Sprintf("*map[int]string len %d", n), &mi))
		}
	}
	arr := [5]string{"a", "b", "c", "d", "e"}
	p.iterVals = append(p.iterVals, gen.N("[5]string", arr), gen.N("*[5]string", &arr))
	p.nIter = len(p.iterVals)
	p.nRand = p.pick(20000, 600000)
}

func (p *c16) N() int { return p.nGet + p.nIter + p.nRand }

// randValue builds a random nested Go value (maps keyed by string/int/float/bool/interface,
// slices, arrays, pointers, structs, scalars) together with a label.
func randValue(r *rand.Rand, depth int) (stick.Value, string) {
	if depth <= 0 {
		switch r.Intn(8) {
		case 0:
			return r.Intn(10), "int"
		case 1:
			return float64(r.Intn(5)) + 0.5, "float"
		case 2:
			return []string{"a", "k", "1", "", "Name"}[r.Intn(5)], "string"
		case 3:
			return r.Intn(2) == 0, "bool"
		case 4:
			return nil, "nil"
		case 5:
			return int8(r.Intn(5)), "int8"
		case 6:
			return uint16(r.Intn(5)), "uint16"
		default:
			return gen.ValStringer{S: "k"}, "stringer"
		}
	}
	n := r.Intn(4)
	switch r.Intn(11) {
	case 0:
		m := map[string]stick.Value{}
		for i := 0; i < n; i++ {
			v, _ := randValue(r, depth-1)
			m[[]string{"a", "k", "1", "0", "Name", ""}[r.Intn(6)]] = v
		}
		return m, "map[string]Value"
	case 1:
		m := map[int]stick.Value{}
		for i := 0; i < n; i++ {
			v, _ := randValue(r, depth-1)
			m[r.Intn(4)] = v
		}
		return m, "map[int]Value"
	case 2:
		m := map[stick.Value]stick.Value{}
		for i := 0; i < n; i++ {
			v, _ := randValue(r, depth-1)
			k, _ := randValue(r, 0)
			if k == nil {
				k = "nilkey"
			}
			m[k] = v
		}
		return m, "map[Value]Value"
	case 3:
		m := map[float64]string{}
		for i := 0; i < n; i++ {
			m[float64(r.Intn(4))/2] = "f" + strconv.Itoa(i)
		}
		return m, "map[float64]string"
	case 4:
		sl := make([]stick.Value, n)
		for i := range sl {
			sl[i], _ = randValue(r, depth-1)
		}
		return sl, "[]Value"
	case 5:
		sl := make([]int, n)
		for i := range sl {
			sl[i] = r.Intn(100)
		}
		return sl, "[]int"
	case 6:
		v, l := randValue(r, depth-1)
		if v == nil {
			return v, l
		}
		pv := reflect.New(reflect.TypeOf(v))
		pv.Elem().Set(reflect.ValueOf(v))
		return pv.Interface(), "*" + l
	case 7:
		t := gen.NewThing()
		t.Any, _ = randValue(r, depth-1)
		return t, "Thing"
	case 8:
		return [2]string{"x", "y"}, "[2]string"
	case 9:
		m := map[bool]int{}
		if n > 0 {
			m[r.Intn(2) == 0] = n
		}
		return m, "map[bool]int"
	default:
		m := map[uint8]string{}
		for i := 0; i < n; i++ {
			m[uint8(r.Intn(4))] = "u" + strconv.Itoa(i)
		}
		return m, "map[uint8]string"
	}
}

func (p *c16) randCase(i int) (gen.Named, gen.Named) {
	r := gen.Rng(p.seed, "c16", i)
	v, l := randValue(r, 1+r.Intn(3))
	var k stick.Value
	kl := ""
	// half of the keys are taken from the container itself (so that elements exist)
	rv := reflect.ValueOf(v)
	for rv.IsValid() && rv.Kind() == reflect.Ptr && !rv.IsNil() {
		rv = rv.Elem()
	}
	if rv.IsValid() && rv.Kind() == reflect.Map && rv.Len() > 0 && r.Intn(2) == 0 {
		keys := rv.MapKeys()
		k = keys[r.Intn(len(keys))].Interface()
		kl = fmt.Sprintf("own key %#v", k)
		if r.Intn(3) == 0 { // the same key carried by another type
			switch kk := k.(type) {
			case int:
				k, kl = float64(kk), fmt.Sprintf("own key as float64 %d", kk)
			case string:
				if f, err := strconv.ParseFloat(kk, 64); err == nil {
					k, kl = f, fmt.Sprintf("own key %q as number", kk)
				}
			case uint8:
				k, kl = int(kk), fmt.Sprintf("own key as int %d", kk)
			}
		}
	} else {
		ks := p.keys[r.Intn(len(p.keys))]
		k, kl = ks.V, ks.Label
	}
	return gen.N(fmt.Sprintf("random %s %s", l, clip(fmt.Sprintf("%#v", v), 160)), v), gen.N(kl, k)
}

func (p *c16) Describe(i int) interface{} {
	if i < p.nGet {
		c, k := p.conts[i/len(p.keys)], p.keys[i%len(p.keys)]
		return map[string]interface{}{"kind": "getattr", "container": c.Label, "key": k.Label, "arg_lists": len(p.args)}
	}
	if i >= p.nGet+p.nIter {
		c, k := p.randCase(i)
		return map[string]interface{}{"kind": "random nested container", "container": c.Label, "key": k.Label}
	}
	return map[string]interface{}{"kind": "iterate/len/contains/is*", "value": p.iterVals[i-p.nGet].Label}
}

type expMode int

const (
	anyOutcome expMode = iota // anything but a panic
	mustErr
	mustElem
	elemOrErr
	userPanic // the method itself panics when called (outside the claim): anything goes
)

func (m expMode) String() string {
	return [...]string{"any non-panicking outcome", "an error", "the element", "the element or an error", "anything (the user's method panics)"}[m]
}

func numericValue(v stick.Value) (float64, bool) {
	switch x := v.(type) {
	case stick.SafeValue:
		return numericValue(x.Value())
	case int, int8, int16, int32, int64, uint, uint8, uint16, uint32, uint64, float32, float64:
		return stick.CoerceNumber(v), true
	case string:
		f, err := strconv.ParseFloat(x, 64)
		return f, err == nil
	}
	return 0, false
}

func isScalar(v stick.Value) bool {
	switch v.(type) {
	case string, bool, int, int8, int16, int32, int64, uint, uint8, uint16, uint32, uint64, float32, float64:
		return true
	}
	return false
}

// expectation computes, independently of the library, what GetAttr may return.
// predeclared returns a key of a defined scalar type (type K int) as the predeclared type it is defined from.
func predeclared(key stick.Value) (stick.Value, bool) {
	if key == nil {
		return key, false
	}
	switch key.(type) {
	case stick.SafeValue, fmt.Stringer:
		return key, false
	}
	rv := reflect.ValueOf(key)
	if rv.Type().PkgPath() == "" {
		return key, false
	}
	switch rv.Kind() {
	case reflect.Bool:
		return rv.Bool(), true
	case reflect.Int, reflect.Int8, reflect.Int16, reflect.Int32, reflect.Int64:
		return rv.Int(), true
	case reflect.Uint, reflect.Uint8, reflect.Uint16, reflect.Uint32, reflect.Uint64:
		return rv.Uint(), true
	case reflect.Float32, reflect.Float64:
		return rv.Float(), true
	case reflect.String:
		return rv.String(), true
	}
	return key, false
}

func expectation(cont, key stick.Value, args []stick.Value) (mode expMode, cands []interface{}) {
	if cont == nil {
		return mustErr, nil
	}
	if st, ok := key.(fmt.Stringer); ok && key != nil && isNumKind(reflect.ValueOf(key).Kind()) {
		// a number whose type says how it prints (time.March): the element its own type finds in a map keyed by that
		// type; otherwise what the number finds or what its text finds, or an error - never anything else
		rv := reflect.ValueOf(key)
		if cv := reflect.Indirect(reflect.ValueOf(cont)); cv.IsValid() && cv.Kind() == reflect.Map && rv.Type().AssignableTo(cv.Type().Key()) {
			if e := cv.MapIndex(rv); e.IsValid() {
				return mustElem, []interface{}{e.Interface()}
			}
		}
		var num stick.Value
		switch rv.Kind() {
		case reflect.Float32, reflect.Float64:
			num = rv.Float()
		case reflect.Uint, reflect.Uint8, reflect.Uint16, reflect.Uint32, reflect.Uint64:
			num = rv.Uint()
		default:
			num = rv.Int()
		}
		m1, c1 := expectation(cont, num, args)
		m2, c2 := expectation(cont, st.String(), args)
		if m1 == anyOutcome || m2 == anyOutcome || m1 == userPanic || m2 == userPanic {
			return anyOutcome, nil
		}
		if cands = append(append(cands, c1...), c2...); len(cands) > 0 {
			return elemOrErr, cands
		}
		return mustErr, nil
	}
	if pk, defined := predeclared(key); defined {
		// a key of a defined type is the element under its own type if the container is keyed by that type,
		// otherwise whatever the key of the underlying predeclared type selects - or an error
		m, c := expectation(cont, pk, args)
		if rv := reflect.Indirect(reflect.ValueOf(cont)); rv.IsValid() && rv.Kind() == reflect.Map && reflect.TypeOf(key).AssignableTo(rv.Type().Key()) {
			if e := rv.MapIndex(reflect.ValueOf(key)); e.IsValid() {
				return mustElem, []interface{}{e.Interface()}
			}
		}
		if m == mustElem {
			m = elemOrErr
		}
		return m, c
	}
	if sv, ok := key.(stick.SafeValue); ok {
		// a key wrapped as safe selects what the key inside selects (a safe value coerces like the value inside)
		// (a safe value that is a nil pointer, or whose methods come from a nil embedded value, holds nothing: null)
		var inner stick.Value
		func() {
			defer func() { recover() }()
			if rk := reflect.ValueOf(key); rk.Kind() != reflect.Ptr || !rk.IsNil() {
				inner = sv.Value()
			}
		}()
		return expectation(cont, inner, args)
	}
	rv := reflect.ValueOf(cont)
	levels := 0
	for rv.Kind() == reflect.Ptr {
		if rv.IsNil() {
			return mustErr, nil
		}
		rv = rv.Elem()
		levels++
	}
	if sv, ok := cont.(stick.SafeValue); ok {
		_ = sv
		return anyOutcome, nil
	}
	loosen := func(m expMode) expMode {
		if levels >= 2 && m == mustElem {
			return elemOrErr // only one pointer level is documented
		}
		return m
	}
	switch rv.Kind() {
	case reflect.Slice, reflect.Array:
		if len(args) > 0 {
			return anyOutcome, nil
		}
		n := rv.Len()
		switch k := key.(type) {
		case int, int8, int16, int32, int64, uint, uint8, uint16, uint32, uint64, float32, float64:
			f := stick.CoerceNumber(k)
			if math.IsNaN(f) || f < 0 || f >= float64(n) {
				return mustErr, nil
			}
			if f != math.Trunc(f) {
				return elemOrErr, []interface{}{rv.Index(int(f)).Interface()}
			}
			return loosen(mustElem), []interface{}{rv.Index(int(f)).Interface()}
		case string:
			f, err := strconv.ParseFloat(k, 64)
			if err != nil || math.IsNaN(f) || f < 0 || f >= float64(n) {
				return mustErr, nil
			}
			// integral or not: the statement does not say whether a fractional index is truncated or refused
			return elemOrErr, []interface{}{rv.Index(int(f)).Interface()}
		case bool:
			i := 0
			if k {
				i = 1
			}
			if i >= n {
				return mustErr, nil
			}
			return elemOrErr, []interface{}{rv.Index(i).Interface()}
		case stick.SafeValue:
			return anyOutcome, nil
		}
		return mustErr, nil
	case reflect.Map:
		if len(args) > 0 {
			return anyOutcome, nil
		}
		kt := rv.Type().Key()
		var exact interface{}
		haveExact := false
		if key != nil {
			kv := reflect.ValueOf(key)
			if kv.Type().AssignableTo(kt) && kv.Type().Comparable() {
				// comparable by type is not hashable by value: a struct with an interface field holding a slice
				func() {
					defer func() { recover() }()
					if e := rv.MapIndex(kv); e.IsValid() {
						exact, haveExact = e.Interface(), true
					}
				}()
			}
		}
		if key == nil && kt.Kind() == reflect.Interface {
			// nil is a key like any other of a map keyed by an interface type
			if e := rv.MapIndex(reflect.Zero(kt)); e.IsValid() {
				return loosen(mustElem), []interface{}{e.Interface()}
			}
		}
		if haveExact {
			return loosen(mustElem), []interface{}{exact}
		}
		// conceivable conversions: every entry whose key spells / counts the same
		if key != nil && isScalar(key) {
			for it := rv.MapRange(); it.Next(); {
				mk, mv := it.Key(), it.Value()
				k := mk.Interface()
				if pk, ok := predeclared(k); ok {
					k = pk
				}
				if mk.Kind() == reflect.String {
					k = mk.String() // also for a string type with a String method: as a key it is the string that counts
				}
				if !isScalar(k) {
					continue
				}
				same := stick.CoerceString(k) == stick.CoerceString(key)
				if !same {
					a, ok1 := numericValue(k)
					b, ok2 := numericValue(key)
					same = ok1 && ok2 && a == b
				}
				if same {
					cands = append(cands, mv.Interface())
				}
			}
		}
		if len(cands) > 0 {
			// a number looked up in a map keyed by numbers finds the entry whose key is that number, whichever
			// numeric type carries either of them (a template has only float64 to offer): when the key's type
			// holds the number exactly, the element must come back. Other spellings (a numeric string for a
			// number, a number for a string) may or may not be accepted.
			if kk := reflect.ValueOf(key); isNumKind(kk.Kind()) && isNumKind(kt.Kind()) && len(cands) == 1 {
				if f, ok := numericValue(key); ok {
					if _, fits := exactNumber(kk, f, kt); fits {
						return loosen(mustElem), cands
					}
				}
			}
			return elemOrErr, cands
		}
		return mustErr, nil
	case reflect.Struct:
		name, ok := key.(string)
		if !ok {
			if _, isSafe := key.(stick.SafeValue); isSafe {
				return anyOutcome, nil
			}
			if _, isStr := key.(stick.Stringer); isStr {
				return anyOutcome, nil
			}
			return mustErr, nil // a number, bool, nil or container never names a field or method
		}
		if f, ok := rv.Type().FieldByName(name); ok {
			if f.PkgPath != "" {
				return mustErr, nil // unexported
			}
			fv, ferr := rv.FieldByIndexErr(f.Index)
			if ferr != nil {
				return mustErr, nil // promoted through a nil embedded pointer: there is no such element
			}
			if fv.Kind() == reflect.Func {
				return anyOutcome, nil
			}
			if len(args) > 0 {
				return anyOutcome, nil
			}
			return loosen(mustElem), []interface{}{fv.Interface()}
		}
		// methods: look on the pointer type (superset of the value method set)
		pt := reflect.PtrTo(rv.Type())
		m, ok := pt.MethodByName(name)
		if !ok {
			return mustErr, nil
		}
		mt := m.Type // includes receiver
		nin := mt.NumIn() - 1
		if mt.IsVariadic() {
			return anyOutcome, nil
		}
		if nin != len(args) {
			return mustErr, nil
		}
		if mt.NumOut() != 1 {
			return anyOutcome, nil
		}
		recv := reflect.New(rv.Type())
		recv.Elem().Set(rv)
		in := []reflect.Value{recv}
		exactArgs, convertible := true, true
		for i, a := range args {
			ptyp := mt.In(i + 1)
			if a == nil {
				switch ptyp.Kind() {
				case reflect.Ptr, reflect.Interface, reflect.Slice, reflect.Map, reflect.Func, reflect.Chan:
					in = append(in, reflect.Zero(ptyp))
					exactArgs = false
					continue
				}
				return mustErr, nil
			}
			av := reflect.ValueOf(a)
			if av.Type().AssignableTo(ptyp) {
				in = append(in, av)
				continue
			}
			exactArgs = false
			f, isNum := numericValue(a)
			_, aIsStr := a.(string)
			switch {
			case isNum && !aIsStr && isNumKind(ptyp.Kind()) && !math.IsNaN(f):
				cv, fits := exactNumber(av, f, ptyp)
				if !fits {
					convertible = false
				}
				in = append(in, cv)
			default:
				convertible = false
			}
		}
		if !convertible {
			return mustErr, nil
		}
		var out []reflect.Value
		panicked := func() (p bool) {
			defer func() { p = recover() != nil }()
			out = m.Func.Call(in)
			return false
		}()
		if panicked {
			// the zoo's methods do not panic of their own accord: this is a method promoted through an embedded
			// pointer or interface that is nil. It cannot be called - an error, like a method on a nil receiver
			return mustErr, nil
		}
		if exactArgs {
			return loosen(mustElem), []interface{}{out[0].Interface()}
		}
		return elemOrErr, []interface{}{out[0].Interface()}
	}
	return mustErr, nil
}

func isNumKind(k reflect.Kind) bool {
	switch k {
	case reflect.Int, reflect.Int8, reflect.Int16, reflect.Int32, reflect.Int64, reflect.Uint, reflect.Uint8, reflect.Uint16, reflect.Uint32, reflect.Uint64, reflect.Float32, reflect.Float64:
		return true
	}
	return false
}

func deepEq(a, b interface{}) bool {
	if fa, ok := a.(float64); ok {
		if fb, ok := b.(float64); ok {
			return fa == fb || math.IsNaN(fa) && math.IsNaN(fb)
		}
	}
	return reflect.DeepEqual(a, b) || fmt.Sprintf("%#v", a) == fmt.Sprintf("%#v", b)
}

func safeGetAttr(c, k stick.Value, args []stick.Value) (v stick.Value, err error, pan interface{}) {
	defer func() { pan = recover() }()
	v, err = stick.GetAttr(c, k, args...)
	return
}

var c16env = stick.New(nil)

func (p *c16) Run(i int) (res fw.Result) {
	if i >= p.nGet+p.nIter {
		c, k := p.randCase(i)
		p.runGet(&res, c, k, p.args[:1])
		p.runIter(&res, c)
		return
	}
	if i >= p.nGet {
		p.runIter(&res, p.iterVals[i-p.nGet])
		return
	}
	p.runGet(&res, p.conts[i/len(p.keys)], p.keys[i%len(p.keys)], p.args)
	return
}

// exactNumber converts the number av (whose float64 value is f) to the numeric type typ and says whether typ holds
// exactly that number. Integers are converted as integers: a uint64 beyond 2^53 is not what its float64 says.
func exactNumber(av reflect.Value, f float64, typ reflect.Type) (reflect.Value, bool) {
	out := reflect.New(typ).Elem()
	switch av.Kind() {
	case reflect.Int, reflect.Int8, reflect.Int16, reflect.Int32, reflect.Int64:
		i := av.Int()
		switch typ.Kind() {
		case reflect.Int, reflect.Int8, reflect.Int16, reflect.Int32, reflect.Int64:
			out.SetInt(i)
			return out, !out.OverflowInt(i)
		case reflect.Uint, reflect.Uint8, reflect.Uint16, reflect.Uint32, reflect.Uint64, reflect.Uintptr:
			out.SetUint(uint64(i))
			return out, i >= 0 && !out.OverflowUint(uint64(i))
		}
		out.SetFloat(float64(i))
		return out, new(big.Float).SetFloat64(out.Float()).Cmp(new(big.Float).SetInt64(i)) == 0
	case reflect.Uint, reflect.Uint8, reflect.Uint16, reflect.Uint32, reflect.Uint64, reflect.Uintptr:
		u := av.Uint()
		switch typ.Kind() {
		case reflect.Int, reflect.Int8, reflect.Int16, reflect.Int32, reflect.Int64:
			out.SetInt(int64(u))
			return out, u <= math.MaxInt64 && !out.OverflowInt(int64(u))
		case reflect.Uint, reflect.Uint8, reflect.Uint16, reflect.Uint32, reflect.Uint64, reflect.Uintptr:
			out.SetUint(u)
			return out, !out.OverflowUint(u)
		}
		out.SetFloat(float64(u))
		return out, new(big.Float).SetFloat64(out.Float()).Cmp(new(big.Float).SetUint64(u)) == 0
	}
	cv := reflect.ValueOf(f).Convert(typ)
	return cv, cv.Convert(reflect.TypeOf(f)).Float() == f
}

func (p *c16) runGet(res0 *fw.Result, c, k gen.Named, argLists [][]stick.Value) {
	var res fw.Result
	defer func() {
		res0.Evals += res.Evals
		res0.Viols = append(res0.Viols, res.Viols...)
		res0.Sigs = append(res0.Sigs, res.Sigs...)
		for cl, n := range res.Classes {
			for j := 0; j < n; j++ {
				res0.AddClass(cl)
			}
		}
	}()
	for ai, args := range argLists {
		res.Evals++
		mode, cands := expectation(c.V, k.V, args)
		// the lookup under test comes right after the same lookup on another value - one whose type prints
		// alike if the zoo has one: the outcome may not depend on what was looked up before
		if other, ok := p.neighbour[c.Label]; ok {
			safeGetAttr(other.V, k.V, args)
		}
		v, err, pan := safeGetAttr(c.V, k.V, args)
		in := fmt.Sprintf("GetAttr(%s, %s, args#%d %s)", c.Label, k.Label, ai, clip(fmt.Sprintf("%#v", args), 80))
		key := "c16:" + in
		switch {
		case mode == userPanic:
			res.AddClass("user-method-panics")
			continue
		case pan != nil:
			res.Fail("panic", key, fmt.Sprintf("%s panicked: %v (expected %s)", in, pan, mode), nil)
			res.AddClass("panic")
			continue
		case err != nil:
			res.AddClass("error")
			if mode == mustElem {
				res.Fail("missing", key, fmt.Sprintf("%s returned error %q but the element exists: %s", in, err, clip(fmt.Sprintf("%#v", cands[0]), 100)), nil)
			}
		default:
			res.AddClass("element")
			switch mode {
			case mustErr:
				res.Fail("no-error", key, fmt.Sprintf("%s returned %s with a nil error; there is no such element / the key or arguments cannot be used", in, clip(fmt.Sprintf("%#v", v), 100)), nil)
			case mustElem, elemOrErr:
				ok := false
				for _, cd := range cands {
					if deepEq(cd, v) {
						ok = true
					}
				}
				if !ok {
					res.Fail("wrong-element", key, fmt.Sprintf("%s returned %s, want %s", in, clip(fmt.Sprintf("%#v", v), 100), clip(fmt.Sprintf("%#v", cands), 160)), nil)
				}
			}
		}
		if mode != mustErr || len(args) > 0 {
			res.Sigs = append(res.Sigs, fmt.Sprintf("%s|%s|%d", c.Label, k.Label, ai))
		}
		if ai > 0 {
			continue
		}
		// template level: the same lookup through {{ v[k] }} must not panic, and must
		// print the element when the direct lookup found a scalar one.
		for _, src := range []string{"{{ v[k] }}", "{% for x in v %}{{ k }}{% endfor %}", "{{ k in v }}"} {
			var buf bytes.Buffer
			res.Evals++
			mon.BeginCall(len(src))
			terr, tpan := safeExec(c16env, src, &buf, map[string]stick.Value{"v": c.V, "k": k.V})
			mon.EndCall()
			if tpan != nil {
				res.Fail("template-panic", "c16:tpl:"+src+":"+c.Label+":"+k.Label, fmt.Sprintf("%s with v=%s k=%s panicked: %v", src, c.Label, k.Label, tpan), nil)
			} else if src == "{{ v[k] }}" && terr == nil && err == nil && isScalar(v) && buf.String() != stick.CoerceString(v) {
				res.Fail("template-mismatch", "c16:tpl:"+c.Label+":"+k.Label, fmt.Sprintf("{{ v[k] }} printed %q but GetAttr returned %#v", buf.String(), v), nil)
			}
		}
	}
	return
}

func safeExec(env *stick.Env, src string, buf *bytes.Buffer, ctx map[string]stick.Value) (err error, pan interface{}) {
	defer func() { pan = recover() }()
	err = env.Execute(src, buf, ctx)
	return
}

type iterEv struct {
	k, v stick.Value
	l    stick.Loop
}

func safeIterate(v stick.Value, stopAfter int) (evs []iterEv, n int, err error, pan interface{}) {
	defer func() { pan = recover() }()
	n, err = stick.Iterate(v, func(k, val stick.Value, l stick.Loop) (bool, error) {
		evs = append(evs, iterEv{k, val, l})
		return stopAfter > 0 && len(evs) >= stopAfter, nil
	})
	return
}

func (p *c16) runIter(res *fw.Result, z gen.Named) {
	key := "c16:iter:" + z.Label
	evs, n, err, pan := safeIterate(z.V, 0)
	res.Evals++
	if pan != nil {
		res.Fail("panic", key, fmt.Sprintf("Iterate(%s) panicked: %v", z.Label, pan), nil)
		return
	}
	// what is there
	rv := reflect.ValueOf(z.V)
	levels := 0
	for rv.IsValid() && rv.Kind() == reflect.Ptr && !rv.IsNil() {
		rv = rv.Elem()
		levels++
	}
	iterable := rv.IsValid() && (rv.Kind() == reflect.Slice || rv.Kind() == reflect.Array || rv.Kind() == reflect.Map)
	switch {
	case z.V == nil:
		if err != nil || n != 0 || len(evs) != 0 {
			res.Fail("nil", key, fmt.Sprintf("Iterate(nil) = (%d, %v) with %d callbacks", n, err, len(evs)), nil)
		}
		res.AddClass("iter-nil")
	case !iterable:
		if err == nil {
			res.Fail("no-error", key, fmt.Sprintf("Iterate(%s) returned no error for a non-iterable value (%d callbacks)", z.Label, len(evs)), nil)
		}
		res.AddClass("iter-noniterable")
	case err != nil:
		if levels <= 1 {
			res.Fail("iter-error", key, fmt.Sprintf("Iterate(%s) failed: %v", z.Label, err), nil)
		}
		res.AddClass("iter-error-deep-pointer")
	default:
		res.AddClass("iter-ok")
		ln := rv.Len()
		if n != len(evs) || n != ln {
			res.Fail("count", key, fmt.Sprintf("Iterate(%s) returned %d after %d callbacks over %d elements", z.Label, n, len(evs), ln), nil)
		}
		seen := map[string]int{}
		for j, e := range evs {
			l := e.l
			if l.Length != ln || l.Index0 != j || l.Index != j+1 || l.Revindex0 != ln-1-j || l.Revindex != ln-j || l.First != (j == 0) || l.Last != (j == ln-1) {
				res.Fail("loop-metadata", key, fmt.Sprintf("Iterate(%s): at position %d of %d the loop record is %+v", z.Label, j, ln, l), nil)
				break
			}
			if rv.Kind() == reflect.Map {
				found := false
				for it := rv.MapRange(); it.Next(); {
					if deepEq(it.Key().Interface(), e.k) && deepEq(it.Value().Interface(), e.v) {
						found = true
					}
				}
				if !found {
					res.Fail("map-entry", key, fmt.Sprintf("Iterate(%s): visited (%#v, %#v), which is not an entry of the map", z.Label, e.k, e.v), nil)
				}
				seen[fmt.Sprintf("%T:%#v", e.k, e.k)]++
			} else {
				if ki, ok := e.k.(int); !ok || ki != j || !deepEq(rv.Index(j).Interface(), e.v) {
					res.Fail("slice-order", key, fmt.Sprintf("Iterate(%s): callback %d got (%#v, %#v), want (%d, %#v)", z.Label, j, e.k, e.v, j, rv.Index(j).Interface()), nil)
				}
			}
		}
		for k, c := range seen {
			if c != 1 {
				res.Fail("map-dup", key, fmt.Sprintf("Iterate(%s): key %s visited %d times", z.Label, k, c), nil)
			}
		}
		// early break
		for stop := 1; stop <= ln && stop <= 3; stop++ {
			evs2, n2, err2, pan2 := safeIterate(z.V, stop)
			res.Evals++
			if pan2 != nil || err2 != nil || len(evs2) != stop || n2 != stop {
				res.Fail("break", key, fmt.Sprintf("Iterate(%s) with a break at callback %d: %d callbacks, returned (%d, %v), panic %v", z.Label, stop, len(evs2), n2, err2, pan2), nil)
			}
		}
		if ln >= 2 {
			res.Sigs = append(res.Sigs, "iter|"+z.Label)
		}
	}
	// Len / Contains / Is* agree with the traversal
	func() {
		defer func() {
			if r := recover(); r != nil {
				res.Fail("panic", key+":len", fmt.Sprintf("Len/Contains/Is* on %s panicked: %v", z.Label, r), nil)
			}
		}()
		res.Evals += 5
		ln, lerr := stick.Len(z.V)
		if (lerr == nil) != (err == nil) || (err == nil && ln != len(evs)) {
			res.Fail("len", key, fmt.Sprintf("Len(%s) = (%d, %v) but the traversal made %d callbacks (error %v)", z.Label, ln, lerr, len(evs), err), nil)
		}
		// the template-level length (the Twig environment's filter) is the number of elements the loop visits
		if err == nil && z.V != nil {
			if lf, ok := c16TwigFilters["length"]; ok {
				got := lf(nil, z.V)
				res.Evals++
				if stick.CoerceNumber(got) != float64(len(evs)) {
					res.Fail("len", key+":filter", fmt.Sprintf("%s|length = %v but the traversal visits %d elements", z.Label, got, len(evs)), nil)
				}
			}
		}
		if it := stick.IsIterable(z.V); it != (err == nil) {
			res.Fail("isiterable", key, fmt.Sprintf("IsIterable(%s) = %v but Iterate error = %v", z.Label, it, err), nil)
		}
		if err == nil && z.V != nil {
			isArr, isMap := stick.IsArray(z.V), stick.IsMap(z.V)
			if isArr == isMap || isMap != (rv.Kind() == reflect.Map) {
				res.Fail("iskind", key, fmt.Sprintf("IsArray(%s)=%v IsMap=%v for kind %s", z.Label, isArr, isMap, rv.Kind()), nil)
			}
		}
		// a key or index handed out by the traversal finds its own element again
		if err == nil && (rv.Kind() == reflect.Map || rv.Kind() == reflect.Slice || rv.Kind() == reflect.Array) {
			for _, e := range evs {
				if f, isF := e.k.(float64); isF && math.IsNaN(f) {
					continue // a NaN key cannot be looked up
				}
				got, gerr, gpan := safeGetAttr(z.V, e.k, nil)
				res.Evals++
				if gpan != nil || gerr != nil || !deepEq(got, e.v) {
					res.Fail("iterated-key", key+":roundtrip", fmt.Sprintf("Iterate(%s) handed out key %#v (%T) with element %s, but GetAttr with that key gives (%s, %v, panic %v)", z.Label, e.k, e.k, clip(fmt.Sprintf("%#v", e.v), 80), clip(fmt.Sprintf("%#v", got), 80), gerr, gpan), nil)
					break
				}
			}
		}
		needles := []stick.Value{"e1", 101, "v0", 0, nil, "zzz", 1.5, true, "a"}
		for _, e := range evs {
			needles = append(needles, e.v)
			if len(needles) > 14 {
				break
			}
		}
		for _, nd := range needles {
			want := false
			for _, e := range evs {
				if stick.Equal(e.v, nd) {
					want = true
				}
			}
			got, cerr := stick.Contains(z.V, nd)
			if (cerr == nil) != (err == nil) || (cerr == nil && got != want) {
				res.Fail("contains", key, fmt.Sprintf("Contains(%s, %#v) = (%v, %v) but the traversal says %v (iterate error %v)", z.Label, nd, got, cerr, want, err), nil)
			}
		}
	}()
	_ = sort.Strings
}

func (p *c16) Rule() string {
	return p.ruleBase() + " " + "Round 12: containers that reach an embedded pointer (nil or not) two and three levels down - by value, by pointer, mixed, next to another embedded struct - and Deep1/Deep2/DeepI1/DeepI2; methods with array parameters and argument lists of slices of every small length, arrays, array pointers and strings."
}

func (p *c16) ruleBase() string {
	return "getattr: the full product container zoo (nil/empty/populated slices and arrays of several element types, maps keyed by string/int/float/bool/uint8/interface/struct, structs with exported, unexported, func-typed fields and value/pointer-receiver methods of arity 0..2, variadic, multi-return, no-return, pointer/interface/float/slice parameters; through 0..2 pointer levels; nil pointers; non-containers) x key zoo (strings incl. field/method names, ints, floats incl. NaN/Inf/1e30, bools, nil, nil pointer, containers, Stringer, safe value) x 22 argument lists; expectation computed with plain reflection in the harness: the element when the key/arguments are usable as given, element-or-error when a conversion is conceivable (number for a string-keyed map, numeric string or bool for a slice, fractional index, float for an int parameter, second pointer level), error otherwise; never a panic, never a wrong element. Each pair is also driven through {{ v[k] }}, {% for %} and 'in' in a template. iterate: every zoo value plus generated slices/maps of length 0..8 through 0..2 pointer levels: order, exactly-once, loop identities at every position, returned count, early break at 1..3, and agreement of Len, Contains (needles present and absent), IsIterable, IsArray, IsMap with the traversal; every key or index handed out by the traversal must find its own element again through GetAttr. random: seeded nested containers (maps keyed by string/int/float/bool/uint8/interface, slices, arrays, pointers, structs; depth<=3) looked up with one of their own keys (as is, or carried by another numeric type / as a numeric string) or a zoo key, and iterated. Non-trivial = key usable or convertible, or a method call; distinct = (container, key, arg list)."
}

func (p *c16) Assumptions() []string {
	return []string{
		"only one level of pointer indirection is required to work; deeper levels may return an error",
		"func-typed struct fields, variadic and multi-return methods, and safe-value containers/keys are only required not to panic",
		"panics raised inside user methods are outside the claim; the zoo's methods do not panic",
	}
}

func (p *c16) Floors(tier string) map[string]int64 {
	return map[string]int64{"evaluations": 40000, "distinct_nontrivial": 3000}
}
