package props

import (
	"fmt"
	"math/rand"
	"strconv"
	"strings"

	"verifharness/fw"
	"verifharness/gen"
)

// C07 — variable scoping.
type c07 struct {
	base
	nEnum, nRand int
}

func init() { fw.Register("C07", func() fw.Property { return &c07{} }) }

func (p *c07) ID() string { return "C07" }

var c07Pool = []string{"a", "b", "c", "d"}

func c07Probe(tag string) gen.Node {
	args := make([]gen.Expr, len(c07Pool))
	for i, n := range c07Pool {
		args[i] = str(n)
	}
	return &gen.NIf{Conds: []gen.Expr{&gen.EBool{V: true}}, Bodies: [][]gen.Node{{tx("[" + tag + ":"), pr(&gen.ECall{Fn: "probe", Args: args}), tx("|"), pr(&gen.ECall{Fn: "names"}), tx("]")}}}
}

type c07gen struct {
	r       *rand.Rand
	seq     int
	defined map[string]bool // names certainly defined at this point (outside macros)
	shadow  map[string]bool // names currently bound by an enclosing loop / macro parameter
	macros  []*gen.NMacro
	sig     []string
	collide int
	inMacro bool
	mlocals []string
}

func (g *c07gen) uniq() int { g.seq++; return g.seq }

func (g *c07gen) probe() gen.Node {
	g.seq++
	if g.inMacro {
		// inside a macro only parameters and the macro's own names may be looked at
		names := append([]string{}, g.mlocals...)
		args := make([]gen.Expr, len(names))
		for i, n := range names {
			args[i] = str(n)
		}
		return &gen.NIf{Conds: []gen.Expr{&gen.EBool{V: true}}, Bodies: [][]gen.Node{{tx("[m" + strconv.Itoa(g.seq) + ":"), pr(&gen.ECall{Fn: "probe", Args: args}), tx("]")}}}
	}
	return c07Probe(strconv.Itoa(g.seq))
}

func (g *c07gen) setTarget(loopFresh map[string]bool) string {
	// candidates: not shadowed; inside a loop body only names that are defined (outer or set at loop start)
	var cands []string
	for _, n := range c07Pool {
		if g.shadow[n] {
			continue
		}
		if loopFresh != nil && !g.defined[n] {
			continue
		}
		cands = append(cands, n)
	}
	if len(cands) == 0 {
		return ""
	}
	return cands[g.r.Intn(len(cands))]
}

// stmts generates statements. inLoop is non-nil inside a loop body (then only
// defined names may be assigned, see the exclusions in the rule text).
func (g *c07gen) stmts(depth, n int, inLoop map[string]bool) []gen.Node {
	var out []gen.Node
	for i := 0; i < n; i++ {
		out = append(out, g.stmt(depth, inLoop)...)
		out = append(out, g.probe())
	}
	return out
}

func (g *c07gen) stmt(depth int, inLoop map[string]bool) []gen.Node {
	r := g.r
	k := r.Intn(8)
	if depth <= 0 && k >= 2 {
		k = r.Intn(2)
	}
	if g.inMacro && (k == 5 || k == 7) {
		k = 0
	}
	switch k {
	case 7:
		// a filter section is no scope of its own: what is set inside stays set afterwards
		body := g.stmts(depth-1, 1+r.Intn(2), inLoop)
		g.sig = append(g.sig, "filter")
		return []gen.Node{tx("S("), &gen.NFilter{Filters: []string{[]string{"ident", "b1", "up"}[r.Intn(3)]}, Body: body}, tx(")")}
	case 0, 1:
		if g.inMacro {
			name := "m" + strconv.Itoa(1+r.Intn(2))
			if g.shadow[name] {
				return []gen.Node{tx("-")} // never assign to a name bound by an enclosing loop
			}
			found := false
			for _, l := range g.mlocals {
				if l == name {
					found = true
				}
			}
			if !found {
				g.mlocals = append(g.mlocals, name)
			}
			g.sig = append(g.sig, "mset")
			return []gen.Node{&gen.NSet{Name: name, X: num(1000 + g.uniq())}}
		}
		t := g.setTarget(inLoop)
		if t == "" {
			return []gen.Node{tx("-")}
		}
		g.defined[t] = true
		g.sig = append(g.sig, "set:"+t)
		if k == 1 {
			return []gen.Node{&gen.NSetCap{Name: t, Body: []gen.Node{tx("cap" + strconv.Itoa(g.uniq()))}}}
		}
		switch r.Intn(6) {
		case 0: // a variable may exist and hold null, false, zero or the empty string
			return []gen.Node{&gen.NSet{Name: t, X: &gen.ENull{}}}
		case 1:
			return []gen.Node{&gen.NSet{Name: t, X: []gen.Expr{&gen.EBool{V: false}, num(0), str("")}[r.Intn(3)]}}
		}
		if r.Intn(5) == 0 {
			// the assignment is made by a callback, through the scope of the context it is handed: it lands where
			// a set statement at this point would
			g.sig = append(g.sig, "setvar")
			return []gen.Node{pr(&gen.ECall{Fn: "setvar", Args: []gen.Expr{str(t), num(300 + g.uniq())}})}
		}
		return []gen.Node{&gen.NSet{Name: t, X: num(100 + g.uniq())}}
	case 2, 3:
		// for loop with loop variables drawn from the pool (collisions are the norm)
		f := &gen.NFor{}
		pool := c07Pool
		if g.inMacro {
			pool = []string{"m1", "m2", "p", "q"}
		}
		f.Val = pool[r.Intn(len(pool))]
		if r.Intn(2) == 0 {
			f.Key = pool[r.Intn(len(pool))]
			if f.Key == f.Val {
				f.Key = ""
			}
		}
		ln := r.Intn(3)
		els := make([]gen.Expr, ln)
		for i := range els {
			els[i] = num(10*g.uniq() + i)
		}
		f.Seq = &gen.EArr{Els: els}
		// the loop variables are bound the same way whatever the sequence is written as
		if base := 10 * g.uniq(); ln > 0 {
			switch r.Intn(6) {
			case 0: // a range written directly in the tag
				f.Seq = &gen.EBin{Op: "..", L: num(base), R: num(base + ln - 1)}
			case 1:
				f.Seq = &gen.EGroup{X: &gen.EBin{Op: "..", L: num(base), R: num(base + ln - 1)}}
			case 2: // a hash with one entry
				f.Seq = &gen.EHash{Keys: []gen.Expr{str("hk" + strconv.Itoa(base))}, Vals: []gen.Expr{num(base)}}
			}
		}
		if ln > 0 && r.Intn(3) == 0 {
			// an inline condition that rejects the first element, or all of them: what was bound for a rejected
			// element is gone like everything else when the loop has ended
			f.Cond = &gen.EBin{Op: []string{"!=", ">"}[r.Intn(2)], L: attr(nm("loop"), "index0"), R: num(0)}
			if r.Intn(3) == 0 {
				f.Cond = &gen.EBin{Op: ">", L: attr(nm("loop"), "index0"), R: num(5)}
			}
			g.sig = append(g.sig, "forif")
		}
		savedDef, savedShadow, savedML := copySet(g.defined), copySet(g.shadow), append([]string{}, g.mlocals...)
		if !g.inMacro {
			if g.defined[f.Val] || (f.Key != "" && g.defined[f.Key]) {
				g.collide++
			}
			g.shadow[f.Val], g.defined[f.Val] = true, true
			if f.Key != "" {
				g.shadow[f.Key], g.defined[f.Key] = true, true
			}
		} else {
			for _, n := range []string{f.Val, f.Key} {
				if n != "" {
					present := false
					for _, l := range g.mlocals {
						if l == n {
							present = true
						}
					}
					if !present {
						g.mlocals = append(g.mlocals, n)
					}
					g.shadow[n] = true
				}
			}
		}
		fresh := map[string]bool{}
		var body []gen.Node
		if !g.inMacro {
			// names first set inside the loop are set at the very start of the body (see rule)
			for _, n := range c07Pool {
				if !g.defined[n] && !g.shadow[n] && r.Intn(3) == 0 {
					body = append(body, &gen.NSet{Name: n, X: num(500 + g.uniq())})
					g.defined[n] = true
					fresh[n] = true
					g.sig = append(g.sig, "freshset:"+n)
				}
			}
		}
		body = append(body, g.probe())
		body = append(body, g.stmts(depth-1, 1+r.Intn(2), fresh)...)
		f.Body = body
		g.defined, g.shadow, g.mlocals = savedDef, savedShadow, savedML
		// names updated inside stay defined; fresh ones are gone again
		g.sig = append(g.sig, fmt.Sprintf("for:%s,%s:%d", f.Key, f.Val, ln))
		return []gen.Node{tx("F("), f, tx(")")}
	case 4:
		cond := r.Intn(2) == 0
		savedDef := copySet(g.defined)
		savedML := append([]string{}, g.mlocals...)
		body := g.stmts(depth-1, 1+r.Intn(2), inLoop)
		if !cond {
			g.defined = savedDef
			g.mlocals = savedML
		}
		g.sig = append(g.sig, fmt.Sprintf("if:%v", cond))
		return []gen.Node{&gen.NIf{Conds: []gen.Expr{&gen.EBool{V: cond}}, Bodies: [][]gen.Node{body}}}
	case 5:
		// macro call: parameters from the pool (shadowing outer names), body probes and sets its own names
		np := r.Intn(3)
		params := make([]string, 0, np)
		for len(params) < np {
			c := c07Pool[r.Intn(len(c07Pool))]
			dup := false
			for _, p := range params {
				if p == c {
					dup = true
				}
			}
			if !dup {
				params = append(params, c)
			}
		}
		name := "mac" + strconv.Itoa(g.uniq())
		sub := &c07gen{r: r, seq: g.seq, defined: map[string]bool{}, shadow: map[string]bool{}, inMacro: true}
		for _, p := range params {
			sub.shadow[p] = true
			sub.mlocals = append(sub.mlocals, p)
			if g.defined[p] {
				g.collide++
			}
		}
		mb := append([]gen.Node{sub.probe()}, sub.stmts(depth-1, 1+r.Intn(2), nil)...)
		g.seq = sub.seq
		g.macros = append(g.macros, &gen.NMacro{Name: name, Params: params, Body: mb})
		nargs := r.Intn(4)
		args := make([]gen.Expr, nargs)
		for i := range args {
			args[i] = num(7000 + g.uniq())
		}
		g.sig = append(g.sig, fmt.Sprintf("macro:%s/%d", strings.Join(params, ""), nargs))
		return []gen.Node{tx("<"), pr(&gen.EMethod{X: nm("_self"), Name: name, Args: args}), tx(">")}
	default:
		return []gen.Node{tx("-")}
	}
}

func copySet(m map[string]bool) map[string]bool {
	o := map[string]bool{}
	for k, v := range m {
		o[k] = v
	}
	return o
}

func (p *c07) Init(tier string, seed int64) {
	p.tier, p.seed = tier, seed
	p.nRand = p.pick(30000, 400000)
}

func (p *c07) N() int { return p.nRand + c07Rec + c07Child + len(c07Special) }

// c07Child: assignments at the top level of a template that extends a layout. They are template-level
// assignments like any other: visible to everything rendered afterwards - the child's own blocks and the layout
// around them - and overwritten by a later assignment to the same name further up the chain.
const c07Child = 3 * 2 * 3 * 3

func c07ChildCase(j int) (*Program, string) {
	ca := j % 3 // child: a not set / set / captured
	j /= 3
	cb := j % 2 // child: b not set / set
	j /= 2
	la := j % 3 // layout: a not set / set before the block / set after the block
	j /= 3
	mid := j % 3 // no middle template / one that sets nothing / one that sets a
	ts := map[string]*gen.Template{}
	var lay []gen.Node
	lay = append(lay, tx("LAY("), c07Probe("lay-start"))
	if la == 1 {
		lay = append(lay, &gen.NSet{Name: "a", X: str("lay-a")})
	}
	lay = append(lay, &gen.NBlock{Name: "body", Body: []gen.Node{tx("lay-body"), c07Probe("lay-body")}})
	if la == 2 {
		lay = append(lay, &gen.NSet{Name: "a", X: str("lay-a")})
	}
	lay = append(lay, c07Probe("lay-end"), tx(")"))
	ts["lay"] = tpl("lay", lay...)
	parent := "lay"
	if mid > 0 {
		body := []gen.Node{&gen.NExtends{Tpl: str("lay")}}
		if mid == 2 {
			body = append(body, &gen.NSet{Name: "a", X: str("mid-a")}, &gen.NSet{Name: "c", X: str("mid-c")})
		}
		ts["mid"] = tpl("mid", body...)
		parent = "mid"
	}
	child := []gen.Node{&gen.NExtends{Tpl: str(parent)}}
	switch ca {
	case 1:
		child = append(child, &gen.NSet{Name: "a", X: str("child-a")})
	case 2:
		child = append(child, &gen.NSetCap{Name: "a", Body: []gen.Node{tx("child-"), pr(str("cap")), tx("-a")}})
	}
	if cb == 1 {
		child = append(child, &gen.NSet{Name: "b", X: &gen.EBin{Op: "~", L: str("child-b-sees-a="), R: nm("a")}})
	}
	child = append(child, &gen.NBlock{Name: "body", Body: []gen.Node{tx("child-body"), c07Probe("child-body"),
		&gen.NSet{Name: "d", X: str("set-in-block")}, c07Probe("child-body-end")}})
	ts["main"] = tpl("main", child...)
	ctx := map[string]interface{}{}
	if j%2 == 1 {
		ctx["a"] = "ctx-a"
	}
	return &Program{Templates: ts, Main: "main", Ctx: ctx}, fmt.Sprintf("child/a=%d/b=%d/lay=%d/mid=%d", ca, cb, la, mid)
}

// c07Rec terminating recursive macros (shared with C11): each activation sees its own parameters again after
// the inner call has ended.
const c07Rec = 30

// c07Special: the names the executor binds itself (loop) used as ordinary names - a macro parameter, a variable set
// before, inside and after a loop - and assignments made while a block is rendered for its value.
var c07Special = []func() []gen.Node{
	func() []gen.Node { // a parameter named loop shadows the loop's own variable, at any loop depth, and only inside the call
		m := &gen.NMacro{Name: "m", Params: []string{"loop", "b"}, Body: []gen.Node{tx("[m:"), pr(nm("loop")), tx(","), pr(nm("b")),
			&gen.NFor{Val: "q", Seq: &gen.EArr{Els: []gen.Expr{num(7), num(8)}}, Body: []gen.Node{tx("<"), pr(attr(nm("loop"), "index")), tx(">")}}, tx(","), pr(nm("loop")), tx("]")}}
		call := func(a string) gen.Node {
			return pr(&gen.EMethod{X: nm("_self"), Name: "m", Args: []gen.Expr{str(a), str("B")}})
		}
		inner := &gen.NFor{Val: "j", Seq: &gen.EArr{Els: []gen.Expr{num(1), num(2)}}, Body: []gen.Node{pr(attr(nm("loop"), "index")), call("in"), pr(attr(nm("loop"), "index")), pr(attr(attr(nm("loop"), "parent"), "index")), tx(";")}}
		return []gen.Node{m, call("before"), &gen.NFor{Val: "i", Seq: &gen.EArr{Els: []gen.Expr{num(1), num(2), num(3)}}, Body: []gen.Node{pr(attr(nm("loop"), "index")), call("out"), pr(attr(nm("loop"), "index")), tx(":"), inner, tx("/")}}, call("after"),
			pr(&gen.EMethod{X: nm("_self"), Name: "m"}), c07Probe("end")}
	},
	func() []gen.Node { // ... also when the macro comes from another template, and when the argument is null
		call := func(a gen.Expr) gen.Node { return pr(&gen.EMethod{X: nm("L"), Name: "lm", Args: []gen.Expr{a}}) }
		return []gen.Node{&gen.NImport{Tpl: str("lib"), Alias: "L"}, &gen.NFor{Val: "i", Seq: &gen.EArr{Els: []gen.Expr{num(1), num(2)}}, Body: []gen.Node{call(str("x")), call(&gen.ENull{}), pr(&gen.EMethod{X: nm("L"), Name: "lm"}), pr(attr(nm("loop"), "index")), tx(";")}}, call(str("y"))}
	},
	func() []gen.Node { // a variable named loop set before a loop is back after it, and a set inside the body is gone with the body
		return []gen.Node{&gen.NSet{Name: "loop", X: str("mine")}, pr(nm("loop")), tx("|"), &gen.NFor{Val: "i", Seq: &gen.EArr{Els: []gen.Expr{num(1), num(2)}}, Body: []gen.Node{pr(attr(nm("loop"), "index")), tx(",")}}, tx("|"), pr(nm("loop")),
			&gen.NFor{Val: "i", Seq: &gen.EArr{}, Body: []gen.Node{tx("never")}, HasElse: true, Else: []gen.Node{tx("(else:"), pr(nm("loop")), tx(")")}}, c07Probe("end")}
	},
	func() []gen.Node { // loop variables are variables whatever they are called: "_", "__", "_1" bind and shadow like any name
		var out []gen.Node
		for _, n := range []string{"_", "__", "_1", "i_", "I"} {
			out = append(out, &gen.NSet{Name: n, X: str("outer-" + n)},
				&gen.NFor{Val: n, Seq: &gen.EArr{Els: []gen.Expr{num(1), num(2)}}, Body: []gen.Node{pr(nm(n)), tx(",")}}, tx("/"), pr(nm(n)), tx("|"),
				&gen.NFor{Key: n, Val: "v", Seq: &gen.EArr{Els: []gen.Expr{str("a"), str("b")}}, Body: []gen.Node{pr(nm(n)), tx("="), pr(nm("v")), tx(",")}}, tx("/"), pr(nm(n)), tx("|"),
				&gen.NFor{Key: "k", Val: n, Seq: &gen.EHash{Keys: []gen.Expr{str("hk")}, Vals: []gen.Expr{str("hv")}}, Body: []gen.Node{pr(nm("k")), tx("="), pr(nm(n)), tx(",")}}, tx("/"), pr(nm(n)), tx(";"))
		}
		m := &gen.NMacro{Name: "um", Params: []string{"_", "__"}, Body: []gen.Node{tx("[um:"), pr(nm("_")), tx(","), pr(nm("__")), tx("]")}}
		return append(append([]gen.Node{m}, out...), pr(&gen.EMethod{X: nm("_self"), Name: "um", Args: []gen.Expr{str("p1"), str("p2")}}), pr(nm("_")), c07Probe("end"))
	},
	func() []gen.Node { // an assignment made while the name or the with-hash of an include is evaluated is made before the include
		name := func(v string) gen.Expr {
			return &gen.EBin{Op: "~", L: &gen.ECall{Fn: "setvar", Args: []gen.Expr{str("a"), str(v)}}, R: str("showa")}
		}
		return []gen.Node{&gen.NSet{Name: "a", X: str("old")}, &gen.NInclude{Tpl: name("new1")}, pr(nm("a")), tx("|"), &gen.NEmbed{Tpl: name("new2")}, pr(nm("a")), tx("|"),
			&gen.NInclude{Tpl: str("showa"), With: &gen.EHash{Keys: []gen.Expr{nm("b")}, Vals: []gen.Expr{&gen.ECall{Fn: "setvar", Args: []gen.Expr{str("a"), str("new3")}}}}}, pr(nm("a")), tx("|"),
			&gen.NFor{Val: "i", Seq: &gen.EArr{Els: []gen.Expr{num(1), num(2)}}, Body: []gen.Node{&gen.NInclude{Tpl: name("in-loop")}}}, pr(nm("a")), c07Probe("end")}
	},
	func() []gen.Node { // a loop record that is kept in an outer variable keeps describing the pass it was taken in
		return []gen.Node{&gen.NSet{Name: "keep", X: &gen.ENull{}}, &gen.NSet{Name: "keep2", X: &gen.ENull{}},
			&gen.NFor{Val: "i", Seq: &gen.EArr{Els: []gen.Expr{str("first"), str("mid"), str("later")}}, Body: []gen.Node{
				&gen.NIf{Conds: []gen.Expr{attr(nm("loop"), "first")}, Bodies: [][]gen.Node{{&gen.NSet{Name: "keep", X: nm("loop")}}}},
				&gen.NIf{Conds: []gen.Expr{&gen.EBin{Op: "==", L: attr(nm("loop"), "index"), R: num(2)}}, Bodies: [][]gen.Node{{&gen.NSet{Name: "keep2", X: nm("loop")}}}},
				pr(attr(nm("keep"), "index")), tx("/"), pr(attr(nm("keep2"), "index")), tx(",")}},
			tx("|"), pr(attr(nm("keep"), "index")), pr(attr(nm("keep"), "revindex")), pr(attr(nm("keep"), "first")), pr(attr(nm("keep"), "last")), tx("/"), pr(attr(nm("keep2"), "index")), pr(attr(nm("keep2"), "revindex0")), c07Probe("end")}
	},
	func() []gen.Node { // the else branch of a loop is no loop body: what it sets (or captures) is set where the loop stands
		empty := func(n string, els ...gen.Node) gen.Node {
			return &gen.NFor{Val: "i", Seq: &gen.EArr{}, Body: []gen.Node{tx("never")}, HasElse: true, Else: els}
		}
		return []gen.Node{&gen.NSet{Name: "old", X: str("o")}, empty("a", &gen.NSet{Name: "fresh", X: str("f")}, &gen.NSet{Name: "old", X: str("o2")}, &gen.NSetCap{Name: "cap", Body: []gen.Node{tx("c"), pr(nm("fresh"))}}, c07Probe("else")),
			tx("|"), pr(nm("fresh")), pr(nm("old")), pr(nm("cap")), c07Probe("after"),
			&gen.NFor{Val: "o", Seq: &gen.EArr{Els: []gen.Expr{num(1), num(2)}}, Body: []gen.Node{empty("b", &gen.NSet{Name: "inner", X: nm("o")}), pr(nm("inner")), tx(",")}}, tx("|"), pr(nm("inner")), c07Probe("end")}
	},
	func() []gen.Node { // assignments inside if and for bodies reach the outer variable also while a block is rendered for its value
		blk := &gen.NBlock{Name: "b", Body: []gen.Node{tx("(b:"), &gen.NIf{Conds: []gen.Expr{&gen.EBool{V: true}}, Bodies: [][]gen.Node{{&gen.NSet{Name: "n", X: &gen.EBin{Op: "+", L: nm("n"), R: num(1)}}}}},
			&gen.NFor{Val: "i", Seq: &gen.EArr{Els: []gen.Expr{num(1), num(2)}}, Body: []gen.Node{&gen.NSet{Name: "t", X: &gen.EBin{Op: "+", L: nm("t"), R: nm("i")}}, &gen.NSet{Name: "fresh", X: num(1)}}}, pr(nm("n")), tx(","), pr(nm("t")), tx(")")}}
		return []gen.Node{&gen.NSet{Name: "n", X: num(0)}, &gen.NSet{Name: "t", X: num(0)}, blk, tx("|"), pr(&gen.EBlockFn{Name: str("b")}), tx("|"), &gen.NSet{Name: "v", X: &gen.EBlockFn{Name: str("b")}}, pr(nm("v")), tx("|n="), pr(nm("n")), tx(",t="), pr(nm("t")), tx(",fresh="), pr(nm("fresh")), c07Probe("end")}
	},
}

func init() {
	// the alias of an import is a variable like any other: assigned from inside a loop, a condition in a loop or a
	// capture it has the new value afterwards; a loop value or a macro parameter of the same name hides it - also when
	// what is read from the value is called like one of the library's macros
	c07Special = append(c07Special, func() []gen.Node {
		return []gen.Node{&gen.NImport{Tpl: str("lib"), Alias: "L"}, &gen.NImport{Tpl: str("lib"), Alias: "M"}, &gen.NImport{Tpl: str("lib"), Alias: "N"}, pr(&gen.EMethod{X: nm("L"), Name: "lm", Args: []gen.Expr{str("x")}}), tx("|"),
			&gen.NFor{Val: "i", Seq: &gen.EArr{Els: []gen.Expr{num(1), num(2)}}, Body: []gen.Node{&gen.NSet{Name: "L", X: &gen.EBin{Op: "~", L: str("v"), R: nm("i")}}, pr(nm("L")), tx(","),
				&gen.NIf{Conds: []gen.Expr{&gen.EBin{Op: "==", L: nm("i"), R: num(2)}}, Bodies: [][]gen.Node{{&gen.NSet{Name: "M", X: str("m-in-if")}}}}}}, tx("|"), pr(nm("L")), tx("|"), pr(nm("M")), tx("|"),
			&gen.NIf{Conds: []gen.Expr{&gen.EBool{V: true}}, Bodies: [][]gen.Node{{&gen.NSet{Name: "N", X: str("n-in-if")}}}}, pr(nm("N")), c07Probe("end")}
	}, func() []gen.Node {
		hash := func(v string) gen.Expr { return &gen.EHash{Keys: []gen.Expr{str("lm")}, Vals: []gen.Expr{str(v)}} }
		host := &gen.NMacro{Name: "host", Params: []string{"L"}, Body: []gen.Node{tx("(host:"), pr(attr(nm("L"), "lm")), tx(")")}}
		return []gen.Node{&gen.NImport{Tpl: str("lib"), Alias: "L"}, host, pr(&gen.EMethod{X: nm("L"), Name: "lm", Args: []gen.Expr{str("x")}}), tx("|"),
			&gen.NFor{Val: "L", Seq: &gen.EArr{Els: []gen.Expr{hash("loop-value-1"), hash("loop-value-2")}}, Body: []gen.Node{pr(attr(nm("L"), "lm")), tx(",")}}, tx("|"),
			&gen.NFor{Key: "L", Val: "v", Seq: &gen.EArr{Els: []gen.Expr{str("a")}}, Body: []gen.Node{pr(nm("L")), pr(nm("v")), tx(",")}}, tx("|"),
			pr(&gen.EMethod{X: nm("_self"), Name: "host", Args: []gen.Expr{hash("parameter")}}), tx("|"), pr(&gen.EMethod{X: nm("L"), Name: "lm", Args: []gen.Expr{str("y")}}), c07Probe("end")}
	})
}

func c07SpecialCase(j int) (*Program, string) {
	ts := map[string]*gen.Template{"main": tpl("main", c07Special[j]()...),
		"lib":   tpl("lib", &gen.NMacro{Name: "lm", Params: []string{"loop"}, Body: []gen.Node{tx("[lm:"), pr(nm("loop")), tx("]")}}),
		"showa": tpl("showa", tx("[showa:"), pr(nm("a")), tx("]"))}
	return &Program{Templates: ts, Main: "main", Ctx: map[string]interface{}{}}, fmt.Sprintf("special/%d", j)
}

func (p *c07) build(i int) (*Program, *c07gen) {
	r := gen.Rng(p.seed, "c07", i)
	g := &c07gen{r: r, defined: map[string]bool{}, shadow: map[string]bool{}}
	ctx := map[string]interface{}{}
	// some pool names come from the context
	for _, n := range c07Pool {
		switch r.Intn(8) {
		case 0, 1:
			ctx[n] = "ctx-" + n
			g.defined[n] = true
		case 2: // defined, but null / false / zero / empty
			ctx[n] = []interface{}{nil, false, 0, ""}[r.Intn(4)]
			g.defined[n] = true
		}
	}
	body := []gen.Node{c07Probe("start")}
	body = append(body, g.stmts(1+r.Intn(4), 1+r.Intn(4), nil)...)
	// a direct read at the end: defined -> its value, undefined -> null
	last := c07Pool[r.Intn(len(c07Pool))]
	body = append(body, tx("|end:"), pr(nm(last)))
	var pre []gen.Node
	for _, m := range g.macros {
		pre = append(pre, m)
	}
	prog := &Program{Templates: map[string]*gen.Template{"main": tpl("main", append(pre, body...)...)}, Main: "main", Ctx: ctx}
	return prog, g
}

func (p *c07) Describe(i int) interface{} {
	if i >= p.nRand+c07Rec+c07Child {
		prog, sig := c07SpecialCase(i - p.nRand - c07Rec - c07Child)
		d := prog.describe()
		d["case"] = sig
		return d
	}
	if i >= p.nRand+c07Rec {
		prog, sig := c07ChildCase(i - p.nRand - c07Rec)
		d := prog.describe()
		d["case"] = sig
		return d
	}
	if i >= p.nRand {
		prog, sig := (&c11{}).buildRec(i - p.nRand)
		d := prog.describe()
		d["case"] = sig
		return d
	}
	prog, g := p.build(i)
	d := prog.describe()
	d["statements"] = strings.Join(g.sig, " ")
	return d
}

func (p *c07) Run(i int) (res fw.Result) {
	if i >= p.nRand+c07Rec+c07Child {
		prog, sig := c07SpecialCase(i - p.nRand - c07Rec - c07Child)
		if _, _, ok := modelCase(&res, "c07:"+sig, prog, gen.Canon{}, false); !ok {
			res.Fail("harness", "c07:oor:"+sig, "case left the model's region", prog.describe())
		}
		res.AddClass("special-names")
		res.UniqueNT = 1
		return
	}
	if i >= p.nRand+c07Rec {
		prog, sig := c07ChildCase(i - p.nRand - c07Rec)
		modelCase(&res, "c07:"+sig, prog, gen.Canon{}, false)
		res.UniqueNT = 1
		return
	}
	if i >= p.nRand {
		prog, sig := (&c11{}).buildRec(i - p.nRand)
		modelCase(&res, "c07:"+sig, prog, gen.Canon{}, false)
		res.UniqueNT = 1
		return
	}
	prog, g := p.build(i)
	sig := strings.Join(g.sig, " ")
	lib, _, ok := modelCase(&res, fmt.Sprintf("c07:%d:%s", i, sig), prog, gen.Canon{}, false)
	if !ok {
		return
	}
	res.AddObs("probes", int64(strings.Count(lib.out, "[")))
	if g.collide > 0 {
		res.Sigs = append(res.Sigs, sig)
	}
	return
}

func (p *c07) Rule() string {
	return "cases: seeded nestings (depth<=4) of set, set-capture, for (with and without key), if, filter sections and macro calls over a 4-name pool (a,b,c,d; some also given by the context, some holding null, false, 0 or the empty string) so that collisions between loop variables, macro parameters and outer variables are the norm. After every statement, at the start of every loop body and macro body, a probe prints which pool names are visible and their values, and (outside macro bodies) the complete sorted list of names the scope holds, so that nothing can be defined on the side (a registered function reading Context.Scope(), mirrored by the model), and the template ends with a direct read of one pool name (undefined reads as null). Plus 54 enumerated chains (child [-> middle] -> layout) in which the child, the middle template and the layout assign at their top level (plain and captured; before and after the block): what a child assigns outside its blocks is visible in its blocks and in the layout, the last assignment on the way up wins. Oracle: reference model with the scoping rules of the statement. Excluded, as behaviour the statement leaves open: assigning to a name currently bound by an enclosing loop or macro parameter; a name first set inside a loop body is set at the very start of the body (so it is never read in iteration n+1 before being set); macro bodies only look at their parameters and their own names (m1, m2), which are never used outside macros. Non-trivial = at least one collision between a local and an outer name; distinct = statement sequence with names."
}

func (p *c07) Assumptions() []string {
	return []string{"Context.Scope().Get sees exactly what a template lookup sees (same scope stack)"}
}

func (p *c07) Floors(tier string) map[string]int64 {
	return map[string]int64{"probes": 50000, "distinct_nontrivial": 2000}
}
