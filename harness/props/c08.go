package props

import (
	"fmt"
	"io"
	"math/rand"
	"strconv"
	"strings"

	"verifharness/fw"
	"verifharness/gen"
)

// C08 — captured output goes only to its target; the main output resumes in order.
type c08 struct {
	base
	nEnum, nRand int
}

func init() { fw.Register("C08", func() fw.Property { return &c08{} }) }

func (p *c08) ID() string { return "C08" }

func (p *c08) Init(tier string, seed int64) {
	p.tier, p.seed = tier, seed
	poisonEvery = 1
	maxD := p.pick(2, 3)
	p.nEnum = 0
	for d := 1; d <= maxD; d++ {
		p.nEnum += gen.Pow(5, d) * 3
	}
	p.nRand = p.pick(12000, 300000)
}

func (p *c08) N() int { return p.nEnum + p.nRand + c08Rec + c08Many + len(c08Special) }

// c08Many: one execution with hundreds of captures of one kind, one after the other (nothing nested): whatever a
// capture takes on entry it gives back on exit, the 300th time as the first.
const c08Many = 6

func (p *c08) buildMany(j int) (*Program, string) {
	n := p.pick(300, 3000)
	var call gen.Node
	name := []string{"set-capture", "filter-section", "macro-call", "block()", "parent()", "mixed"}[j]
	ts := map[string]*gen.Template{}
	row := func(kind int) gen.Node {
		switch kind {
		case 0:
			return &gen.NIf{Conds: []gen.Expr{&gen.EBool{V: true}}, Bodies: [][]gen.Node{{&gen.NSetCap{Name: "r", Body: []gen.Node{tx("c"), pr(nm("i"))}}, pr(nm("r")), tx(",")}}}
		case 1:
			return &gen.NFilter{Filters: []string{"b1"}, Body: []gen.Node{tx("f"), pr(nm("i"))}}
		case 2:
			return pr(&gen.EMethod{X: nm("_self"), Name: "mm", Args: []gen.Expr{nm("i")}})
		case 3:
			return &gen.NIf{Conds: []gen.Expr{&gen.EBool{V: true}}, Bodies: [][]gen.Node{{&gen.NSet{Name: "r", X: &gen.EBlockFn{Name: str("leaf")}}, pr(nm("r")), tx(",")}}}
		}
		return nil
	}
	if j < 4 {
		call = row(j)
	}
	loop := func(body ...gen.Node) gen.Node {
		return &gen.NFor{Val: "i", Seq: &gen.EGroup{X: &gen.EBin{Op: "..", L: num(1), R: num(n)}}, Body: body}
	}
	mm := &gen.NMacro{Name: "mm", Params: []string{"p"}, Body: []gen.Node{tx("m"), pr(nm("p")), tx(";")}}
	leaf := &gen.NBlock{Name: "leaf", Body: []gen.Node{tx("L.")}}
	switch {
	case j < 4:
		ts["main"] = tpl("main", mm, tx("["), leaf, tx("|"), loop(call), tx("]"))
	case j == 4:
		// the overriding block calls parent() once per iteration
		ts["base"] = tpl("base", tx("B["), &gen.NBlock{Name: "content", Body: []gen.Node{tx("P.")}}, tx("]"))
		ts["main"] = tpl("main", &gen.NExtends{Tpl: str("base")}, &gen.NBlock{Name: "content", Body: []gen.Node{loop(pr(&gen.EParent{})), tx("|"), pr(&gen.EParent{})}})
	default:
		ts["main"] = tpl("main", mm, tx("["), leaf, tx("|"), loop(row(0), row(1), row(2), row(3)), tx("]"))
	}
	return &Program{Templates: ts, Main: "main", Ctx: map[string]interface{}{}}, fmt.Sprintf("many/%s/n=%d", name, n)
}

const c08Rec = 5 * 5

// buildRec: re-entrant captures. A macro or a block rendered through block() that renders itself again
// (terminating) inside its own captured output; each level writes before and after the inner call.
func (p *c08) buildRec(j int) (*Program, string) {
	depth := j % 5
	kind := j / 5
	ts := map[string]*gen.Template{}
	var main []gen.Node
	blockRec := func() []gen.Node {
		pos := &gen.EBin{Op: ">", L: nm("n"), R: num(0)}
		body := []gen.Node{tx("("), pr(nm("n")), &gen.NIf{Conds: []gen.Expr{pos}, Bodies: [][]gen.Node{{
			&gen.NSet{Name: "n", X: &gen.EBin{Op: "-", L: nm("n"), R: num(1)}}, tx("-"), pr(&gen.EBlockFn{Name: str("rb")}), tx("+")}}}, tx(":"), pr(nm("n")), tx(")")}
		return []gen.Node{&gen.NSet{Name: "n", X: num(depth)}, &gen.NBlock{Name: "rb", Body: body}}
	}
	switch kind {
	case 0, 1, 2:
		prog, _ := (&c11{}).buildRec(depth + 5*(kind%3)) // linear / two calls / mutual, defined in main
		defs := prog.Templates["main"].Body
		call := defs[len(defs)-2].(*gen.NPrint).X
		main = append(main, defs[:len(defs)-3]...)
		main = append(main, &gen.NSetCap{Name: "cap", Body: []gen.Node{tx("X"), pr(call), tx("Y")}}, tx("<"), pr(nm("cap")), tx("|"), pr(nm("cap")), tx(">"),
			&gen.NFilter{Filters: []string{"b1", "b2"}, Body: []gen.Node{tx("F"), pr(call)}})
	case 3:
		main = append(main, tx("["))
		main = append(main, blockRec()...)
		main = append(main, tx("]"))
	default:
		main = append(main, blockRec()...)
		main = append(main, &gen.NSet{Name: "n", X: num(depth)}, &gen.NSetCap{Name: "cap", Body: []gen.Node{tx("X"), pr(&gen.EBlockFn{Name: str("rb")}), tx("Y")}}, tx("<"), pr(nm("cap")), tx(">"))
	}
	ts["main"] = tpl("main", main...)
	return &Program{Templates: ts, Main: "main", Ctx: map[string]interface{}{}}, fmt.Sprintf("reentrant/kind=%d/depth=%d", kind, depth)
}

type c08gen struct {
	r       *rand.Rand
	seq     int
	macros  []gen.Node // macro library template body
	path    []string
	paths   []string
	inLoop  int
	extends bool
	usesInc bool
	failing bool // one leaf of the program ends the execution with an error
	// forced nesting for the enumerated part: kinds[depth]
	forced []int
	cont   int
}

func (g *c08gen) mark() string { g.seq++; return "T" + strconv.Itoa(g.seq) + "." }

func (g *c08gen) leafNodes() []gen.Node {
	r := g.r
	var out []gen.Node
	n := 1 + r.Intn(2)
	if len(g.forced) == 0 && r.Intn(10) == 0 {
		// nothing but white space: a captured separator or line break is a value like any other
		g.seq++
		return []gen.Node{tx([]string{" ", "\n", "\t\t", " \r\n ", "  "}[r.Intn(5)])}
	}
	if len(g.forced) == 0 && !g.failing && r.Intn(40) == 0 {
		// the execution ends here with an error: what the open captures, sections and calls have collected up to
		// this point is dropped, none of it may show up in the main output
		g.failing = true
		g.seq++
		return []gen.Node{tx(g.mark()), pr(&gen.ECall{Fn: "nofunc"}), tx(g.mark())}
	}
	for i := 0; i < n; i++ {
		if len(g.forced) == 0 && r.Intn(12) == 0 {
			// another template rendered right here, which captures on its own account: its captures must
			// neither swallow nor leak into whatever capture is open at this point
			g.seq++
			switch k := r.Intn(3); {
			case k == 0:
				out = append(out, &gen.NInclude{Tpl: str("cinc")})
			case k == 1:
				// ... rendered by a callback that uses its context: a re-entrant Execute on the same environment
				// into the callback's own buffer; what comes back is a value printed where the call stands
				out = append(out, pr(&gen.ECall{Fn: "render", Args: []gen.Expr{str("cinc")}}))
			default:
				ob := &gen.NBlock{Name: "eb", Body: []gen.Node{tx(g.mark()), &gen.NSetCap{Name: "oc", Body: []gen.Node{tx(g.mark())}}, tx("<"), pr(nm("oc")), tx(">")}}
				out = append(out, &gen.NEmbed{Tpl: str("cemb"), Blocks: []*gen.NBlock{ob}})
			}
			g.usesInc = true
			continue
		}
		if r.Intn(2) == 0 {
			out = append(out, tx(g.mark()))
		} else {
			g.seq++
			out = append(out, pr(&gen.EBin{Op: "~", L: str("P" + strconv.Itoa(g.seq)), R: str(".")}))
		}
	}
	return out
}

const (
	kSet = iota
	kFilter
	kMacro
	kBlockFn
	kParent
)

var c08KindNames = []string{"set", "filter", "macro", "block()", "parent()"}

// capture generates one capturing construct of the given kind around inner
// content, followed by the ways the captured value is used.
func (g *c08gen) capture(kind, depth int, inBlock string, inMacro bool) []gen.Node {
	r := g.r
	g.path = append(g.path, c08KindNames[kind])
	defer func() {
		g.paths = append(g.paths, strings.Join(g.path, "/"))
		g.path = g.path[:len(g.path)-1]
	}()
	switch kind {
	case kSet:
		g.seq++
		name := "cap" + strconv.Itoa(g.seq)
		if len(g.forced) == 0 && !inMacro && r.Intn(6) == 0 {
			// the capture of a single print is the text that print produced - a string - whatever the value was
			src := []string{"zero", "yes", "nul", "half"}[r.Intn(4)]
			return []gen.Node{&gen.NSetCap{Name: name, Body: []gen.Node{pr(nm(src))}}, tx(g.mark()), pr(&gen.EFilter{X: nm(name), Name: "wrap"}),
				&gen.NIf{Conds: []gen.Expr{nm(name)}, Bodies: [][]gen.Node{{tx("truthy.")}}, HasElse: true, Else: []gen.Node{tx("falsy.")}}}
		}
		out := []gen.Node{&gen.NSetCap{Name: name, Body: g.body(depth-1, inBlock, inMacro)}}
		if len(g.forced) == 0 && r.Intn(8) == 0 {
			// the capture stands in the else branch of a loop over nothing: it is made where the loop stands
			out = []gen.Node{&gen.NFor{Val: "nothing", Seq: &gen.EArr{}, Body: []gen.Node{tx("never")}, HasElse: true, Else: out}}
		}
		uses := r.Intn(4)
		if len(g.forced) > 0 {
			uses = 1 + g.cont
		}
		for i := 0; i < uses; i++ {
			out = append(out, tx(g.mark()), pr(nm(name)))
		}
		if r.Intn(3) == 0 {
			out = append(out, pr(&gen.ECall{Fn: "fn", Args: []gen.Expr{nm(name)}}))
		}
		if !inMacro && r.Intn(3) == 0 {
			// pass the captured value on to a macro
			out = append(out, g.macroCall([]gen.Expr{nm(name)}, depth-1))
		}
		return out
	case kFilter:
		// inc returns a number, ident whatever it was given: the next filter in the section still gets text
		fs := [][]string{{"b1"}, {"b2", "b1"}, {"b1", "b2", "b3"}, {"b3"}, {"up"}, {"up", "b2"}, {"inc", "wrap"}, {"ident", "wrap", "b1"}, {"inc", "ident", "wrap"}}
		return []gen.Node{&gen.NFilter{Filters: fs[r.Intn(len(fs))], Body: g.body(depth-1, inBlock, inMacro)}}
	case kMacro:
		if inMacro {
			return []gen.Node{tx(g.mark())}
		}
		return []gen.Node{g.macroCall(nil, depth-1)}
	case kBlockFn:
		if inMacro {
			return []gen.Node{tx(g.mark())}
		}
		leaf := "lf" + strconv.Itoa(r.Intn(2))
		if r.Intn(2) == 0 {
			g.seq++
			name := "bv" + strconv.Itoa(g.seq)
			// (the value is text like any other: a callback that is handed it sees a string)
			return []gen.Node{&gen.NSet{Name: name, X: &gen.EBlockFn{Name: str(leaf)}}, tx(g.mark()), pr(nm(name)), pr(nm(name)), pr(&gen.ECall{Fn: "fn", Args: []gen.Expr{nm(name)}})}
		}
		if r.Intn(3) == 0 {
			return []gen.Node{pr(&gen.ECall{Fn: "fn", Args: []gen.Expr{&gen.EBlockFn{Name: str(leaf)}}})}
		}
		return []gen.Node{pr(&gen.EBlockFn{Name: str(leaf)})}
	default: // kParent
		if inBlock == "" || !g.extends || inMacro {
			return []gen.Node{tx(g.mark())}
		}
		if r.Intn(2) == 0 {
			g.seq++
			name := "pv" + strconv.Itoa(g.seq)
			return []gen.Node{&gen.NSet{Name: name, X: &gen.EParent{}}, tx(g.mark()), pr(nm(name)), pr(&gen.ECall{Fn: "fn", Args: []gen.Expr{nm(name)}})}
		}
		if r.Intn(3) == 0 {
			return []gen.Node{pr(&gen.ECall{Fn: "fn", Args: []gen.Expr{&gen.EParent{}}})}
		}
		return []gen.Node{pr(&gen.EParent{})}
	}
}

func (g *c08gen) macroCall(extra []gen.Expr, depth int) gen.Node {
	g.seq++
	name := "mc" + strconv.Itoa(g.seq)
	params := []string{"p"}
	// the parameter is called like a variable of the context, and is read again two scopes further in
	body := []gen.Node{tx(g.mark()), pr(nm("p")), &gen.NFor{Val: "li", Seq: &gen.EArr{Els: []gen.Expr{num(1), num(2)}}, Body: []gen.Node{
		&gen.NFor{Val: "lj", Seq: &gen.EArr{Els: []gen.Expr{num(1)}}, Body: []gen.Node{pr(nm("p")), &gen.NSetCap{Name: "inner", Body: []gen.Node{pr(nm("p"))}}, pr(nm("inner"))}}}}}
	body = append(body, g.body(depth, "", true)...)
	g.macros = append(g.macros, &gen.NMacro{Name: name, Params: params, Body: body})
	args := extra
	if len(args) == 0 {
		args = []gen.Expr{str("arg" + strconv.Itoa(g.seq))}
	}
	return &gen.NIf{Conds: []gen.Expr{&gen.EBool{V: true}}, Bodies: [][]gen.Node{{
		&gen.NImport{Tpl: str("macs"), Alias: "mm"},
		pr(&gen.EMethod{X: nm("mm"), Name: name, Args: args}),
	}}}
}

func (g *c08gen) body(depth int, inBlock string, inMacro bool) []gen.Node {
	r := g.r
	if depth > 0 && len(g.forced) == 0 && r.Intn(4) == 0 {
		// a body that consists of exactly one capturing construct, nothing around it
		return g.capture([]int{kFilter, kFilter, kSet, kMacro}[r.Intn(4)], depth, inBlock, inMacro)
	}
	out := g.leafNodes()
	if depth <= 0 {
		return out
	}
	if len(g.forced) > 0 {
		lvl := len(g.forced) - depth
		if lvl >= 0 && lvl < len(g.forced) {
			out = append(out, g.capture(g.forced[lvl], depth, inBlock, inMacro)...)
			out = append(out, g.leafNodes()...)
		}
		return out
	}
	n := 1 + r.Intn(2)
	for i := 0; i < n; i++ {
		c := g.capture(r.Intn(5), depth, inBlock, inMacro)
		if !inMacro && g.inLoop < 2 && r.Intn(4) == 0 {
			g.inLoop++
			c = []gen.Node{&gen.NFor{Val: "i" + strconv.Itoa(g.inLoop), Seq: &gen.EGroup{X: &gen.EBin{Op: "..", L: num(1), R: num(2)}}, Body: c}}
			g.inLoop--
			g.paths = append(g.paths, "loop")
		}
		out = append(out, c...)
		out = append(out, g.leafNodes()...)
	}
	return out
}

func (p *c08) build(i int) (*Program, *c08gen) {
	g := &c08gen{}
	if i < p.nEnum {
		// enumerated: every nesting of depth d of the five kinds x 3 continuations
		j := i
		d := 1
		for {
			n := gen.Pow(5, d) * 3
			if j < n {
				break
			}
			j -= n
			d++
		}
		g.cont = j % 3
		j /= 3
		for k := 0; k < d; k++ {
			g.forced = append(g.forced, j%5)
			j /= 5
		}
		g.r = gen.Rng(1, "c08enum", i)
		g.extends = true
	} else {
		g.r = gen.Rng(p.seed, "c08", i)
		g.extends = g.r.Intn(3) != 0
	}
	r := g.r
	depth := 1 + r.Intn(5)
	if len(g.forced) > 0 {
		depth = len(g.forced)
	}
	ts := map[string]*gen.Template{}
	leafBlocks := func() []gen.Node {
		var out []gen.Node
		for k := 0; k < 2; k++ {
			out = append(out, &gen.NBlock{Name: "lf" + strconv.Itoa(k), Body: []gen.Node{tx(g.mark()), &gen.NFilter{Filters: []string{"b2"}, Body: []gen.Node{tx(g.mark())}}, tx(g.mark())}})
		}
		return out
	}
	if g.extends {
		// base defines main block + leaf blocks; main overrides the block and may call parent()
		baseBody := []gen.Node{tx(g.mark()), &gen.NBlock{Name: "content", Body: append([]gen.Node{tx(g.mark())}, g.body(1, "", false)...)}, tx(g.mark())}
		baseBody = append(baseBody, leafBlocks()...)
		baseBody = append(baseBody, tx(g.mark()))
		ts["base"] = tpl("base", baseBody...)
		content := &gen.NBlock{Name: "content", Body: g.body(depth, "content", false)}
		child := []gen.Node{&gen.NExtends{Tpl: str("base")}}
		if len(g.forced) == 0 && r.Intn(3) == 0 {
			// captures at the top level of the extending template, in source order between the macro they call and
			// one defined only afterwards: the value is what the body produced when the statement was reached
			tm := &gen.NMacro{Name: "tm", Params: []string{"p"}, Body: []gen.Node{tx(g.mark()), pr(nm("p")), tx(g.mark())}}
			capBody := []gen.Node{tx(g.mark()), pr(&gen.EMethod{X: nm("_self"), Name: "tm", Args: []gen.Expr{str("A.")}}), tx(g.mark())}
			child = append(child, tm, &gen.NSetCap{Name: "topcap", Body: capBody},
				&gen.NSet{Name: "topval", X: &gen.EBin{Op: "~", L: &gen.EMethod{X: nm("_self"), Name: "tm", Args: []gen.Expr{str("B.")}}, R: nm("topcap")}})
			content.Body = append(content.Body, tx("<"), pr(nm("topcap")), tx("|"), pr(nm("topval")), tx(">"))
			g.paths = append(g.paths, "child-top-level-capture")
		}
		ts["main"] = tpl("main", append(child, content)...)
	} else {
		body := []gen.Node{tx(g.mark())}
		body = append(body, g.body(depth, "", false)...)
		body = append(body, leafBlocks()...)
		body = append(body, tx(g.mark()))
		ts["main"] = tpl("main", body...)
	}
	ts["macs"] = tpl("macs", g.macros...)
	if g.usesInc {
		ts["cinc"] = tpl("cinc", tx("I1."), &gen.NSetCap{Name: "ic", Body: []gen.Node{tx("I2.")}}, tx("<"), pr(nm("ic")), tx(">"),
			&gen.NFilter{Filters: []string{"b1"}, Body: []gen.Node{tx("I3.")}}, tx("I4."))
		ts["cemb"] = tpl("cemb", tx("E1."), &gen.NSetCap{Name: "ec", Body: []gen.Node{tx("E2.")}}, &gen.NBlock{Name: "eb", Body: []gen.Node{tx("E3.")}},
			tx("<"), pr(nm("ec")), tx(">"), &gen.NFilter{Filters: []string{"b3"}, Body: []gen.Node{tx("E4."), &gen.NBlock{Name: "eb2", Body: []gen.Node{tx("E5.")}}}}, tx("E6."))
		g.paths = append(g.paths, "include/embed")
	}
	return &Program{Templates: ts, Main: "main", Ctx: map[string]interface{}{"p": "GLOBAL-p.", "zero": 0, "yes": true, "nul": nil, "half": 0.5}}, g
}

func (p *c08) Describe(i int) interface{} {
	if i >= p.nEnum+p.nRand+c08Rec+c08Many {
		prog := &Program{Templates: c08Special[i-(p.nEnum+p.nRand+c08Rec+c08Many)](), Main: "main", Ctx: map[string]interface{}{}}
		return prog.describe()
	}
	if i >= p.nEnum+p.nRand+c08Rec {
		_, sig := p.buildMany(i - p.nEnum - p.nRand - c08Rec)
		return map[string]interface{}{"case": sig}
	}
	if i >= p.nEnum+p.nRand {
		prog, sig := p.buildRec(i - p.nEnum - p.nRand)
		d := prog.describe()
		d["case"] = sig
		return d
	}
	prog, g := p.build(i)
	d := prog.describe()
	d["capture_paths"] = g.paths
	return d
}

// c08Special: capturing constructs whose own source writes nothing - what they capture is written by a block a child
// template puts there, or comes back from a call - and values that are produced where no output is wanted.
var c08Special = []func() map[string]*gen.Template{
	func() map[string]*gen.Template { // an empty block (or one holding only statements) inside a capture, a section, a macro: the child fills it
		empty := func(n string, body ...gen.Node) *gen.NBlock { return &gen.NBlock{Name: n, Body: body} }
		base := []gen.Node{tx("["), &gen.NSetCap{Name: "cap", Body: []gen.Node{empty("nav")}}, tx("]<"), pr(nm("cap")), tx("|"), pr(nm("cap")), tx(">("),
			&gen.NFilter{Filters: []string{"up"}, Body: []gen.Node{empty("sec", &gen.NSet{Name: "q", X: num(1)})}}, tx(")"),
			&gen.NSetCap{Name: "cap2", Body: []gen.Node{&gen.NIf{Conds: []gen.Expr{&gen.EBool{V: true}}, Bodies: [][]gen.Node{{empty("deep", &gen.NComment{S: " nothing "}, empty("deeper"))}}}}}, tx("(:"), pr(nm("cap2")), tx(":)"),
			&gen.NSetCap{Name: "cap3", Body: []gen.Node{&gen.NFor{Val: "i", Seq: &gen.EArr{Els: []gen.Expr{num(1), num(2)}}, Body: []gen.Node{empty("row")}}}}, tx("/"), pr(nm("cap3")), tx("/")}
		child := []gen.Node{&gen.NExtends{Tpl: str("base")}, &gen.NBlock{Name: "nav", Body: []gen.Node{tx("Home."), pr(&gen.ECall{Fn: "fn", Args: []gen.Expr{str("nav")}})}},
			&gen.NBlock{Name: "sec", Body: []gen.Node{tx("section.")}}, &gen.NBlock{Name: "deeper", Body: []gen.Node{tx("Deeper.")}}, &gen.NBlock{Name: "row", Body: []gen.Node{tx("r"), pr(nm("i")), tx(".")}}}
		return map[string]*gen.Template{"main": tpl("main", child...), "base": tpl("base", base...)}
	},
	func() map[string]*gen.Template { // a capturing construct that captures nothing has the empty text as its value - a string, not null
		m := &gen.NMacro{Name: "nothing", Body: []gen.Node{&gen.NComment{S: " no output "}}}
		fn := func(e gen.Expr) gen.Node { return pr(&gen.ECall{Fn: "fn", Args: []gen.Expr{e}}) }
		base := []gen.Node{tx("B["), &gen.NBlock{Name: "void", Body: nil}, &gen.NBlock{Name: "filled", Body: []gen.Node{tx("F.")}}, &gen.NBlock{Name: "pv", Body: nil}, tx("]")}
		child := []gen.Node{&gen.NExtends{Tpl: str("base")}, m, &gen.NBlock{Name: "filled", Body: []gen.Node{tx("("), fn(&gen.EBlockFn{Name: str("void")}), fn(&gen.EMethod{X: nm("_self"), Name: "nothing"}),
			&gen.NSetCap{Name: "c", Body: nil}, fn(nm("c")), &gen.NSet{Name: "b", X: &gen.EBlockFn{Name: str("void")}}, fn(nm("b")), fn(&gen.EBin{Op: "~", L: nm("b"), R: &gen.EBlockFn{Name: str("void")}}),
			&gen.NFilter{Filters: []string{"ident"}, Body: nil}, tx(")")}},
			&gen.NBlock{Name: "pv", Body: []gen.Node{tx("<"), fn(&gen.EParent{}), &gen.NSet{Name: "p", X: &gen.EParent{}}, fn(nm("p")), tx(">")}}}
		return map[string]*gen.Template{"main": tpl("main", child...), "base": tpl("base", base...)}
	},
	func() map[string]*gen.Template { // a filter section names filters; one that does not exist is an error whatever it is called
		return map[string]*gen.Template{"main": tpl("main", tx("a"), &gen.NFilter{Filters: []string{"up", "raw"}, Body: []gen.Node{tx("x")}}, tx("b"))}
	},
	func() map[string]*gen.Template {
		return map[string]*gen.Template{"main": tpl("main", tx("a"), &gen.NFilter{Filters: []string{"escape"}, Body: []gen.Node{tx("x")}}, tx("b"))}
	},
	func() map[string]*gen.Template {
		return map[string]*gen.Template{"main": tpl("main", tx("a"), &gen.NFilter{Filters: []string{"e", "up"}, Body: []gen.Node{tx("x")}}, pr(&gen.EFilter{X: str("y"), Name: "raw"}), tx("b"))}
	},
	func() map[string]*gen.Template { // values produced inside do: a macro's, a block's, a capture handed on - the callee sees them
		m := &gen.NMacro{Name: "m", Params: []string{"p"}, Body: []gen.Node{tx("M("), pr(nm("p")), tx(")")}}
		return map[string]*gen.Template{"main": tpl("main", m, &gen.NBlock{Name: "b", Body: []gen.Node{tx("B.")}}, tx("|"),
			&gen.NDo{X: &gen.ECall{Fn: "fn", Args: []gen.Expr{&gen.EMethod{X: nm("_self"), Name: "m", Args: []gen.Expr{str("x")}}}}},
			&gen.NDo{X: &gen.ECall{Fn: "setvar", Args: []gen.Expr{str("r"), &gen.EMethod{X: nm("_self"), Name: "m", Args: []gen.Expr{str("y")}}}}}, pr(nm("r")), tx("|"),
			&gen.NDo{X: &gen.ECall{Fn: "setvar", Args: []gen.Expr{str("r2"), &gen.EBlockFn{Name: str("b")}}}}, pr(nm("r2")), tx("|"),
			&gen.NDo{X: &gen.ECall{Fn: "setvar", Args: []gen.Expr{str("r3"), &gen.ECall{Fn: "render", Args: []gen.Expr{str("inc")}}}}}, pr(nm("r3")), tx("|"),
			&gen.NDo{X: &gen.EFilter{X: &gen.EMethod{X: nm("_self"), Name: "m", Args: []gen.Expr{str("z")}}, Name: "wrap"}}, tx("end")),
			"inc": tpl("inc", tx("I("), pr(&gen.ECall{Fn: "fn", Args: []gen.Expr{str("inc")}}), tx(")"))}
	},
	func() map[string]*gen.Template { // macros of a library whose name is the empty string: what is written after their calls goes where it went before
		m := &gen.NMacro{Name: "m", Params: []string{"p"}, Body: []gen.Node{tx("M("), pr(nm("p")), tx(")")}}
		call := func(obj, a string) gen.Expr { return &gen.EMethod{X: nm(obj), Name: "m", Args: []gen.Expr{str(a)}} }
		return map[string]*gen.Template{"main": tpl("main", &gen.NImport{Tpl: str(""), Alias: "lib"}, &gen.NFrom{Tpl: str(""), Names: [][2]string{{"m", "mm"}}}, tx("a"), pr(call("lib", "1")), tx("b"),
			&gen.NSetCap{Name: "c", Body: []gen.Node{tx("c1"), pr(call("lib", "2")), tx("c2")}}, tx("d"), pr(nm("c")), tx("e"), pr(&gen.ECall{Fn: "mm", Args: []gen.Expr{str("3")}}), tx("f"),
			&gen.NFilter{Filters: []string{"up"}, Body: []gen.Node{tx("g"), pr(call("lib", "4")), tx("h")}}, tx("i"), pr(&gen.ECall{Fn: "fn", Args: []gen.Expr{str("end")}}), tx("j")),
			"": tpl("", m, tx("never"))}
	},
}

func (p *c08) Run(i int) (res fw.Result) {
	if i >= p.nEnum+p.nRand+c08Rec+c08Many {
		j := i - (p.nEnum + p.nRand + c08Rec + c08Many)
		prog := &Program{Templates: c08Special[j](), Main: "main", Ctx: map[string]interface{}{}}
		sig := fmt.Sprintf("special/%d", j)
		if _, _, ok := modelCase(&res, "c08:"+sig, prog, gen.Canon{}, true); !ok {
			res.Fail("harness", "c08:oor:"+sig, "case left the model's region ("+lastLayout+")", prog.describe())
		}
		// ... and rendered into io.Discard the callbacks are the same
		a, d := runLib(prog, gen.Canon{}, false), runLibTo(prog, gen.Canon{}, false, io.Discard)
		if d.pan != nil || (d.err == nil) != (a.err == nil) || callsString(d.calls) != callsString(a.calls) {
			res.Fail("destination-matters", "c08:"+sig+":discard", fmt.Sprintf("rendered into io.Discard: error %v, panic %v, callbacks [%s]; into a buffer: error %v, callbacks [%s]", d.err, d.pan, clip(callsString(d.calls), 300), a.err, clip(callsString(a.calls), 300)), prog.describe())
		}
		res.AddClass("special")
		res.UniqueNT = 1
		return
	}
	if i >= p.nEnum+p.nRand+c08Rec {
		prog, sig := p.buildMany(i - p.nEnum - p.nRand - c08Rec)
		if _, _, ok := modelCase(&res, "c08:"+sig, prog, gen.Canon{}, true); !ok {
			res.Fail("harness", "c08:oor:"+sig, "case left the model's region", prog.describe())
		}
		res.UniqueNT = 1
		return
	}
	if i >= p.nEnum+p.nRand {
		prog, sig := p.buildRec(i - p.nEnum - p.nRand)
		if _, _, ok := modelCase(&res, "c08:"+sig, prog, gen.Canon{}, true); !ok {
			res.Fail("harness", "c08:oor:"+sig, "case left the model's region", prog.describe())
		}
		res.UniqueNT = 1
		return
	}
	prog, g := p.build(i)
	sig := strings.Join(g.paths, ",")
	lib, _, ok := modelCase(&res, fmt.Sprintf("c08:%d:%s", i, sig), prog, gen.Canon{}, true)
	if !ok {
		return
	}
	res.AddObs("markers_in_output", int64(strings.Count(lib.out, ".")))
	deep := false
	for _, pth := range g.paths {
		if strings.Count(pth, "/") >= 1 || pth == "loop" {
			deep = true
		}
	}
	if deep {
		res.Sigs = append(res.Sigs, sig)
	}
	return
}

func (p *c08) Rule() string {
	return "cases: enumerated - every nesting of depth <=2 (quick) / <=3 (thorough) of the five capture kinds (set..endset, filter section with 1..3 bracket filters, macro call, block(), parent()) x 3 continuations (captured value printed 1..3 times); 300 (thorough 3000) sequential captures of each kind in one execution; re-entrant captures - terminating recursive macros (linear, two inner calls, mutual) inside set-captures and filter sections and a block that renders itself through block(), depth 0..4; captures of a single print of a number / bool / null (the captured value is the text: passed to a recording filter and used as a condition); macro parameters named like a context variable and read again inside two nested loops and a capture; random - nestings to depth 5 (with includes and embeds of templates that capture on their own account dropped into any body, embed overrides capturing too) with 1..2 captures per level (a quarter of the bodies consist of exactly one capturing construct with nothing around it, so sections are directly nested), captures inside loops (<=2 deep), captured values printed 0..3 times, assigned from block()/parent() and passed on as macro arguments, in extending and non-extending templates. Every text run and print carries a unique marker (T17. / P23.), so the oracle (reference model output plus the recorded filter-callback log) sees any byte that is misrouted, duplicated or lost. Non-trivial = nesting depth >= 2 or a capture inside a loop; distinct = multiset of capture paths."
}

func (p *c08) Assumptions() []string {
	return []string{"macro bodies only use their parameter and their own captures; block() only refers to leaf blocks that call neither block() nor parent() (unbounded recursion is outside every claim)"}
}

func (p *c08) Floors(tier string) map[string]int64 {
	return map[string]int64{"markers_in_output": 50000, "distinct_nontrivial": 500, "callbacks_observed": 5000}
}
