package props

import (
	"fmt"
	"strings"

	"github.com/tyler-sommer/stick"
	"github.com/tyler-sommer/stick/parse"
	"github.com/tyler-sommer/stick/twig"

	"verifharness/fw"
	"verifharness/gen"
	"verifharness/mon"
)

// C01 — parsing is total.
//
// Refuting events: worker death (panic on either goroutine, fatal error), a panic
// recovered on the calling goroutine, a runtime-detected deadlock, a tokeniser or
// parser step budget exceeded, the CPU budget exceeded, or (nil tree, nil error).
type c01 struct {
	base
	groups []c01group
	total  int
}

type c01group struct {
	name  string
	n     int
	build func(i int) string
}

func init() { fw.Register("C01", func() fw.Property { return &c01{} }) }

func (p *c01) ID() string { return "C01" }

func (p *c01) add(name string, n int, build func(i int) string) {
	p.groups = append(p.groups, c01group{name, n, build})
	p.total += n
}

var c01InsertQuick = []string{"{{", "}}", "{%", "%}", "{#", "#{", "(", "'", "\"", "-", "%", ".", "|", "1", "\n", "endif", "\r", "@"}

var c01Wrappers = [][2]string{
	{"{% embed 'e' %}", "{% endembed %}"}, {"{% embed 'e' %}{% block b %}", "{% endblock %}{% endembed %}"}, {"{% macro m(a) %}", "{% endmacro %}"},
	{"{% block b %}", "{% endblock %}"}, {"{% set s %}", "{% endset %}"}, {"{% verbatim %}", "{% endverbatim %}{{ a }}"}, {"{# ", " #}{{ a }}"},
	{"{{ \"#{", "}\" }}"}, {"{% if a %}", "{% else %}y{% endif %}"}, {"{% for i in a %}", "{% endfor %}"}, {"{% filter f %}", "{% endfilter %}"},
}

func (p *c01) Init(tier string, seed int64) {
	p.tier, p.seed = tier, seed
	corpus := gen.Corpus()

	// (i) every byte prefix of every corpus template
	{
		var offs []int
		tot := 0
		for _, s := range corpus {
			offs = append(offs, tot)
			tot += len(s) + 1
		}
		p.add("prefix", tot, func(i int) string {
			k := searchOffs(offs, i)
			return corpus[k][:i-offs[k]]
		})
	}
	// (ii) single-fragment deletion / duplication / insertion at every boundary
	{
		ins := c01InsertQuick
		if p.thorough() {
			ins = append(append([]string{}, gen.Fragments...), gen.ExtraFragments...)
		}
		type ent struct {
			frags []string
			off   int
		}
		var ents []ent
		tot := 0
		for _, s := range corpus {
			f := gen.Split(s)
			ents = append(ents, ent{f, tot})
			m := len(f)
			tot += m + m + (m+1)*len(ins)
		}
		offs := make([]int, len(ents))
		for i, e := range ents {
			offs[i] = e.off
		}
		fragmut := func(i int) string {
			k := searchOffs(offs, i)
			f := ents[k].frags
			j := i - offs[k]
			m := len(f)
			switch {
			case j < m: // delete fragment j
				return strings.Join(f[:j], "") + strings.Join(f[j+1:], "")
			case j < 2*m: // duplicate fragment j-m
				j -= m
				return strings.Join(f[:j+1], "") + strings.Join(f[j:], "")
			default:
				j -= 2 * m
				pos, which := j/len(ins), j%len(ins)
				return strings.Join(f[:pos], "") + ins[which] + strings.Join(f[pos:], "")
			}
		}
		p.add("fragmut", tot, fragmut)
		// the same mutated templates inside constructs that switch the tokeniser or the parser into another mode
		// (an embed body is skipped token by token, a macro/block/capture body is parsed recursively, ...)
		stride := p.pick(3, 1)
		p.add("wrapped", (tot+stride-1)/stride, func(i int) string {
			m := fragmut((i*stride + int(p.seed)%stride) % tot)
			w := c01Wrappers[(i+int(p.seed))%len(c01Wrappers)]
			return w[0] + m + w[1]
		})
	}
	// (ii') every ordered pair (and, thorough, triple) of statements, each tag in several argument forms: what one
	// tag leaves behind in the parser (the parent, the block table, the macro table) meets every other tag
	{
		st := c01Statements()
		n := len(st)
		tot := n * n
		if p.thorough() {
			tot += n * n * n
		}
		p.add("stmt-seq", tot, func(i int) string {
			if i < n*n {
				return st[i/n] + st[i%n]
			}
			i -= n * n
			return st[i/(n*n)] + "x" + st[(i/n)%n] + "\n" + st[i%n]
		})
	}
	// (iii) bounded-exhaustive fragment sequences
	{
		maxL := p.pick(3, 5)
		nf := len(gen.Fragments)
		var offs []int
		tot := 0
		for l := 1; l <= maxL; l++ {
			offs = append(offs, tot)
			tot += gen.Pow(nf, l)
		}
		p.add("fragseq", tot, func(i int) string {
			k := searchOffs(offs, i)
			return gen.FragSeq(i-offs[k], k+1)
		})
	}
	// (iv) random byte strings and random fragment strings
	{
		n := p.pick(6000, 300000)
		maxLen := p.pick(256, 4096)
		all := append(append([]string{}, gen.Fragments...), gen.ExtraFragments...)
		p.add("random", n, func(i int) string {
			r := gen.Rng(p.seed, "c01rand", i)
			var b strings.Builder
			switch i % 4 {
			case 0: // raw bytes
				l := 1 + r.Intn(maxLen)
				for k := 0; k < l; k++ {
					b.WriteByte(byte(r.Intn(256)))
				}
			case 1: // bytes over the delimiter alphabet
				l := 1 + r.Intn(maxLen)
				const alpha = "{}%#-'\"()[]|.,:?=~ \n\ta1_"
				for k := 0; k < l; k++ {
					b.WriteByte(alpha[r.Intn(len(alpha))])
				}
			default: // fragment soup
				l := 1 + r.Intn(maxLen/4)
				for k := 0; k < l; k++ {
					b.WriteString(all[r.Intn(len(all))])
				}
			}
			return b.String()
		})
		if p.thorough() {
			// a few very long inputs (up to 64 KiB)
			p.add("randomlong", 400, func(i int) string {
				r := gen.Rng(p.seed, "c01long", i)
				var b strings.Builder
				l := 4096 + r.Intn(60<<10)
				for b.Len() < l {
					if r.Intn(3) == 0 {
						b.WriteString(corpus[r.Intn(len(corpus))])
					} else {
						b.WriteString(all[r.Intn(len(all))])
					}
				}
				return b.String()
			})
		}
	}
	// (v) byte-level hostility inside corpus templates
	{
		repl := []string{"\x00", "\xff", "\xc3", "\r", "\r\n", "\xe2\x80\xa8", "\xf0\x9f", "\f", "\v", "\x1f", "\x7f", "\xc2\x85", "\xc2\xa0", "\xef\xbb\xbf", "\xe2\x80\x8b", "\xe2\x80\xa9", "\x08", "\x1b"}
		stridePos := p.pick(7, 1)
		type ent struct {
			s   string
			off int
			n   int
		}
		var ents []ent
		tot := 0
		for _, s := range corpus {
			npos := (len(s) + stridePos - 1) / stridePos
			ents = append(ents, ent{s, tot, npos})
			tot += npos * len(repl)
		}
		offs := make([]int, len(ents))
		for i, e := range ents {
			offs[i] = e.off
		}
		p.add("bytes", tot, func(i int) string {
			k := searchOffs(offs, i)
			e := ents[k]
			j := i - e.off
			pos := (j / len(repl)) * stridePos
			if stridePos > 1 {
				pos = (pos + int(p.seed)) % len(e.s)
			}
			return e.s[:pos] + repl[j%len(repl)] + e.s[pos+1:]
		})
	}
	// (v') every byte value substituted and inserted at every position of short templates, one per lexer mode
	{
		shorts := []string{
			"a{{ b.c|f(1, 'x') }}d", "{% if a %}x{% endif %}", "{{ \"a#{b}c\" }}", "x{#- c -#}y", "{% verbatim %}x{% endverbatim %}",
			"{% for k, v in [1, 2] %}{{ v }}{% endfor %}", "{{- a -}}", "{% embed 'e' %}{% block b %}x{% endblock %}{% endembed %}",
		}
		var offs []int
		tot := 0
		for _, t := range shorts {
			offs = append(offs, tot)
			tot += (2*len(t) + 1) * 256
		}
		p.add("allbytes", tot, func(i int) string {
			k := searchOffs(offs, i)
			t := shorts[k]
			j := i - offs[k]
			b := string([]byte{byte(j % 256)})
			j /= 256
			if j < len(t) {
				return t[:j] + b + t[j+1:]
			}
			j -= len(t)
			return t[:j] + b + t[j:]
		})
	}
	// (vi') unclosed alternations of two openers: anything that rescans the rest of the input per level shows as time
	{
		openers := []string{"\"", "'", "#{", "(", "[", "{", "{{", "{%", "\"#{", "a|f(", "{# ", "[\""}
		depths := []int{20, 60}
		if p.thorough() {
			depths = append(depths, 500, 3000)
		}
		n := len(openers) * len(openers) * len(depths) * 2
		p.add("alternation", n, func(i int) string {
			d := depths[i%len(depths)]
			i /= len(depths)
			pre := []string{"{{ ", "{% if "}[i%2]
			i /= 2
			a, b := openers[i%len(openers)], openers[i/len(openers)]
			return pre + strings.Repeat(a+b, d)
		})
	}
	// (vii) pumped units: a short sequence of the tokens strings and interpolations are made of, repeated 40 times
	// behind an opening quote. A scan that retries after a failure instead of giving up takes twice as long for every
	// repetition of the right unit - 40 repetitions tell linear from exponential, whatever the unit
	{
		alpha := []string{"#{", "\"", "}", "{", "#", "a", "'", "\\", "}}", " ", "~"}
		pres := []string{"{{ \"", "{% set x = \"", "<p>{{ \"a", "{{ '", "{% if \"#{", "{{ f(\""}
		posts := []string{"", "\n</p><p>the rest of the page</p>\n", "\" }}", "' }}", "}\" %}x{% endif %}"}
		nExh := 0
		for l := 1; l <= 3; l++ {
			nExh += gen.Pow(len(alpha), l)
		}
		nRnd := p.pick(30000, 600000)
		p.add("pumped-unit", (nExh+nRnd)*2, func(i int) string {
			reps := []int{40, 41}[i%2]
			i /= 2
			var unit string
			if i < nExh {
				l, k := 1, i
				for k >= gen.Pow(len(alpha), l) {
					k -= gen.Pow(len(alpha), l)
					l++
				}
				for ; l > 0; l-- {
					unit += alpha[k%len(alpha)]
					k /= len(alpha)
				}
				return pres[i%len(pres)] + strings.Repeat(unit, reps) + posts[i%len(posts)]
			}
			r := gen.Rng(p.seed, "c01pump", i)
			for n := 4 + r.Intn(9); n > 0; n-- {
				unit += alpha[r.Intn(7)] // (the first seven: the ones that open and close something)
			}
			return pres[r.Intn(len(pres))] + strings.Repeat(unit, reps) + posts[r.Intn(len(posts))]
		})
	}
	// (vi'') flat chains: one cheap element repeated many times - stacked prefix operators, operator chains of either
	// associativity, accessor and filter chains, elseif chains, runs of prints / comments / tags. Whatever the parser
	// keeps per pending level (re-reads of the closing token, a look-ahead buffer, a counter) is exercised at depths
	// no nesting ladder reaches in the quick tier.
	{
		depths := []int{600, 1500}
		if p.thorough() {
			depths = append(depths, 5000, 9000) // (deeper recursion is outside the claim, like nesting beyond 10^4)
		}
		type ch struct{ pre, rep, post string }
		chains := []ch{
			{"{{ ", "not ", "a }}"}, {"{{ ", "-", "a }}"}, {"{{ ", "- ", "1 }}"}, {"{{ ", "+", "a }}"}, {"{% if ", "not ", "a %}x{% endif %}"}, {"{% if ", "-", "a %}x{% endif %}"},
			{"{{ a", " ** a", " }}"}, {"{{ a", " + a", " }}"}, {"{{ a", " ~ 'x'", " }}"}, {"{{ a", " and a", " }}"}, {"{{ a", " == a", " }}"}, {"{{ a", " is pos", " }}"}, {"{{ a", " in a", " }}"}, {"{{ a", "..a", " }}"},
			{"{{ a", ".b", " }}"}, {"{{ a", "[0]", " }}"}, {"{{ a", "|f", " }}"}, {"{{ a", "|f(1)", " }}"}, {"{{ a", ".m()", " }}"}, {"{{ ", "a ? b : ", "c }}"}, {"{{ ", "a ? ", "b" + " }}"},
			{"{{ [", "1, ", "1] }}"}, {"{{ {", "a: 1, ", "b: 2} }}"}, {"{{ f(", "1, ", "1) }}"}, {"{{ \"", "#{a}", "\" }}"}, {"{{ \"", "x#{a ~ 'y'}", "z\" }}"}, {"{{ '", "ab", "' }}"}, {"{{ ", "1", " }}"}, {"{{ ", "ab", " }}"},
			{"{% if a %}x", "{% elseif a %}y", "{% endif %}"}, {"", "{{ a }}", ""}, {"", "{# c #}", ""}, {"", "{% set v = 1 %}", ""}, {"", "{% if a %}x{% endif %}", ""}, {"", "{% block b %}x{% endblock %}{% do 1 %}", ""},
			{"{% set v = ", "not ", "a %}"}, {"{% for i in ", "-", "a %}x{% endfor %}"}, {"{% include ", "'a' ~ ", "'b' %}"}, {"{% macro m(", "p, ", "q) %}x{% endmacro %}"}, {"{% from 'l' import ", "a as b, ", "c %}"}, {"{% use 'l' with ", "a as b, ", "c as d %}"},
		}
		n := len(chains) * len(depths)
		p.add("chain", n, func(i int) string {
			c := chains[i/len(depths)]
			return c.pre + strings.Repeat(c.rep, depths[i%len(depths)]) + c.post
		})
		// ... and every length from 1 to 130 (whatever is done in runs of 8, 16, 32 or 64 elements has a remainder of
		// every size), with and without one more piece of text at the end
		small := append(append([]ch{}, chains...), ch{"{{ \"", "#{a}", "z\" }}"}, ch{"{{ \"z", "#{a}", "\" }}"}, ch{"{{ \"", "#{a}b", "\" }}"}, ch{"{{ \"", "#{a}#{'b'}", "c\" }}"}, ch{"{% set s = \"", "#{a}", " z\" %}"})
		p.add("chain", len(small)*130, func(i int) string {
			c := small[i/130]
			return c.pre + strings.Repeat(c.rep, 1+i%130) + c.post
		})
	}
	// (vi) nesting ladders
	{
		depths := []int{1, 2, 3, 5, 10, 50, 200}
		if p.thorough() {
			depths = append(depths, 500, 1000, 2000, 5000, 9000)
		}
		type lad struct{ open, mid, close string }
		lads := []lad{
			{"(", "1", ")"}, {"[", "1", "]"}, {"{'a':", "1", "}"}, {"f(", "1", ")"}, {"-", "1", ""}, {"not ", "a", ""},
			{"a[", "1", "]"}, {"(", "", ""}, {"[", "", ""}, {"", "1", ")"}, {"a ? ", "b", " : c"}, {"1 + ", "1", ""},
			{"\"#{", "a", "}\""}, {"\"#{", "", ""}, {"\"#{ '", "", ""}, {"\"x#{(", "", ""}, {"", "a", "}\""}, {"\"#{\"", "", ""}, {"\"#{", "", "\""},
			// conditionals nested in the condition position, also in the short form other Twig dialects have
			{"(", "a", " ? b : c)"}, {"(", "a", " ?: b)"}, {"(", "a", " ? b)"}, {"(a ?: ", "b", ")"},
		}
		tags := []lad{
			{"{% if a %}", "x", "{% endif %}"}, {"{% for i in a %}", "x", "{% endfor %}"}, {"{% block b %}", "x", "{% endblock %}"},
			{"{% filter f %}", "x", "{% endfilter %}"}, {"{% set s %}", "x", "{% endset %}"}, {"{% if a %}", "x", ""},
			{"{% if a %}x{% else %}", "y", "{% endif %}"}, {"{% embed 'e' %}{% block b %}", "x", "{% endblock %}{% endembed %}"},
			{"{%if a%}", "x", "{%endif%}"},
			// two blocks inside each other per level of embedding, and blocks inside each other alone
			{"{% embed 'e' %}{% block a %}{% block b %}", "x", "{% endblock %}{% endblock %}{% endembed %}"},
			{"{% embed 'e' %}{% block a %}y{% block b %}{% if c %}", "x", "{% endif %}{% endblock %}{% block c %}z{% endblock %}{% endblock %}{% endembed %}"},
			{"{% block a %}{% block b %}", "x", "{% endblock %}{% endblock %}"},
			{"{% macro m() %}{% embed 'e' %}{% block a %}{% filter f %}{% block b %}", "x", "{% endblock %}{% endfilter %}{% endblock %}{% endembed %}{% endmacro %}"},
		}
		n := (len(lads)*3 + len(tags)) * len(depths)
		p.add("ladder", n, func(i int) string {
			d := depths[i%len(depths)]
			j := i / len(depths)
			if j < len(lads)*3 {
				l := lads[j/3]
				body := strings.Repeat(l.open, d) + l.mid + strings.Repeat(l.close, d)
				switch j % 3 {
				case 0:
					return "{{ " + body + " }}"
				case 1:
					return "{% if " + body + " %}x{% endif %}"
				default:
					return "{% set v = " + body + " %}"
				}
			}
			l := tags[j-len(lads)*3]
			return strings.Repeat(l.open, d) + l.mid + strings.Repeat(l.close, d)
		})
	}
}

// c01Statements: every tag with its argument written as a literal, a name, a compound expression and an
// interpolated string; complete statements, and some that are cut off or malformed.
func c01Statements() []string {
	args := []string{"'a'", "layout", "c ? 'a' : 'b'", `"#{theme}/base"`, "['a', 'b']", "(x)", "{a: 1}", "a.b(1)", "a|f", "-1", ""}
	var out []string
	for _, a := range args {
		out = append(out, "{% extends "+a+" %}", "{% include "+a+" %}", "{% include "+a+" with "+a+" only %}", "{% embed "+a+" %}{% block b %}e{% endblock %}{% endembed %}",
			"{% use "+a+" %}", "{% use "+a+" with b as c %}", "{% import "+a+" as m %}", "{% from "+a+" import m as n %}", "{% set v = "+a+" %}", "{% do "+a+" %}", "{{ "+a+" }}",
			"{% if "+a+" %}i{% elseif "+a+" %}j{% else %}k{% endif %}", "{% for k, v in "+a+" if "+a+" %}f{% else %}g{% endfor %}")
	}
	out = append(out, "{% block b %}B{% endblock %}", "{% block b %}{{ parent() }}{% endblock b %}", "{% block c %}{% block b %}{% endblock %}{% endblock %}", "{% block b 'short' %}",
		"{% macro m(a, b) %}M{% endmacro %}", "{% macro m() %}{{ _self.m() }}{% endmacro m %}", "{% set v %}cap{% endset %}", "{% filter f|g(1) %}F{% endfilter %}",
		"{% verbatim %}{{ x {% endverbatim %}", "{# c #}", "{{ block('b') }}", "{{ _self.m(1) }}", "{{ m.n(1) }}", "text", "{% endblock %}", "{% endif %}", "{% else %}", "{% endembed %}",
		"{% extends", "{% block b %}", "{% embed 'a' %}", "{% macro m(", "{{ \"#{", "{% unknown %}")
	return out
}

func searchOffs(offs []int, i int) int {
	lo, hi := 0, len(offs)-1
	for lo < hi {
		mid := (lo + hi + 1) / 2
		if offs[mid] <= i {
			lo = mid
		} else {
			hi = mid - 1
		}
	}
	return lo
}

func (p *c01) N() int { return p.total }

// CPUBudget: the deepest ladders of the thorough tier (9000 embeds inside each other, 1.2 MB) take the Twig
// environment's parse some twelve CPU-seconds - its visitor looks at the template's name at every node, and
// through the string loader the name is the source: quadratic, not endless. A minute tells the two apart as well
// as ten seconds do (the exponential traversal repaired in cdaabf4 needed 2^200 steps for the same ladder).
func (p *c01) CPUBudget() float64 { return 60 }

// RaceSample: an extra -race worker re-runs every 211th (quick) / 4001st (thorough)
// input; the tokeniser goroutine and the parser share the lexer structure.
func (p *c01) RaceSample(tier string) int {
	if tier == "thorough" {
		return 4001
	}
	return 211
}

func (p *c01) locate(i int) (string, string) {
	for _, g := range p.groups {
		if i < g.n {
			return g.name, g.build(i)
		}
		i -= g.n
	}
	return "", ""
}

func (p *c01) Describe(i int) interface{} {
	g, s := p.locate(i)
	return map[string]interface{}{"group": g, "source": clip(s, 4000), "source_go": clip(fmt.Sprintf("%q", s), 6000), "len": len(s)}
}

var (
	c01core = stick.New(nil)
	c01twig = twig.New(nil)
)

func (p *c01) Run(i int) (res fw.Result) {
	g, src := p.locate(i)
	res.Evals = 3
	key := "src:" + fmt.Sprintf("%q", src)
	outcome := ""
	// entry 1: parse.Parse
	mon.BeginCall(len(src))
	t, err := parse.Parse(src)
	lx, ps, _ := mon.EndCall()
	res.AddObs("lex_steps", lx)
	res.AddObs("parse_steps", ps)
	res.AddObs("max:lex_steps_per_input", lx)
	res.AddObs("max:parse_steps_per_input", ps)
	if t == nil {
		res.Fail("nil-tree", key, "parse.Parse returned a nil tree", nil)
	}
	outcome = errKind(err)
	// entry 2: Env.Parse on the core environment (string loader: the name is the source)
	mon.BeginCall(len(src))
	t2, err2 := c01core.Parse(src)
	mon.EndCall()
	if t2 == nil && err2 == nil {
		res.Fail("nil-nil", key, "Env.Parse returned (nil, nil)", nil)
	}
	if (err == nil) != (err2 == nil) {
		res.Fail("entry-mismatch", key, fmt.Sprintf("parse.Parse and Env.Parse disagree on acceptance: %v vs %v", err, err2), nil)
	}
	// entry 3: Env.Parse on the Twig environment (runs the auto-escape visitor over the tree)
	mon.BeginCall(len(src))
	t3, err3 := c01twig.Parse(src)
	mon.EndCall()
	if t3 == nil && err3 == nil {
		res.Fail("nil-nil", key, "twig Env.Parse returned (nil, nil)", nil)
	}
	cls := "error"
	if err == nil {
		cls = "tree"
	} else if strings.Contains(outcome, "ERROR") {
		cls = "lexer-error"
	}
	res.AddClass(g + "/" + cls)
	if hasOpenDelim(src) {
		res.Sigs = append(res.Sigs, outcome+"|"+fragShape(src))
	}
	return
}

// fragShape abstracts an input to the sequence of its fragment classes, truncated,
// so that distinct counts measure distinct lexical shapes rather than distinct bytes.
func fragShape(s string) string {
	f := gen.Split(s)
	var b strings.Builder
	for i, x := range f {
		if i >= 12 {
			break
		}
		switch {
		case len(x) >= 2 && (x[0] == '{' || x[len(x)-1] == '}') || x == "#{":
			b.WriteString(x)
		case x[0] >= '0' && x[0] <= '9':
			b.WriteByte('1')
		case x[0] == ' ' || x[0] == '\n' || x[0] == '\t' || x[0] == '\r':
			b.WriteByte('_')
		case (x[0] >= 'a' && x[0] <= 'z') || (x[0] >= 'A' && x[0] <= 'Z'):
			if len(x) > 1 && strings.Contains(" if endif for endfor in is not and or block endblock set else elseif ", " "+x+" ") {
				b.WriteString(x)
			} else {
				b.WriteByte('w')
			}
		default:
			b.WriteString(x)
		}
		b.WriteByte(' ')
	}
	return b.String()
}

func (p *c01) Rule() string {
	return "inputs: every byte prefix of the seed corpus (repo tests/examples/testdata + hand-written, one per tag/operator); single-fragment deletion, duplication and insertion at every fragment boundary of every corpus template; bounded-exhaustive sequences over a 26-fragment hostile alphabet (length<=3 quick, <=5 thorough); seeded random byte / delimiter-alphabet / fragment strings; hostile bytes (NUL, 0xFF, truncated UTF-8, CR, CRLF, FF, VT, ESC, DEL, NEL, NBSP, BOM, ZWSP, U+2028/9) substituted at corpus positions; every byte value 0..255 substituted and inserted at every position of 8 short templates (one per tokeniser mode); every single-fragment mutant again inside 11 wrappers (embed body, embed block, macro, block, capture, verbatim, comment, interpolation, if/else, for, filter); unclosed alternations of every pair of 12 openers (quote, #{, brackets, delimiters ...) to depth 60 / 3000; nesting ladders (balanced, open-only and close-only, incl. strings nested in interpolations) to depth 200 (quick) / 9000 (thorough); flat chains of 600 and 1500 (thorough: up to 9000) repetitions of 41 cheap elements (prefix operators, operators of either associativity, accessors, filters, conditionals, list / hash / argument elements, interpolations, elseif, prints, comments, tags). Each input goes through parse.Parse, core Env.Parse and Twig Env.Parse (3 evaluations). Non-trivial = contains an opening delimiter; distinct = (error kind with numbers stripped, first 12 fragment classes)."
}

func (p *c01) Assumptions() []string {
	return []string{
		"hang verdicts come from exact step counters at verif hooks (budget 64*len+4096 tokeniser steps / token reads), the Go runtime deadlock detector and a per-case CPU budget; none depends on the wall clock",
		"bracket/tag nesting beyond depth 9000 is not exercised (the property excludes ~10^4)",
		"inputs longer than 64 KiB are not exercised",
	}
}

func (p *c01) Floors(tier string) map[string]int64 {
	return map[string]int64{"lex_steps": 1000, "parse_steps": 1000, "distinct_nontrivial": 200, "class:chain/tree": 10, "class:ladder/tree": 10, "class:stmt-seq/tree": 1000, "class:fragseq/tree": 100, "class:allbytes/tree": 100}
}
