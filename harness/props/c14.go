package props

import (
	"fmt"
	"github.com/tyler-sommer/stick"
	"math/rand"
	"sort"
	"strings"
	"verifharness/mon"

	"verifharness/fw"
	"verifharness/gen"
)

// C14 — formatting inside delimiters does not change meaning.
type c14 struct {
	base
	units  []c14unit
	offs   []int
	nEnum  int
	nRand  int
	corpus []string
}

func init() { fw.Register("C14", func() fw.Property { return &c14{} }) }

func (p *c14) ID() string       { return "C14" }
func (p *c14) Exhaustive() bool { return true }

var c14WS = []string{"", " ", "\t", "\n", "\r\n", "\r", "  \n\t"}

// vecPolicy spells with explicit whitespace choices per boundary index.
type vecPolicy struct {
	n     int
	vals  map[int]int // boundary index -> index into c14WS
	all   int         // default choice for other boundaries (1 = canonical blank handling when -1)
	quote byte
	comma bool
	trim  bool
	long  int // > 0: every boundary gets that many characters of white space
	canon gen.Canon
	// recording
	mayEmpty []bool
}

func (v *vecPolicy) WS(prev, next string, mayBeEmpty bool) string {
	i := v.n
	v.n++
	v.mayEmpty = append(v.mayEmpty, mayBeEmpty)
	choice, ok := v.vals[i]
	if !ok {
		choice = v.all
	}
	if v.long > 0 {
		// more white space than any window a tokeniser might look through
		b := []byte(strings.Repeat(" ", v.long))
		b[v.long/2] = " \t\n\r"[i%4]
		return string(b)
	}
	if choice < 0 {
		return v.canon.WS(prev, next, mayBeEmpty)
	}
	ws := c14WS[choice]
	if ws == "" && !mayBeEmpty {
		return " "
	}
	return ws
}
func (v *vecPolicy) Quote() byte {
	if v.quote == 0 {
		return '\''
	}
	return v.quote
}
func (v *vecPolicy) TrailingComma() bool { return v.comma }
func (v *vecPolicy) Trim() bool          { return v.trim }

type c14unit struct {
	name      string
	prog      func() *Program
	bounds    int
	nVariants int
	pairs     [][2]int
}

// placement wraps the nodes under test: at top level, or inside a body after a text run.
func c14place(nodes []gen.Node, placement int) []gen.Node {
	pre := tx("lead text ")
	switch placement {
	case 1:
		return []gen.Node{tx("A"), &gen.NFor{Val: "pl", Seq: &gen.EArr{Els: []gen.Expr{num(1)}}, Body: append([]gen.Node{pre}, nodes...)}, tx("Z")}
	case 2:
		return []gen.Node{tx("A"), &gen.NBlock{Name: "plb", Body: append([]gen.Node{pre}, nodes...)}, tx("Z")}
	case 3:
		return []gen.Node{tx("A"), &gen.NIf{Conds: []gen.Expr{&gen.EBool{V: true}}, Bodies: [][]gen.Node{append([]gen.Node{pre}, nodes...)}}, tx("Z")}
	case 4:
		return []gen.Node{tx("A"), &gen.NSetCap{Name: "plc", Body: append([]gen.Node{pre}, nodes...)}, pr(nm("plc")), tx("Z")}
	}
	return append([]gen.Node{pre}, append(nodes, tx(" trail"))...)
}

func c14Templates() map[string][]gen.Node {
	e := func(x gen.Expr) []gen.Node { return []gen.Node{tx("["), pr(x), tx("]")} }
	bin := func(op string, l, r gen.Expr) gen.Expr { return &gen.EBin{Op: op, L: l, R: r} }
	m := map[string][]gen.Node{
		"if-elseif-else":    {&gen.NIf{Conds: []gen.Expr{nm("f"), bin("==", nm("n"), num(3))}, Bodies: [][]gen.Node{{tx("one")}, {tx("two")}}, HasElse: true, Else: []gen.Node{tx("three")}}},
		"for-key-cond-else": {&gen.NFor{Key: "k", Val: "v", Seq: nm("arr"), Cond: bin(">", nm("v"), num(1)), Body: []gen.Node{pr(nm("k")), tx(":"), pr(nm("v")), tx(",")}, HasElse: true, Else: []gen.Node{tx("none")}}},
		"for-range":         {&gen.NFor{Val: "v", Seq: bin("..", num(1), num(3)), Body: []gen.Node{pr(nm("v"))}}},
		"set":               {&gen.NSet{Name: "sv", X: bin("+", nm("n"), num(2))}, pr(nm("sv"))},
		"set-capture":       {&gen.NSetCap{Name: "sc", Body: []gen.Node{tx("cap "), pr(nm("s"))}}, pr(nm("sc"))},
		"filter-section":    {&gen.NFilter{Filters: []string{"b1", "up", "b2"}, Body: []gen.Node{tx("body "), pr(nm("s"))}}},
		"block":             {&gen.NBlock{Name: "blk", Body: []gen.Node{tx("in block")}}},
		"macro-and-call": {&gen.NMacro{Name: "mc", Params: []string{"p", "q", "r"}, Body: []gen.Node{pr(nm("p")), tx("/"), pr(nm("q"))}},
			pr(&gen.EMethod{X: nm("_self"), Name: "mc", Args: []gen.Expr{num(1), str("two")}})},
		// elements found by number, one after the other: every dot is a token of its own however close the digits stand
		"numbered-elements": {tx("["), pr(&gen.EAttr{X: &gen.EAttr{X: nm("grid"), Key: num(1), Dot: true}, Key: num(0), Dot: true}), tx(","),
			pr(&gen.EAttr{X: &gen.EAttr{X: &gen.EAttr{X: nm("cube"), Key: num(0), Dot: true}, Key: num(1), Dot: true}, Key: num(1), Dot: true}), tx(","),
			pr(&gen.EBin{Op: "+", L: &gen.EAttr{X: &gen.EAttr{X: nm("grid"), Key: num(0), Dot: true}, Key: num(1), Dot: true}, R: &gen.ENum{Text: "1.5"}}), tx(","),
			pr(&gen.EBin{Op: "..", L: &gen.EAttr{X: &gen.EAttr{X: nm("grid"), Key: num(0), Dot: true}, Key: num(0), Dot: true}, R: num(3)}), tx("]")},
		"import":  {&gen.NImport{Tpl: str("lib"), Alias: "L"}, pr(&gen.EMethod{X: nm("L"), Name: "lm", Args: []gen.Expr{nm("s")}})},
		"from":    {&gen.NFrom{Tpl: str("lib"), Names: [][2]string{{"lm", "renamed"}, {"lm2", "lm2"}}}, pr(&gen.ECall{Fn: "renamed", Args: []gen.Expr{num(5)}}), pr(&gen.ECall{Fn: "lm2"})},
		"include": {&gen.NInclude{Tpl: str("part"), With: &gen.EHash{Keys: []gen.Expr{nm("w")}, Vals: []gen.Expr{num(1)}}, Only: true}, &gen.NInclude{Tpl: bin("~", str("pa"), str("rt"))}, &gen.NInclude{Tpl: str("part"), Only: true}},
		"embed":   {&gen.NEmbed{Tpl: str("lay"), With: &gen.EHash{Keys: []gen.Expr{nm("w")}, Vals: []gen.Expr{str("x")}}, Only: true, Blocks: []*gen.NBlock{{Name: "eb", Body: []gen.Node{tx("over")}}}}},
		// hashes that end where the tag or the print ends, and hashes in hashes: a closing brace closes the open
		// hash before it can be part of a delimiter
		"hash-at-the-end": {&gen.NSet{Name: "hv", X: &gen.EHash{Keys: []gen.Expr{nm("o")}, Vals: []gen.Expr{&gen.EHash{Keys: []gen.Expr{str("i")}, Vals: []gen.Expr{num(5)}}}}},
			pr(&gen.EAttr{X: &gen.EAttr{X: nm("hv"), Key: str("o"), Dot: true}, Key: str("i"), Dot: true}),
			&gen.NInclude{Tpl: str("part"), With: &gen.EHash{Keys: []gen.Expr{nm("w")}, Vals: []gen.Expr{&gen.EHash{Keys: []gen.Expr{nm("x")}, Vals: []gen.Expr{num(1)}}}}},
			tx("("), pr(&gen.EHash{Keys: []gen.Expr{nm("a")}, Vals: []gen.Expr{num(1)}}), tx(")"),
			pr(&gen.EInterp{Parts: []gen.Expr{&gen.EStr{S: "i "}, &gen.EAttr{X: &gen.EGroup{X: &gen.EHash{Keys: []gen.Expr{nm("k")}, Vals: []gen.Expr{&gen.EHash{Keys: []gen.Expr{nm("j")}, Vals: []gen.Expr{num(7)}}}}}, Key: str("k"), Dot: true}}})},
		// ... also when the hashes stand inside other brackets, and when the inner hash holds an interpolated string
		"hash-in-brackets": {&gen.NSet{Name: "rows", X: &gen.EArr{Els: []gen.Expr{&gen.EHash{Keys: []gen.Expr{nm("a")}, Vals: []gen.Expr{&gen.EHash{Keys: []gen.Expr{nm("b")}, Vals: []gen.Expr{num(1)}}}}}}},
			pr(&gen.EAttr{X: &gen.EAttr{X: &gen.EAttr{X: nm("rows"), Key: num(0)}, Key: str("a"), Dot: true}, Key: str("b"), Dot: true}),
			pr(&gen.ECall{Fn: "fn", Args: []gen.Expr{&gen.EHash{Keys: []gen.Expr{nm("k")}, Vals: []gen.Expr{&gen.EHash{Keys: []gen.Expr{nm("b")}, Vals: []gen.Expr{num(2)}}}}}}),
			pr(&gen.EFilter{X: nm("s"), Name: "wrap", Args: []gen.Expr{&gen.EHash{Keys: []gen.Expr{nm("k")}, Vals: []gen.Expr{&gen.EHash{Keys: []gen.Expr{nm("b")}, Vals: []gen.Expr{num(3)}}}}}}),
			pr(&gen.EAttr{X: &gen.EAttr{X: &gen.EGroup{X: &gen.EHash{Keys: []gen.Expr{nm("a")}, Vals: []gen.Expr{&gen.EHash{Keys: []gen.Expr{nm("b")}, Vals: []gen.Expr{num(4)}}}}}, Key: str("a"), Dot: true}, Key: str("b"), Dot: true}),
		},
		"hash-with-interpolation": {&gen.NSet{Name: "hi", X: &gen.EHash{Keys: []gen.Expr{nm("a")}, Vals: []gen.Expr{&gen.EHash{Keys: []gen.Expr{nm("b")}, Vals: []gen.Expr{&gen.EInterp{Parts: []gen.Expr{&gen.EStr{S: "v"}, nm("s")}}}}}}},
			pr(&gen.EAttr{X: &gen.EAttr{X: nm("hi"), Key: str("a"), Dot: true}, Key: str("b"), Dot: true}),
			pr(&gen.EAttr{X: &gen.EGroup{X: &gen.EHash{Keys: []gen.Expr{nm("a")}, Vals: []gen.Expr{&gen.EInterp{Parts: []gen.Expr{nm("s")}}}}}, Key: str("a"), Dot: true})},
		"do":              {&gen.NDo{X: &gen.ECall{Fn: "fn", Args: []gen.Expr{num(1)}}}},
		"verbatim":        {&gen.NVerbatim{S: "{{ raw }}{% if x %}y{% endif %}{{ 'unclosed"}},
		"arithmetic":      e(bin("-", bin("+", num(1), bin("*", num(2), num(3))), bin("/", num(8), num(4)))),
		"power-floor-mod": e(bin("+", bin("**", num(2), num(3)), bin("%", bin("//", num(7), num(2)), num(2)))),
		"concat-compare":  e(bin("==", bin("~", nm("s"), str("x")), str("abcx"))),
		"logic-words":     e(bin("or", bin("and", nm("t"), &gen.EUn{Op: "not", X: nm("f")}), nm("f"))),
		// names that begin with an operator word, next to word operators
		"operator-like-names": e(bin("or", bin("and", &gen.EUn{Op: "not", X: nm("index")}, bin("in", nm("inx"), nm("order"))), bin("or", &gen.ETest{X: nm("isle"), Not: true, Test: "pos"}, bin("starts with", nm("nota"), nm("andy"))))),
		"not-paren":           e(&gen.EUn{Op: "not", X: &gen.EGroup{X: nm("f")}}),
		"in-array":            e(bin("in", nm("n"), &gen.EArr{Els: []gen.Expr{num(1), num(3)}})),
		"not-in-range":        e(bin("not in", num(5), &gen.EGroup{X: bin("..", num(1), num(3))})),
		"starts-ends-matches": e(bin("and", bin("starts with", nm("s"), str("a")), bin("or", bin("ends with", nm("s"), str("c")), bin("matches", nm("s"), str("^a"))))),
		"bitwise":             e(bin("b-or", bin("b-and", num(6), num(3)), bin("b-xor", num(1), num(8)))),
		// a sign directly in front of a literal is still an operator: what follows the literal belongs to the literal
		"sign-then-filter": {tx("["), pr(&gen.EFilter{X: &gen.EUn{Op: "-", X: num(5)}, Name: "wrap"}), tx("]["), pr(bin("+", num(2), &gen.EFilter{X: &gen.EUn{Op: "-", X: num(3)}, Name: "inc", Args: []gen.Expr{num(4)}})), tx("]["),
			pr(&gen.ETest{X: &gen.EUn{Op: "-", X: num(4)}, Test: "pos"}), tx("]["), pr(&gen.EFilter{X: &gen.EUn{Op: "+", X: &gen.ENum{Text: "2.5"}}, Name: "wrap", Args: []gen.Expr{&gen.EUn{Op: "-", X: num(1)}}}), tx("]["),
			pr(&gen.EFilter{X: &gen.EUn{Op: "not", X: num(0)}, Name: "wrap"}), tx("]")},
		"unary-minus":           e(bin("+", &gen.EUn{Op: "-", X: nm("n")}, &gen.EUn{Op: "+", X: num(2)})),
		"ternary-nested":        e(&gen.ETern{C: nm("f"), A: str("a"), B: &gen.ETern{C: nm("t"), A: str("b"), B: str("c")}}),
		"test-args":             e(&gen.ETest{X: num(9), Test: "divisible by", Args: []gen.Expr{num(3)}}),
		"test-not":              e(&gen.ETest{X: nm("n"), Not: true, Test: "pos"}),
		"attr-chain":            e(&gen.EAttr{X: &gen.EAttr{X: nm("h"), Key: str("k"), Dot: true}, Key: num(0), Dot: false}),
		"attr-bracket-string":   e(&gen.EAttr{X: nm("h"), Key: str("k"), Dot: false}),
		"filter-chain":          e(&gen.EFilter{X: &gen.EFilter{X: nm("s"), Name: "up"}, Name: "wrap", Args: []gen.Expr{num(1), str("a")}}),
		"func-args":             e(&gen.ECall{Fn: "fn", Args: []gen.Expr{num(1), &gen.ECall{Fn: "fn"}, &gen.EArr{Els: []gen.Expr{num(2)}}}}),
		"array-nested":          e(&gen.EAttr{X: &gen.EArr{Els: []gen.Expr{&gen.EArr{Els: []gen.Expr{num(1), num(2)}}, &gen.EArr{}}}, Key: num(0)}),
		"hash-keys":             e(&gen.EAttr{X: &gen.EGroup{X: &gen.EHash{Keys: []gen.Expr{nm("bare"), str("quoted"), &gen.EGroup{X: nm("s")}}, Vals: []gen.Expr{num(1), num(2), num(3)}}}, Key: str("quoted"), Dot: true}),
		"empty-lists":           e(bin("~", &gen.EFilter{X: &gen.EArr{}, Name: "wrap"}, &gen.ECall{Fn: "fn"})),
		"interpolation-strings": e(&gen.EInterp{Parts: []gen.Expr{&gen.EStr{S: "a "}, bin("~", &gen.EStr{S: "in"}, nm("s")), &gen.EStr{S: " b "}, &gen.EAttr{X: &gen.EGroup{X: &gen.EHash{Keys: []gen.Expr{&gen.EStr{S: "k"}}, Vals: []gen.Expr{&gen.EStr{S: "v"}}}}, Key: &gen.EStr{S: "k"}}}}),
		"interpolation":         e(&gen.EInterp{Parts: []gen.Expr{&gen.EStr{S: "a "}, bin("+", nm("n"), num(1)), &gen.EStr{S: " b "}, nm("s")}}),
		"group":                 e(bin("*", &gen.EGroup{X: bin("+", num(1), num(2))}, num(3))),
		"strings":               e(bin("~", str("it"), bin("~", str("say \"hi\""), str("plain")))),
		// b-and, b-or and b-xor are operators; b - andx, b - orx and b - xory are differences, however they are laid out
		"minus-before-operator-like-names": {tx("["), pr(bin("-", nm("b"), nm("orx"))), tx("]["), pr(bin("-", nm("b"), nm("andx"))), tx("]["), pr(bin("-", nm("b"), nm("xory"))), tx("]["),
			pr(bin("+", bin("-", nm("b"), nm("order2")), bin("b-or", nm("b"), nm("orx")))), tx("]["), pr(bin("-", nm("nb"), nm("andx"))), tx("]")},
		// text that begins with closing braces right behind an interpolation: "p{color:#{v}}" - the first brace ends the
		// interpolation, the second is text, however much white space stands inside the interpolation
		"interpolation-before-braces": {tx("["), pr(&gen.EInterp{Parts: []gen.Expr{&gen.EStr{S: "p{color:"}, nm("s"), &gen.EStr{S: "}"}}}), tx("]["), pr(&gen.EInterp{Parts: []gen.Expr{nm("n"), &gen.EStr{S: "}}"}, nm("s"), &gen.EStr{S: "}}}"}}}), tx("]["),
			pr(&gen.EAttr{X: &gen.EGroup{X: &gen.EHash{Keys: []gen.Expr{nm("a")}, Vals: []gen.Expr{&gen.EInterp{Parts: []gen.Expr{nm("s"), &gen.EStr{S: "}"}}}}}}, Key: str("a"), Dot: true}), tx("]["),
			pr(&gen.EInterp{Parts: []gen.Expr{&gen.EStr{S: "%"}, bin("+", nm("n"), num(1)), &gen.EStr{S: "%}"}}}), tx("]")},
		// a backslash is a character like any other in either kind of quotes: there are no escape sequences
		"backslash-strings": {tx("["), pr(bin("~", str("C:\\temp\\new"), bin("~", str("a\\nb"), bin("~", str("\\"), bin("~", str("\\\\"), str("t\\r\\x41\\u0041\\0")))))), tx("]["), pr(str("x\\")), tx("]["),
			pr(&gen.EInterp{Parts: []gen.Expr{&gen.EStr{S: "i\\t"}, nm("n"), &gen.EStr{S: "\\n"}}}), tx("]")},
		// a '#' that opens no interpolation is a character like any other, whichever quotes surround it
		"hash-sign-strings": {tx("["), pr(bin("~", str("/issues#"), bin("~", str("#"), bin("~", str("a#b"), str("##"))))), pr(nm("n")), tx("]["), pr(str("#")), tx("\" t=\""), pr(str("x#")), tx("\"]["),
			pr(&gen.EInterp{Parts: []gen.Expr{&gen.EStr{S: "x#"}, nm("n"), &gen.EStr{S: "#"}}}), tx("]")},
		"method-call":  e(&gen.EMethod{X: nm("obj"), Name: "Concat", Args: []gen.Expr{str("a"), str("b")}}),
		"number-forms": e(bin("+", &gen.ENum{Text: "1.5"}, &gen.EAttr{X: nm("arr"), Key: num(0)})),
		"is-then-op":   e(bin("and", &gen.ETest{X: nm("n"), Test: "pos"}, nm("t"))),
	}
	return m
}

func c14Aux() map[string]*gen.Template {
	return map[string]*gen.Template{
		"lib":  tpl("lib", &gen.NMacro{Name: "lm", Params: []string{"a"}, Body: []gen.Node{tx("lm:"), pr(nm("a"))}}, &gen.NMacro{Name: "lm2", Body: []gen.Node{tx("lm2")}}),
		"part": tpl("part", tx("part("), pr(nm("w")), pr(nm("s")), tx(")")),
		"lay":  tpl("lay", tx("lay["), &gen.NBlock{Name: "eb", Body: []gen.Node{tx("orig")}}, pr(nm("w")), tx("]")),
		"base": tpl("base", tx("base<"), &gen.NBlock{Name: "bb", Body: []gen.Node{tx("bb0")}}, &gen.NBlock{Name: "used", Body: []gen.Node{tx("used0")}}, tx(">")),
		"ublk": tpl("ublk", &gen.NBlock{Name: "u1", Body: []gen.Node{tx("u1body")}}, &gen.NBlock{Name: "u2", Body: []gen.Node{tx("u2body")}}),
	}
}

func c14Ctx() map[string]interface{} {
	return map[string]interface{}{"n": 3, "s": "abc", "t": true, "f": false, "arr": []int{1, 2, 3}, "h": map[string]interface{}{"k": []int{7}}, "obj": gen.NewThing(), "w": "W", "grid": [][]int{{1, 2}, {3, 4}}, "cube": [][][]int{{{1, 2}, {3, 4}}},
		"index": false, "inx": 2, "order": []int{1, 2}, "isle": 0, "nota": "andx", "andy": "and", "b": 9, "nb": 20, "orx": 2, "andx": 3, "xory": 1, "order2": 4}
}

func (p *c14) Init(tier string, seed int64) {
	p.tier, p.seed = tier, seed
	poisonEvery = 0
	ts := c14Templates()
	names := make([]string, 0, len(ts))
	for n := range ts {
		names = append(names, n)
	}
	sort.Strings(names)
	add := func(name string, mk func() *Program) {
		u := c14unit{name: name, prog: mk}
		// dry run to count boundaries
		rec := &vecPolicy{all: -1}
		for _, t := range mk().Templates {
			gen.Source(t, rec)
		}
		_ = rec
		// boundaries of the main template only are varied
		rec = &vecPolicy{all: -1}
		gen.Source(mk().Templates["main"], rec)
		u.bounds = rec.n
		B := u.bounds
		for a := 0; a < B; a++ {
			for b := a + 1; b < B; b++ {
				if p.thorough() || b-a <= 2 || (a+b)%5 == 0 {
					u.pairs = append(u.pairs, [2]int{a, b})
				}
			}
		}
		nw := len(c14WS)
		u.nVariants = B*nw + len(u.pairs)*nw*nw + nw + 9
		p.units = append(p.units, u)
		p.offs = append(p.offs, p.nEnum)
		p.nEnum += u.nVariants
	}
	for _, n := range names {
		for pl := 0; pl < 5; pl++ {
			n, pl := n, pl
			add(fmt.Sprintf("%s@%d", n, pl), func() *Program {
				aux := c14Aux()
				aux["main"] = tpl("main", c14place(c14Templates()[n], pl)...)
				return &Program{Templates: aux, Main: "main", Ctx: c14Ctx()}
			})
		}
	}
	// extends / use live at the top of a template
	add("extends-use", func() *Program {
		aux := c14Aux()
		aux["main"] = tpl("main", &gen.NExtends{Tpl: &gen.EBin{Op: "~", L: str("ba"), R: str("se")}}, &gen.NUse{Tpl: str("ublk"), Aliases: [][2]string{{"u1", "used"}, {"u2", "other"}}},
			&gen.NBlock{Name: "bb", Body: []gen.Node{tx("child "), pr(&gen.EParent{}), pr(&gen.EBlockFn{Name: str("other")})}})
		return &Program{Templates: aux, Main: "main", Ctx: c14Ctx()}
	})
	p.nRand = p.pick(8000, 400000)
	p.corpus = gen.Corpus()
}

func (p *c14) N() int { return p.nEnum + p.nRand + len(c14LongTargets)*c14LongOffsets*2 + len(c14Raw) }

// c14Raw: token sequences the template generator cannot write - punctuation marks next to each other, accepted
// leniently or refused. Each is spelled with one blank between any two tokens, with none wherever two tokens cannot
// merge (punctuation and brackets never merge with anything), with line breaks, and mixed: every spelling parses or
// none does, and those that parse render the same.
var c14Raw = [][]string{
	{"{%", "macro", "m", "(", "a", ",", ",", "b", ")", "%}", "x", "{%", "endmacro", "%}", "{{", "_self", ".", "m", "(", "1", ",", "2", ")", "}}"},
	{"{%", "from", "'lib'", "import", "lm", ",", ",", "lm2", "%}", "{{", "lm", "(", "1", ")", "}}"},
	{"{{", "[", "1", ",", ",", "2", "]", "|", "b1", "}}"},
	{"{{", "{", "k", ":", "1", ",", ",", "j", ":", "2", "}", ".", "k", "}}"},
	{"{{", "t", "?", ":", "2", "}}"},
	{"{{", "t", "?", "1", ":", ":", "2", "}}"},
	{"{{", "fn", "(", "1", ",", ",", "2", ")", "}}"},
	{"{{", "arr", "|", "|", "b1", "}}"},
	{"{{", "fn", "(", "1", ",", ")", "}}"},
	{"{%", "set", "q", "=", ",", "1", "%}", "{{", "q", "}}"},
	{"{{", "t", "?", "[", "1", ",", "]", ":", "{", "k", ":", "1", ",", "}", "}}"},
	{"{{", "arr", "[", "1", ":", "]", "|", "b1", "}}"},
	{"{{", "h", ".", "k", "|", "b1", "(", ")", ".", "0", "}}"},
}

// ... and brackets nested deeper than anybody writes by hand (whatever the tokeniser keeps per open bracket may be
// bounded at a round number): d brackets of one kind, or of all three in turn, open inside a hash in a hash whose
// closing braces stand next to each other, next to the closing delimiter, or apart.
func init() {
	for _, d := range []int{3, 15, 16, 17, 31, 32, 33, 62, 63, 64, 65, 66, 100, 127, 128, 129, 200, 255, 256, 257, 600} {
		for kind := 0; kind < 4; kind++ {
			var open, close []string
			for x := 0; x < d; x++ {
				switch []int{0, 1, 2, x % 3}[kind] {
				case 0:
					open, close = append(open, "("), append([]string{")"}, close...)
				case 1:
					open, close = append(open, "["), append([]string{"]"}, close...)
				default:
					open, close = append(open, "{", "k", ":"), append([]string{"}"}, close...)
				}
			}
			inner := append(append(append([]string{}, open...), "7"), close...)
			c14Raw = append(c14Raw,
				append(append([]string{"{{", "{", "a", ":", "{", "b", ":"}, inner...), "}", "}", ".", "a", ".", "b", "}}"),
				append(append([]string{"{{", "{", "a", ":"}, inner...), "}", "}}"),
				append(append([]string{"{%", "set", "q", "=", "{", "a", ":", "{", "b", ":"}, inner...), "}", "}", "%}", "{{", "q", ".", "a", ".", "b", "}}"))
		}
	}
}

func (p *c14) runRaw(res *fw.Result, j int) {
	toks := c14Raw[j]
	word := func(s string) bool {
		c := s[len(s)-1]
		return c == '_' || c == '\'' || c >= '0' && c <= '9' || c >= 'a' && c <= 'z' || c >= 'A' && c <= 'Z'
	}
	spell := func(kind int) string {
		var b strings.Builder
		in := false
		for k, t := range toks {
			if k > 0 {
				prev := toks[k-1]
				switch prev {
				case "{{", "{%":
					in = true
				case "}}", "%}":
					in = false
				}
				if !in {
					b.WriteString(" " + t) // (outside the delimiters white space is text)
					continue
				}
				tight := !(word(prev) && word(t[:1])) && !strings.ContainsAny(prev, "{}%") && !strings.ContainsAny(t, "{}%")
				if prev == "}" && (t == "}" || t == "}}" || t == "." || t == "]" || t == ")") || t == "}" && (prev == "]" || prev == ")" || word(prev)) {
					tight = true // (a closing brace merges with nothing either: }} inside a hash closes two hashes)
				}
				switch {
				case kind == 1 && tight, kind == 3 && tight && k%2 == 0:
				case kind == 2:
					b.WriteString("\n")
				case kind == 3:
					b.WriteString("\t \r\n")
				default:
					b.WriteString(" ")
				}
			}
			b.WriteString(t)
		}
		return b.String()
	}
	aux := c14Aux()
	type out struct {
		src, out, kind string
	}
	var outs []out
	for kind := 0; kind < 4; kind++ {
		prog := &Program{Templates: map[string]*gen.Template{}, Main: "main", Ctx: c14Ctx()}
		for n, t := range aux {
			prog.Templates[n] = t
		}
		src := spell(kind)
		srcs := prog.sources(gen.Canon{})
		srcs["main"] = src
		env, _ := mon.NewCoreEnv(srcs)
		vals := map[string]stick.Value{}
		for k, v := range c14Ctx() {
			vals[k] = v
		}
		o, err, pan, _ := execNoPanic(env, "main", vals, 0)
		res.Evals++
		k := "rendered"
		switch {
		case pan != nil:
			k = "panic"
		case isParseErr(err):
			k = "parse-error"
		case err != nil:
			k = "runtime-error"
		}
		outs = append(outs, out{src, o, k})
	}
	res.AddClass("raw-token-sequence/" + outs[0].kind)
	res.UniqueNT = 1
	for _, o := range outs[1:] {
		if o.kind != outs[0].kind || o.kind == "rendered" && o.out != outs[0].out || o.kind == "panic" {
			res.Fail("meaning-changed", fmt.Sprintf("c14:raw:%d", j), fmt.Sprintf("%q: %s %q, but %q: %s %q", outs[0].src, outs[0].kind, clip(outs[0].out, 100), o.src, o.kind, clip(o.out, 100)), map[string]interface{}{"spellings": []string{outs[0].src, o.src}})
			return
		}
	}
}

// Long templates. Whatever the parser or the tokeniser keep per token (a history, a look-ahead buffer) may be bounded
// or compacted at some round number of tokens; the amount of white space decides which token of the template is
// the one that crosses it. For every target T and every offset c the c-th token of a tail full of nested tags is
// made token number T, once in the tight and once in the wide spelling of the same template.
var c14LongTargets = []int{128, 256, 512, 1024, 2048, 4096, 6144, 8192, 16384}

const c14LongOffsets = 40

func c14LongCase(j int) (src, want, desc string) {
	wide := j%2 == 1
	j /= 2
	c := j % c14LongOffsets
	T := c14LongTargets[j/c14LongOffsets]
	item, per := "{{a}}", 3
	tail := "{%for i in s%}{%if t%}({{i}}){%else%}-{%endif%}{%set q%}{{i}}{%endset%}{%filter up%}{{q}}{%endfilter%}{%endfor%}{%block b%}B{%if t%}{{a}}{%endif%}{%endblock%}{%if f%}n{%elseif t%}{%for k,v in s%}{{k}}{%endfor%}{%endif%}"
	if wide {
		item, per = "{{ a }}", 5
		tail = "{% for i in s %}{% if t %}({{ i }}){% else %}-{% endif %}{% set q %}{{ i }}{% endset %}{% filter up %}{{ q }}{% endfilter %}{% endfor %}{% block b %}B{% if t %}{{ a }}{% endif %}{% endblock %}{% if f %}n{% elseif t %}{% for k, v in s %}{{ k }}{% endfor %}{% endif %}"
	}
	n, r := (T-c)/per, (T-c)%per
	var b, w strings.Builder
	for k := 0; k < n; k++ {
		b.WriteString(item)
		w.WriteString("A")
		if k < r {
			b.WriteString(".") // a text token: shifts everything behind it by one
			w.WriteString(".")
		}
	}
	b.WriteString(tail)
	w.WriteString("(1)1(2)2BA01")
	return b.String(), w.String(), fmt.Sprintf("long/T=%d/c=%d/wide=%v", T, c, wide)
}

// variant decodes variant index j of unit u into a policy.
func (u *c14unit) variant(j int) (*vecPolicy, string) {
	nw := len(c14WS)
	B := u.bounds
	switch {
	case j < B*nw:
		return &vecPolicy{all: -1, vals: map[int]int{j / nw: j % nw}}, fmt.Sprintf("single b%d=%q", j/nw, c14WS[j%nw])
	case j < B*nw+len(u.pairs)*nw*nw:
		j -= B * nw
		pr := u.pairs[j/(nw*nw)]
		k := j % (nw * nw)
		return &vecPolicy{all: -1, vals: map[int]int{pr[0]: k / nw, pr[1]: k % nw}}, fmt.Sprintf("pair b%d=%q b%d=%q", pr[0], c14WS[k/nw], pr[1], c14WS[k%nw])
	case j < B*nw+len(u.pairs)*nw*nw+nw:
		j -= B*nw + len(u.pairs)*nw*nw
		return &vecPolicy{all: j}, fmt.Sprintf("uniform %q", c14WS[j])
	}
	j -= B*nw + len(u.pairs)*nw*nw + nw
	switch j {
	case 0:
		return &vecPolicy{all: -1, quote: '"'}, "double quotes"
	case 1:
		return &vecPolicy{all: -1, comma: true}, "trailing commas"
	case 2:
		return &vecPolicy{all: -1, trim: true}, "trim markers"
	case 3:
		return &vecPolicy{all: 0, quote: '"', comma: true, trim: true}, "tight + double quotes + trailing commas + trim markers"
	case 4:
		return &vecPolicy{all: 3, comma: true}, "newlines + trailing commas"
	}
	switch j {
	case 6:
		return &vecPolicy{all: -1, long: 1100}, "1100 characters of white space at every boundary"
	case 7:
		return &vecPolicy{all: -1, long: 4200, quote: '"'}, "4200 characters of white space at every boundary + double quotes"
	case 8:
		return &vecPolicy{all: -1, long: 66000}, "66000 characters of white space at every boundary"
	}
	return &vecPolicy{all: 4, quote: '"'}, "CRLF + double quotes"
}

type randPolicy struct {
	r     *rand.Rand
	quote byte
	comma bool
	trim  bool
}

func (v *randPolicy) WS(prev, next string, mayBeEmpty bool) string {
	ws := c14WS[v.r.Intn(len(c14WS))]
	if ws == "" && !mayBeEmpty {
		return " "
	}
	return ws
}
func (v *randPolicy) Quote() byte         { return v.quote }
func (v *randPolicy) TrailingComma() bool { return v.comma }
func (v *randPolicy) Trim() bool          { return v.trim }

func (p *c14) randProgram(i int) *Program {
	g := &gen.ProgGen{R: gen.Rng(p.seed, "c14", i/8), Hostile: i%3 == 0, Vars: c02vars, IterVars: c02IterVars, SingleEntryHashes: true,
		Filters: []string{"wrap", "inc", "up", "ident", "b1"}, Funcs: []string{"fn", "num", "truth", "pair", "ident"}, Tests: []string{"pos", "eq", "divisible by", "empty"}}
	ts, _ := g.Program()
	ctx := map[string]interface{}{}
	for k, v := range detContext() {
		ctx[k] = v
	}
	return &Program{Templates: ts, Main: "main", Ctx: ctx}
}

func (p *c14) Describe(i int) interface{} {
	if i >= p.nEnum+p.nRand+len(c14LongTargets)*c14LongOffsets*2 {
		return map[string]interface{}{"kind": "raw token sequence", "tokens": c14Raw[i-(p.nEnum+p.nRand+len(c14LongTargets)*c14LongOffsets*2)]}
	}
	if i >= p.nEnum+p.nRand {
		src, _, desc := c14LongCase(i - p.nEnum - p.nRand)
		return map[string]interface{}{"kind": desc, "bytes": len(src)}
	}
	if i < p.nEnum {
		ui := searchOffs(p.offs, i)
		u := p.units[ui]
		pol, desc := u.variant(i - p.offs[ui])
		prog := u.prog()
		src, _ := gen.Source(prog.Templates["main"], pol)
		can, _ := gen.Source(prog.Templates["main"], gen.Canon{})
		return map[string]interface{}{"unit": u.name, "variant": desc, "respelled_main": src, "canonical_main": can}
	}
	prog := p.randProgram(i)
	r := gen.Rng(p.seed, "c14pol", i)
	pol := &randPolicy{r: r, quote: []byte{'\'', '"'}[r.Intn(2)], comma: r.Intn(2) == 0, trim: r.Intn(2) == 0}
	return map[string]interface{}{"kind": "random program, random re-spelling", "respelled": prog.sources(pol), "canonical": prog.sources(gen.Canon{})}
}

func (p *c14) compare(res *fw.Result, key string, prog *Program, pol gen.Policy, desc string) {
	a := runLib(prog, gen.Canon{}, false)
	b := runLib(prog, pol, false)
	if a.out != b.out || errKind(a.err) != errKind(b.err) {
		// second line of defence against Go map iteration order: a program whose
		// canonical spelling does not reproduce itself decides nothing
		if a2 := runLib(prog, gen.Canon{}, false); a2.out != a.out || errKind(a2.err) != errKind(a.err) || callsString(a2.calls) != callsString(a.calls) {
			res.AddClass("nondeterministic-program-skipped")
			return
		}
	}
	res.Evals++
	res.AddObs("exec_steps", b.exSteps)
	if a.pan != nil || b.pan != nil {
		if (a.pan == nil) != (b.pan == nil) {
			res.Fail("panic-differs", key, fmt.Sprintf("canonical panic: %v, re-spelled panic: %v", a.pan, b.pan), map[string]interface{}{"canonical": prog.sources(gen.Canon{}), "respelled": prog.sources(pol)})
		}
		return
	}
	ka, kb := errKind(a.err), errKind(b.err)
	if isParseErr(a.err) && isParseErr(b.err) {
		ka, kb = "parse", "parse"
	}
	if a.out != b.out || ka != kb || callsString(a.calls) != callsString(b.calls) {
		res.Fail("meaning-changed", key, fmt.Sprintf("%s: canonical spelling renders %q (error %v), re-spelling renders %q (error %v)", desc, clip(a.out, 300), a.err, clip(b.out, 300), b.err),
			map[string]interface{}{"canonical": prog.sources(gen.Canon{}), "respelled": prog.sources(pol), "variant": desc})
	}
	if a.err == nil {
		res.AddClass("rendered")
	} else if isParseErr(a.err) {
		res.AddClass("canonical-parse-error")
	} else {
		res.AddClass("runtime-error")
	}
}

func isParseErr(err error) bool {
	return err != nil && (strings.HasPrefix(err.Error(), "parse") || strings.Contains(err.Error(), "Expected name or function"))
}

func (p *c14) Run(i int) (res fw.Result) {
	if i >= p.nEnum+p.nRand+len(c14LongTargets)*c14LongOffsets*2 {
		p.runRaw(&res, i-(p.nEnum+p.nRand+len(c14LongTargets)*c14LongOffsets*2))
		return
	}
	if i >= p.nEnum+p.nRand {
		src, want, desc := c14LongCase(i - p.nEnum - p.nRand)
		env, _ := mon.NewCoreEnv(map[string]string{"main": src})
		out, err, pan, steps := execNoPanic(env, "main", map[string]stick.Value{"a": "A", "s": []int{1, 2}, "t": true, "f": false}, 0)
		res.Evals++
		res.UniqueNT = 1
		res.AddObs("exec_steps", steps)
		res.AddClass("long-template")
		if pan != nil || err != nil || out != want {
			res.Fail("meaning-changed", "c14:"+desc, fmt.Sprintf("%s (%d bytes): renders %q (error %v, panic %v), want %q", desc, len(src), clip(out, 120), err, pan, clip(want, 120)), map[string]interface{}{"source_head": clip(src, 200), "source_tail": src[len(src)-200:]})
		}
		return
	}
	if i < p.nEnum {
		ui := searchOffs(p.offs, i)
		u := p.units[ui]
		j := i - p.offs[ui]
		pol, desc := u.variant(j)
		p.compare(&res, fmt.Sprintf("c14:%s:%s", u.name, desc), u.prog(), pol, desc)
		res.AddObs("boundaries_varied", int64(len(pol.vals)))
		if !strings.HasSuffix(u.name, "@0") {
			res.UniqueNT = 1
		}
		return
	}
	prog := p.randProgram(i)
	r := gen.Rng(p.seed, "c14pol", i)
	pol := &randPolicy{r: r, quote: []byte{'\'', '"'}[r.Intn(2)], comma: r.Intn(2) == 0, trim: r.Intn(2) == 0}
	p.compare(&res, fmt.Sprintf("c14:rand:%d:%d", p.seed, i), prog, pol, "random re-spelling")
	res.Sigs = append(res.Sigs, fmt.Sprintf("%d", i))
	return
}

func (p *c14) Rule() string {
	return p.ruleBase() + " " + "Round 12: 252 more raw token sequences - 3..600 brackets of one kind or of all three in turn open inside a hash in a hash (as a print, directly before the closing delimiter, in a set tag), spelled with one blank everywhere, with none where tokens cannot merge (closing braces next to each other and next to the closing delimiter), with line breaks and mixed."
}

func (p *c14) ruleBase() string {
	return "long templates: for T in {128 .. 16384} and c in 0..39 the c-th token of a tail of nested tags is made token number T (a run of prints in front, text tokens as shifters), in a spelling without and one with blanks inside the delimiters - the output is known in advance; " + fmt.Sprintf("one template per tag kind and expression form (%d forms: if/elseif/else, for with key/cond/else, set, set-capture, filter section, block, macro+call, import, from with alias, include with/only/expression name, embed with/only/override, do, verbatim, extends+use with aliases, and 27 expression forms covering every operator family incl. the alphabetic ones, unary, nested conditional, tests with arguments, attribute/bracket access, filter chains, calls, nested arrays, hashes with bare/quoted/computed keys, empty lists, interpolation (also with string literals inside the interpolated expressions), groups, strings needing either quote), each placed at top level and inside a for, block, if and set-capture body after a text run (the push-back path). For each: exhaustive single-boundary sweep (every token boundary x 7 whitespace strings: none-where-tokens-cannot-merge, blank, TAB, LF, CRLF, CR, mixed run), pairwise sweep (7x7 values on boundary pairs: all pairs thorough, adjacent and sampled pairs quick), uniform spellings, and the quote / trailing-comma / trim-marker / combined variants; plus seeded random programs from the generator x random re-spellings. Oracle (metamorphic): the re-spelling renders the same bytes, the same error kind and the same callback log as the canonical spelling. Non-trivial = placement inside a nested body; enumerated variants are distinct by construction.", len(c14Templates())+1)
}

func (p *c14) Assumptions() []string {
	return []string{"tokens are the generator's tokens: numbers with a fraction are single tokens; the words of a multi-word operator (not in, is not, starts with, ends with) are separate tokens, with a boundary between them like between any two words",
		"whitespace may be empty only where gen.CanAbut says the two tokens cannot merge (not both word-like, not both symbols, not forming a delimiter or trim marker)",
		"'-' markers are only added to delimiters without adjacent whitespace"}
}

func (p *c14) Floors(tier string) map[string]int64 {
	return map[string]int64{"exec_steps": 100000, "distinct_nontrivial": 5000, "class:long-template": 100}
}
