package props

import (
	"fmt"
	"regexp"
	"strings"
	"sync"
	"unicode"
	"unicode/utf8"

	"github.com/tyler-sommer/stick/twig/escape"

	"verifharness/fw"
	"verifharness/gen"
	"verifharness/model"
)

// C13 — the escapers emit only inert characters and lose no information.
type c13 struct {
	base
	nBlocks, nPairs, nRand int
	nAlias, aliasStep      int
	alpha                  []string
	bounds                 []int // the powers of two long values are aligned to
}

func init() { fw.Register("C13", func() fw.Property { return &c13{} }) }

func (p *c13) ID() string       { return "C13" }
func (p *c13) Exhaustive() bool { return true }

// CPUBudget: a round of 16 concurrent callers burns CPU on 16 threads at once.
func (p *c13) CPUBudget() float64 { return 90 }

type escaper struct {
	name   string
	fn     func(string) string
	inert  *regexp.Regexp
	decode func(string) (string, bool)
}

var escapers = []escaper{
	{"html", escape.HTML, regexp.MustCompile(`^([^<>"'&]|&(amp|lt|gt|quot|#39);)*$`), func(s string) (string, bool) { return model.DecodeHTML(s), true }},
	{"html_attr", escape.HTMLAttribute, regexp.MustCompile(`^([A-Za-z0-9,.\-_]|&(amp|lt|gt|quot);|&#[0-9]{1,7};|&#[xX][0-9A-Fa-f]{1,6};)*$`), func(s string) (string, bool) { return model.DecodeHTML(s), true }},
	{"js", escape.JS, regexp.MustCompile(`^([A-Za-z0-9,._]|\\u[0-9A-Fa-f]{4}|\\x[0-9A-Fa-f]{2}|\\u\{[0-9A-Fa-f]{1,6}\})*$`), model.DecodeJS},
	{"css", escape.CSS, regexp.MustCompile(`^([A-Za-z0-9]|\\[0-9A-Fa-f]{1,6}[ \t\n\f]?)*$`), model.DecodeCSS},
	{"url", escape.URLQueryParam, regexp.MustCompile(`^([A-Za-z0-9\-._~]|%[0-9A-Fa-f]{2})*$`), model.DecodeURL},
}

const c13Block = 2048

func (p *c13) Init(tier string, seed int64) {
	p.tier, p.seed = tier, seed
	p.nBlocks = (0x110000 + c13Block - 1) / c13Block
	p.alpha = []string{
		"0", "1", "9", "a", "b", "c", "d", "e", "f", "A", "F", "g", "z", "G", "Z", " ", "\t", "\n", "\r", "\f",
		"\\", "&", "#", ";", "%", "u", "x", "X", "{", "}", "'", "\"", "<", ">", "/", "-", "_", ".", ",", "~", "+", "=",
		"\x00", "\x7f", "\u0080", "\u009f", " ", "ÿ", "Ā", "߿", "ࠀ", "퟿", "", "�", "￾", "￿",
		"\U00010000", "\U0001F600", "\U0010FFFF", " ", " ",
		// multi-character tokens: things that look like the escapers' own output
		"&amp;", "&lt;", "&gt;", "&quot;", "&#39;", "&#x27;", "&#60;", "&LT;", "&amp", "&nbsp;", "\\u0041", "\\x41", "\\41 ", "\\000041", "%41", "%u0041", "%2541", "\\\\", "\\\"", "\\n",
		"\xff", "\xc3", "\xe2\x82",
		// ... and beginnings an escaper might be tempted to recognise
		"http://", "https://", "//", "javascript:", "data:", "mailto:", "&#", "&#x", "\\u", "\\x", "\\0", "%%25", "?a=b&c=d", "<!--", "]]>",
	}
	p.bounds = []int{64, 128, 256, 512, 1024, 2048, 4096, 8192, 32768, 65536}
	if p.thorough() {
		p.bounds = append(p.bounds, 16384, 1<<17)
	}
	p.nPairs = len(p.alpha)
	p.nRand = p.pick(20000, 400000)
	p.aliasStep = p.pick(3, 1)
	p.nAlias = 0x10000 / c13Block
}

func (p *c13) N() int {
	return p.nBlocks + 1 + p.nPairs + p.nAlias + p.nRand + 15*len(p.bounds) + c13Conc + 1
}

// c13LongChars stand at every offset around a power of two in a long value: where an implementation that works
// through a buffer or in chunks starts a new one, each of these has its longest escape sequence cut in two.
var c13LongChars = []string{"\U0001F600", "\U0010FFFF", "<", "\n", "é", "\u2028", "&", "%", "\\", "\xff", "\"", "'", "\x00", "+", " "}

// c13Whole: strings that mean something as a whole - numbers in every spelling, keywords, addresses. An escaper
// substitutes characters; what the characters add up to is none of its business.
var c13Whole = []string{"0", "-1", "+1", "1.5", ".5", "5.", "1e5", "1e+5", "2E+10", "1E-3", "0x1p+4", "0x1F", "1_000", "1,000.50", "Inf", "+Inf", "NaN", "1e+", "e+5", "12+34", "1+1=2",
	"true", "false", "null", "nil", "undefined", "http://a.b/c?d=e&f=g#h", "https://h", "//h/p", "mailto:a@b.c", "a@b.c", "javascript:alert(1)", "data:text/html,<b>", "2021-03-04T05:06:07+01:00", "+49 30 123",
	// tokens of other languages and of terminals: sequences of several characters that mean something somewhere - to
	// an escaper they are characters
	"\x1b[31mred\x1b[0m", "\x1b[1;32m", "\x1b]0;title\x07", "\x1b[2J", "\x9b31m", "<!-- c -->", "<![CDATA[x]]>", "<?php echo 1 ?>", "{{ x }}", "${x}", "#{x}", "%s %d %%", "&nbsp;", "+ADw-script+AD4-", "a\ufeffb", "vbscript:x", "data:,x",
	"expression(1)", "url(x)", "@import 'a'", "</script>", "]]>", "-->", "--!>", "*/ x /*", "// c", "a\u2028b", "\\x3c", "\\74", "&#x3C;", "&lt;", "%3C", "\r\n", "\u200d\u200d", "e\u0301\u0301",
	"{\"a\": [1, 2]}", "[1, 2]", "<!DOCTYPE html>", "<?xml version=\"1.0\"?>", "&copy;", "&#169;", "&#xA9;", "\\u00e9", "%C3%A9", "a+b", "a b", "a%20b", "100%", "%", "%%", "%zz", "\\", "\\\\n"}

// ... and strings made of one character over and over: whatever an escaper sizes ahead of time, it sizes it for the
// character that grows most (nine NULs need 72 bytes as an html attribute)
func init() {
	for _, c := range []string{"\x00", "\x01", "\x1f", "\x7f", "\"", "&", "<", "'", "\\", "/", " ", "\n", "\u0080", "\u07ff", "\u0800", "\uffff", "\U00010000", "\U0010ffff", "\xff", "%", "+", "a"} {
		for _, n := range []int{9, 11, 17, 65, 130} {
			c13Whole = append(c13Whole, strings.Repeat(c, n), strings.Repeat(c, n)+"z")
		}
	}
}

// ... and texts in other encodings, as the bytes they are (UTF-16 and UTF-32 in both byte orders, with and without a
// byte order mark, Latin-1): an escaper is handed bytes, it does not guess what they were meant to be
func init() {
	for _, t := range []string{"<b>!", "<a href='x'>&", "ab", "a", "<>", "x&y<z>\"q\"", "1234567"} {
		var le, be, le32 string
		for _, c := range []byte(t) {
			le += string([]byte{c, 0})
			be += string([]byte{0, c})
			le32 += string([]byte{c, 0, 0, 0})
		}
		c13Whole = append(c13Whole, le, be, "\xff\xfe"+le, "\xfe\xff"+be, le32, "\xff\xfe\x00\x00"+le32, le+"z", "z"+le, "\xe9"+t+"\xfc\xdf")
	}
}

// c13Conc rounds of concurrent callers: an escaper is a function of its input, whoever else is calling it (or
// another escaper) at the same moment.
const c13Conc = 6

func (p *c13) runConcurrent(res *fw.Result, round int) {
	r := gen.Rng(p.seed, "c13conc", round)
	var inputs []string
	for k := 0; k < 48; k++ {
		inputs = append(inputs, p.randString(r.Intn(p.nRand)))
	}
	inputs = append(inputs, "<a href='x'>&\"</a>", "\u2028\U0001F600\x00\n", strings.Repeat("<é&>", 300), "", "plain")
	want := make([][]string, len(inputs))
	for i, in := range inputs {
		for e := range escapers {
			want[i] = append(want[i], escapers[e].fn(in))
		}
	}
	const G = 16
	bad := make([]string, G)
	var wg sync.WaitGroup
	for g := 0; g < G; g++ {
		wg.Add(1)
		go func(g int) {
			defer wg.Done()
			for it := 0; it < 150 && bad[g] == ""; it++ {
				for k := range inputs {
					i := (k*7 + g*5 + it) % len(inputs)
					e := (k + g + it) % len(escapers)
					if got := escapers[e].fn(inputs[i]); got != want[i][e] {
						bad[g] = fmt.Sprintf("%s(%q) = %q while %d other callers were at work; alone it gives %q", escapers[e].name, clip(inputs[i], 60), clip(got, 120), G-1, clip(want[i][e], 120))
						break
					}
				}
			}
		}(g)
	}
	wg.Wait()
	res.Evals += G * 150 * len(inputs)
	res.AddObs("concurrent_escapes", int64(G*150*len(inputs)))
	res.AddClass("concurrent-callers")
	res.UniqueNT = 1
	for _, b := range bad {
		if b != "" {
			res.Fail("concurrent", fmt.Sprintf("c13:conc:%d", round), b, nil)
			break
		}
	}
}

func (p *c13) runLong(res *fw.Result, j int) {
	b := p.bounds[j/15]
	for k := b - 12 + j%15; k <= b-12+j%15; k++ { // one offset per case: long strings take their time
		for ci, ch := range c13LongChars {
			for variant := 0; variant < 2; variant++ {
				pre := strings.Repeat("a", k)
				if variant == 1 { // the same offsets reached through output that is longer than its input
					pre = strings.Repeat("<\"", 3) + strings.Repeat("a", k-6)
				}
				s := pre + ch + "7z" + c13LongChars[(ci+1)%len(c13LongChars)] + "0"
				for e := range escapers {
					p.checkString(res, &escapers[e], s, len(pre))
					res.Evals++
				}
			}
		}
	}
	res.AddClass("long-value")
	res.UniqueNT = 1
}

// aliases returns code points that share low bits with c (what a table, cache or
// narrowing conversion keyed on part of the code point would confuse with it).
func aliases(c rune) []rune {
	out := []rune{c + 0x10000, c + 0x100000, c & 0xFF, c >> 8, c ^ 0x80}
	var ok []rune
	for _, d := range out {
		if d > 0 && d <= 0x10FFFF && !(d >= 0xD800 && d < 0xE000) && d != c {
			ok = append(ok, d)
		}
	}
	return ok
}

func (p *c13) Describe(i int) interface{} {
	switch {
	case i < p.nBlocks:
		return map[string]interface{}{"kind": "codepoints", "from": fmt.Sprintf("U+%04X", i*c13Block), "to": fmt.Sprintf("U+%04X", i*c13Block+c13Block-1), "escapers": 5}
	case i == p.nBlocks:
		return map[string]interface{}{"kind": "invalid-bytes", "from": "0x80", "to": "0xFF"}
	case i < p.nBlocks+1+p.nPairs:
		return map[string]interface{}{"kind": "pairs", "first": fmt.Sprintf("%q", p.alpha[i-p.nBlocks-1]), "second": "every symbol of the boundary alphabet", "alphabet_size": len(p.alpha)}
	case i < p.nBlocks+1+p.nPairs+p.nAlias:
		b := (i - p.nBlocks - 1 - p.nPairs) * c13Block
		return map[string]interface{}{"kind": "aliasing-pairs", "from": fmt.Sprintf("U+%04X", b), "to": fmt.Sprintf("U+%04X", b+c13Block-1), "partners": "c+0x10000, c+0x100000, c&0xFF, c>>8, c^0x80; both orders, adjacent and separated"}
	case i == p.nBlocks+1+p.nPairs+p.nAlias+p.nRand+15*len(p.bounds)+c13Conc:
		return map[string]interface{}{"kind": "whole-strings", "strings": len(c13Whole)}
	case i >= p.nBlocks+1+p.nPairs+p.nAlias+p.nRand+15*len(p.bounds):
		return map[string]interface{}{"kind": "concurrent-callers", "goroutines": 16, "round": i - (p.nBlocks + 1 + p.nPairs + p.nAlias + p.nRand + 15*len(p.bounds))}
	case i >= p.nBlocks+1+p.nPairs+p.nAlias+p.nRand:
		return map[string]interface{}{"kind": "long-values", "aligned_to": p.bounds[(i-(p.nBlocks+1+p.nPairs+p.nAlias+p.nRand))/15], "offset": (i-(p.nBlocks+1+p.nPairs+p.nAlias+p.nRand))%15 - 12}
	default:
		s := p.randString(i - p.nBlocks - 1 - p.nPairs - p.nAlias)
		return map[string]interface{}{"kind": "random", "string": fmt.Sprintf("%q", s)}
	}
}

func (p *c13) randString(i int) string {
	r := gen.Rng(p.seed, "c13", i)
	l := 1 + r.Intn(200)
	if i%4 == 0 {
		l = 1 + r.Intn(12)
	}
	var b strings.Builder
	for k := 0; k < l; k++ {
		switch r.Intn(10) {
		case 0, 1, 2, 3, 4, 5:
			b.WriteString(p.alpha[r.Intn(len(p.alpha)-3)]) // valid symbols only
		case 6:
			b.WriteRune(rune(r.Intn(0x80)))
		case 7:
			c := rune(r.Intn(0x110000))
			if c >= 0xD800 && c < 0xE000 {
				c = 0x41
			}
			b.WriteRune(c)
		case 8:
			b.WriteRune(rune(0x80 + r.Intn(0x800)))
		default:
			b.WriteString("0123456789abcdefABCDEF"[r.Intn(22):][:1])
		}
	}
	return b.String()
}

// expectedDecoded is what the standard decoder must give back for s: s itself,
// except that for html_attr control characters stand for whatever the escaper
// deliberately replaces them with when escaped alone.
func expectedDecoded(e *escaper, s string) string {
	if e.name == "css" {
		// CSS has no representation of U+0000 at all: CSS Syntax 3 turns a zero
		// escape (and a raw NUL) into U+FFFD, so no escaper can round-trip it.
		return strings.ReplaceAll(s, "\x00", "\uFFFD")
	}
	if e.name != "html_attr" {
		return s
	}
	var b strings.Builder
	for _, c := range s {
		if unicode.IsControl(c) {
			d, _ := e.decode(e.fn(string(c)))
			b.WriteString(d)
		} else {
			b.WriteRune(c)
		}
	}
	return b.String()
}

// checkString applies the three oracles to one string. It returns the number of
// evaluations and appends violations to res.
func (p *c13) checkString(res *fw.Result, e *escaper, s string, split int) {
	out := e.fn(s)
	in := fmt.Sprintf("%s(%q)", e.name, s)
	if !utf8.ValidString(out) {
		res.Fail("inert", "c13:"+in, fmt.Sprintf("%s = %q is not valid UTF-8", in, out), nil)
		return
	}
	if !e.inert.MatchString(out) {
		res.Fail("inert", "c13:"+in, fmt.Sprintf("%s = %q contains a character outside the escaper's inert set / escape syntax", in, out), nil)
		return
	}
	if !utf8.ValidString(s) {
		return
	}
	if out != s {
		res.UniqueNT++
	}
	// per-character substitution
	if split > 0 && split < len(s) && utf8.RuneStart(s[split]) {
		if a, b := e.fn(s[:split]), e.fn(s[split:]); a+b != out {
			res.Fail("homomorphism", "c13:"+in, fmt.Sprintf("%s = %q but escaping the two halves gives %q + %q", in, out, a, b), nil)
			return
		}
	}
	dec, ok := e.decode(out)
	want := expectedDecoded(e, s)
	if ok && dec == want {
		return
	}
	// classify a css round-trip failure: is it exactly the known terminator defect?
	if e.name == "css" && p.cssKnownShape(e, s, out) {
		res.Viols = append(res.Viols, fw.Violation{Class: "roundtrip", Key: "css:escape-followed-by-hex-digit",
			Msg: fmt.Sprintf("%s = %q; a CSS parser decodes that to %q", in, out, dec)})
		return
	}
	res.Fail("roundtrip", "c13:"+in, fmt.Sprintf("%s = %q; the standard decoder gives %q (ok=%v), want %q", in, out, dec, ok, want), nil)
}

// cssKnownShape re-verifies, for one failing input, the predicate that identifies
// the recorded finding: the output is the concatenation of the per-character
// escapes, every character escaped alone round-trips, and some hex escape is
// directly followed by a hex digit (so that a CSS parser reads the digit as part
// of the escape). Any other css failure is not covered by the finding.
func (p *c13) cssKnownShape(e *escaper, s, out string) bool {
	var pieces []string
	for _, c := range s {
		pc := e.fn(string(c))
		d, ok := e.decode(pc)
		if !ok || d != expectedDecoded(e, string(c)) {
			return false
		}
		pieces = append(pieces, pc)
	}
	if strings.Join(pieces, "") != out {
		return false
	}
	for i := 0; i+1 < len(pieces); i++ {
		if strings.HasPrefix(pieces[i], "\\") && len(pieces[i+1]) > 0 && isHexByte(pieces[i+1][0]) {
			return true
		}
	}
	return false
}

func isHexByte(c byte) bool {
	return c >= '0' && c <= '9' || c >= 'a' && c <= 'f' || c >= 'A' && c <= 'F'
}

func (p *c13) Run(i int) (res fw.Result) {
	switch {
	case i < p.nBlocks:
		for c := rune(i * c13Block); c < rune(i*c13Block+c13Block) && c <= 0x10FFFF; c++ {
			if c >= 0xD800 && c < 0xE000 {
				continue
			}
			s := string(c)
			for k := range escapers {
				p.checkString(&res, &escapers[k], s, 0)
				res.Evals++
			}
		}
		res.AddClass("codepoint-block")
	case i == p.nBlocks:
		for b := 0x80; b <= 0xFF; b++ {
			for k := range escapers {
				p.checkString(&res, &escapers[k], string([]byte{byte(b)}), 0)
				res.Evals++
			}
		}
		res.AddClass("invalid-bytes")
	case i < p.nBlocks+1+p.nPairs:
		a := p.alpha[i-p.nBlocks-1]
		for _, b := range p.alpha {
			for k := range escapers {
				p.checkString(&res, &escapers[k], a+b, len(a))
				res.Evals++
			}
		}
		res.AddClass("pair-row")
	case i < p.nBlocks+1+p.nPairs+p.nAlias:
		b := rune((i - p.nBlocks - 1 - p.nPairs) * c13Block)
		for c := b + rune(int(p.seed)%p.aliasStep); c < b+c13Block; c += rune(p.aliasStep) {
			if c < 0x80 || (c >= 0xD800 && c < 0xE000) {
				continue
			}
			for _, d := range aliases(c) {
				for _, str := range []string{string(c) + string(d), string(d) + string(c), string(c) + " then " + string(d), string(d) + "z" + string(c)} {
					for k := range escapers {
						p.checkString(&res, &escapers[k], str, 0)
						res.Evals++
					}
				}
			}
		}
		res.AddClass("aliasing-block")
	case i == p.nBlocks+1+p.nPairs+p.nAlias+p.nRand+15*len(p.bounds)+c13Conc:
		for _, w := range c13Whole {
			for split := 0; split <= len(w); split++ {
				if split < len(w) && !utf8.RuneStart(w[split]) {
					continue
				}
				for k := range escapers {
					p.checkString(&res, &escapers[k], w, split)
					res.Evals++
				}
			}
		}
		res.AddClass("whole-strings")
		res.UniqueNT = 1
	case i >= p.nBlocks+1+p.nPairs+p.nAlias+p.nRand+15*len(p.bounds):
		p.runConcurrent(&res, i-(p.nBlocks+1+p.nPairs+p.nAlias+p.nRand+15*len(p.bounds)))
	case i >= p.nBlocks+1+p.nPairs+p.nAlias+p.nRand:
		p.runLong(&res, i-(p.nBlocks+1+p.nPairs+p.nAlias+p.nRand))
	default:
		s := p.randString(i - p.nBlocks - 1 - p.nPairs - p.nAlias)
		split := 0
		if len(s) > 1 {
			split = 1 + (i*7919)%(len(s)-1)
			for split < len(s) && !utf8.RuneStart(s[split]) {
				split++
			}
		}
		for k := range escapers {
			p.checkString(&res, &escapers[k], s, split)
			res.Evals++
			// the output of one escaper is input like any other for all of them
			if i%4 == 1 {
				out := escapers[k].fn(s)
				for k2 := range escapers {
					p.checkString(&res, &escapers[k2], out, 0)
					res.Evals++
				}
			}
		}
		res.UniqueNT = 0
		res.Sigs = append(res.Sigs, s)
		res.AddClass("random")
	}
	return
}

func (p *c13) Rule() string {
	return "exhaustive: every Unicode scalar value U+0000..U+10FFFF and every byte 0x80..0xFF as a one-character string, and every ordered pair over an 84-symbol boundary alphabet (20 multi-character tokens that look like escaper output: &amp; &lt; &#39; &#x27; \\u0041 \\x41 %41 ...; hex digits, non-hex letters, white space, backslash, & # ; % u x, quotes, NUL, DEL, C1 controls, plane boundaries, U+2028/9, invalid bytes), each through all 5 escapers; for every BMP code point >= U+0080 (quick: every third) the strings pairing it, in both orders, adjacent and separated, with the code points that share its low bits (c+0x10000, c+0x100000, c&0xFF, c>>8, c^0x80); long values (a run of letters, also behind a few characters that expand, up to every offset within 12 bytes of 2^6..2^13, 2^15 and 2^16 (thorough also 2^14, 2^17), then an astral character / a character with a long escape, digits and another such character) against buffer and chunk boundaries; plus seeded random strings (length<=200) over that alphabet and random Unicode, a quarter of them also fed back in after escaping (5x5 escaper cross product). 53 strings that mean something as a whole (numbers in every spelling, keywords, URLs, dates, JSON, entity-like and escape-like text), split at every position; plus 6 rounds of 16 concurrent callers (each call must return what it returns alone). Oracles: output matches the escaper's inert grammar; the standard decoder of the target context (HTML5 character references, ECMAScript string escapes with surrogate pairing, CSS Syntax 3 escapes, RFC 3986 percent-decoding) gives the input back for valid UTF-8 (html_attr: control characters stand for their deliberate replacement); escape(a+b)=escape(a)+escape(b). Non-trivial = the escaper changed the input; enumerated cases are distinct by construction, random strings are deduplicated by content."
}

func (p *c13) Assumptions() []string {
	return []string{
		"decoders are the harness's implementations of the published decoding algorithms (Go's html.UnescapeString for HTML), not inverses of the code under test",
		"css is required to use hex escapes only; js may use \\uXXXX, \\xHH or \\u{...}",
		"css: U+0000 is exempt from the round trip (CSS Syntax 3 maps a zero escape and a raw NUL to U+FFFD, so no encoding of it exists); it must still come out inert",
	}
}

func (p *c13) Floors(tier string) map[string]int64 {
	return map[string]int64{"evaluations": 5_000_000, "distinct_nontrivial": 1_000_000,
		"class:whole-strings": 1, "class:long-value": 100, "class:concurrent-callers": 6, "class:pair-row": 1, "class:aliasing-block": 1, "class:invalid-bytes": 1}
}
