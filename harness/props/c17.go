package props

import (
	"bytes"
	"fmt"
	"io"
	"math"
	"strings"

	"github.com/tyler-sommer/stick"

	"verifharness/fw"
	"verifharness/gen"
	"verifharness/model"
	"verifharness/mon"
)

// C17 — failures are reported, never swallowed, and safe execution is all-or-nothing.
type c17 struct {
	base
	hand  []string
	nProg int
}

func init() { fw.Register("C17", func() fw.Property { return &c17{} }) }

func (p *c17) ID() string       { return "C17" }
func (p *c17) Level() string    { return "fault_enumeration" }
func (p *c17) Exhaustive() bool { return true }

var c17Hand = []string{
	"a{% filter up %}b{% endfilter %}c",
	"a{% filter up %}b{% endfilter %}",
	"{% filter up %}{% filter b1 %}x{{ s }}{% endfilter %}y{% endfilter %}z",
	"t1{{ s }}t2{{ n }}t3",
	"{% for i in 1..3 %}[{{ i }}]{% endfor %}end",
	"{% for i in 1..2 %}{% filter b1 %}{{ i }}{% endfilter %}{% endfor %}",
	"a{% include 'part' %}b{% include 'part' %}c",
	"a{% embed 'lay' %}{% block eb %}over{{ s }}{% endblock %}{% endembed %}b",
	"{% set c %}cap{{ s }}{% endset %}x{{ c }}y{{ c }}z",
	"{% macro m(a) %}m[{{ a }}]{% endmacro %}x{{ _self.m(1) }}y{{ _self.m(2) }}z",
	"{% block b %}blk{{ s }}{% endblock %}after{{ block('b') }}end",
	"{% if t %}yes{{ s }}{% else %}no{% endif %}tail",
	"{% import 'lib' as L %}p{{ L.lm(s) }}q",
	"{% from 'lib' import lm %}p{{ lm(s) }}q",
	"text only",
	"{{ s }}",
	"{% verbatim %}{{ raw }}{% endverbatim %}x{# c #}y",
	"{% for i in arr %}{% include 'part' with {'w': i} only %}{% endfor %}",
	"{% for i in [] %}x{% else %}empty{{ s }}{% endfor %}",
	"{% do fn(1) %}a{% set q = fn(2) %}b{{ q }}",
	// what an extending template does outside its blocks: every load of these is a fault point like any other,
	// whether or not what was loaded is used afterwards
	"{% extends 'base' %}{% from 'lib' import lm %}{% block bb %}x{% endblock %}",
	"{% extends 'base' %}{% import 'lib' as L %}{% block bb %}y{{ s }}{% endblock %}",
	"{% extends 'base' %}{% use 'lay' %}{% block bb %}z{% endblock %}",
	"{% extends 'base' %}{% set q = s ~ 'x' %}{% from 'lib' import lm as a %}{% block bb %}{{ q }}{{ a(1) }}{% endblock %}",
	"{% extends 'child' %}{% import 'lib' as L %}{% from 'lib' import lm %}{% block cc %}{{ L.lm(1) }}{% endblock %}",
	// templates that cannot succeed: a statement outside the blocks of an extending template fails
	"MUSTFAIL{% extends 'base' %}{% from 'lib' import nosuch %}{% block bb %}x{% endblock %}",
	"MUSTFAIL{% extends 'base' %}{% from 'nolib' import lm %}{% block bb %}x{% endblock %}",
	"MUSTFAIL{% extends 'base' %}{% import 'nolib' as L %}{% block bb %}x{% endblock %}",
	"MUSTFAIL{% extends 'base' %}{% use 'nolib' %}{% block bb %}x{% endblock %}",
	"MUSTFAIL{% extends 'base' %}{% set q = nofunc() %}{% block bb %}x{% endblock %}",
	"MUSTFAIL{% extends 'base' %}{% from 1 % 0 import lm %}{% block bb %}x{% endblock %}",
	"MUSTFAIL{% extends 'base' %}{% set q %}{{ 1 % 0 }}{% endset %}{% block bb %}x{% endblock %}",
	"MUSTFAIL{% extends 'base' %}{% use 'lay' with nosuch as b %}{% block bb %}x{% endblock %}",
	"MUSTFAIL{% extends 'nobase' %}{% block bb %}x{% endblock %}",
	// the expression that names a template fails: nothing is loaded in its place (a template called "" exists)
	"MUSTFAIL{% from 1 % 0 import lm %}x{{ lm(1) }}", "MUSTFAIL{% import nofunc() as L %}x", "MUSTFAIL{% use 1 % 0 %}x", "MUSTFAIL{% use nofunc() with eb as q %}x{{ block('q') }}", "MUSTFAIL{% include 1 % 0 %}x", "MUSTFAIL{% embed nofunc() %}{% endembed %}x",
	"MUSTFAIL{% extends 1 % 0 %}{% block bb %}x{% endblock %}", "MUSTFAIL{% include [1 % 0] %}x", "MUSTFAIL{% include 'lib' with 1 % 0 %}x", "MUSTFAIL{% from (1 matches '(') import lm %}x", "MUSTFAIL{{ block(1 % 0) }}",
	// a block that is not there cannot be imported, whatever it is to be called - also under its own name
	"MUSTFAIL{% use 'lay' with nosuch as nosuch %}x", "MUSTFAIL{% use 'lay' with eb as eb, nosuch as nosuch %}x{{ block('eb') }}", "MUSTFAIL{% extends 'base' %}{% use 'lay' with nosuch as nosuch %}{% block bb %}x{% endblock %}", "MUSTFAIL{% use 'lay' with nosuch as eb %}x",
	// what fails inside a template that is there is a failure, however leniently the template was asked for (forms
	// of other Twig dialects included: if they are not understood that is an error as well)
	"MUSTFAIL{% include 'broken-inside' %}", "MUSTFAIL{% include 'broken-inside' ignore missing %}", "MUSTFAIL{% include 'broken-inside' ignore missing with {'a': 1} only %}", "MUSTFAIL{% embed 'broken-inside' ignore missing %}{% endembed %}",
	"MUSTFAIL{% include 'nolib' ignore missing %}{{ nofunc() }}", "MUSTFAIL{{ include('broken-inside') }}", "MUSTFAIL{{ include('nolib', ignore_missing = true) }}{{ nofunc() }}",
	"MUSTFAIL{% include 'broken-extends' ignore missing %}", "MUSTFAIL{% include 'broken-import' ignore missing %}",
	"MUSTFAIL{% from 'lib' import nosuch %}never called",
	"MUSTFAIL{% import 'nolib' as L %}never used",
	"MUSTFAIL{% for i in 1..3 %}{{ i }}{% include 'nolib' %}{% endfor %}",
	// what cannot be searched cannot be searched, whether the question is "in" or "not in"
	"MUSTFAIL{{ 1 in 5 }}", "MUSTFAIL{{ 1 not in 5 }}", "MUSTFAIL{% if 'a' not in n %}x{% endif %}", "MUSTFAIL{% set q = s not in t %}", "MUSTFAIL{{ (n not in 7) ? 'y' : 'n' }}", "MUSTFAIL{% for i in arr if i not in 2 %}x{% endfor %}",
	// values of more than a megabyte: a print, a section, a capture hand them to the writer like any other
	"pre{{ huge }}mid{{ huge }}post", "{% filter up %}x{{ huge }}{% endfilter %}y", "{% set c %}{{ huge }}{% endset %}a{{ c }}b",
	"MUSTFAIL{{ (0 - 1e300)..1e300 }}", "MUSTFAIL{% for i in 0..(10 ** 30) %}x{% endfor %}", "MUSTFAIL{% set r = 1..99999999999999999999 %}", "MUSTFAIL{{ big..nbig }}", "MUSTFAIL{{ 0..'1e300' }}",
	// a name that evaluates to the empty string is a name like any other: where no template is called "", loading it fails
	"MUSTFAILNOEMPTY:a{% include '' %}b", "MUSTFAILNOEMPTY:a{% include nosuchvar %}b", "MUSTFAILNOEMPTY:a{% include null %}b", "MUSTFAILNOEMPTY:{% for i in 1..2 %}{{ i }}{% include '' ~ '' %}{% endfor %}",
	"MUSTFAILNOEMPTY:a{% embed '' %}{% endembed %}b", "MUSTFAILNOEMPTY:{% import '' as L %}x", "MUSTFAILNOEMPTY:{% from '' import lm %}x", "MUSTFAILNOEMPTY:{% use '' %}x", "MUSTFAILNOEMPTY:{% extends '' %}{% block bb %}x{% endblock %}",
	"MUSTFAILNOEMPTY:a{% include '' with {'w': 1} only %}b", "MUSTFAILNOEMPTY:a{% include false %}b", "MUSTFAILNOEMPTY:{% set c %}{% include '' %}{% endset %}x", "MUSTFAILNOEMPTY:{% filter up %}a{% include '' %}{% endfilter %}",
	// ... and where one is, it is rendered
	"a{% include '' %}b{% include nosuchvar %}c", "a{% embed '' %}{% block eb %}E{% endblock %}{% endembed %}b",
}

func (p *c17) Init(tier string, seed int64) {
	p.tier, p.seed = tier, seed
	p.nProg = p.pick(300, 3000)
}

func (p *c17) N() int { return len(c17Hand) + 2 + p.nProg }

func c17Aux() map[string]string {
	return map[string]string{
		"lib": "{% macro lm(a) %}lm:{{ a }}{% endmacro %}",
		// a template called "" - what a name expression that fails would name, if its failure were not noticed
		"": "EMPTY-NAME{% macro lm(a) %}elm{% endmacro %}{% block eb %}eeb{% endblock %}{% block bb %}ebb{% endblock %}",
		// templates that exist and fail half-way because something they need does not
		"broken-inside":  "A{% include 'nolib' %}B",
		"broken-extends": "{% extends 'nobase' %}{% block bb %}x{% endblock %}",
		"broken-import":  "P{% import 'nolib' as L %}{{ L.lm(1) }}Q",
		"part":           "part({{ w }}{{ s }})",
		"lay":            "lay[{% block eb %}orig{% endblock %}{{ s }}]",
		"base":           "base<{% block bb %}bb0{{ s }}{% endblock %}|{% block cc %}cc0{% endblock %}>",
		"child":          "{% extends 'base' %}{% block bb %}child{{ parent() }}{{ n }}{% endblock %}",
		"gchild":         "{% extends 'child' %}{% block cc %}g{{ parent() }}{% filter up %}x{% endfilter %}{% endblock %}",
	}
}

func (p *c17) sources(i int) (map[string]string, string, map[string]stick.Value, interface{}) {
	ctx := map[string]stick.Value{"n": 3, "s": "abc", "t": true, "f": false, "arr": []int{1, 2, 3}, "w": "W"}
	switch {
	case i < len(c17Hand):
		src := c17Aux()
		src["main"] = strings.TrimPrefix(c17Hand[i], "MUSTFAIL")
		if strings.HasPrefix(src["main"], "NOEMPTY:") {
			src["main"] = strings.TrimPrefix(src["main"], "NOEMPTY:")
			delete(src, "")
		}
		ctx["big"], ctx["nbig"] = uint64(math.MaxUint64), -1e300
		if strings.Contains(src["main"], "huge") {
			ctx["huge"] = strings.Repeat("0123456789abcdef", 3<<15+1)
		}
		return src, "main", ctx, nil
	case i == len(c17Hand):
		return c17Aux(), "child", ctx, nil
	case i == len(c17Hand)+1:
		return c17Aux(), "gchild", ctx, nil
	}
	g := &gen.ProgGen{R: gen.Rng(p.seed, "c17", i), Hostile: false, Vars: c02vars, IterVars: c02IterVars, SingleEntryHashes: true,
		Filters: []string{"wrap", "inc", "up", "ident", "b1"}, Funcs: []string{"fn", "num", "truth", "pair", "ident"}, Tests: []string{"pos", "eq", "divisible by", "empty"}}
	ts, _ := g.Program()
	prog := &Program{Templates: ts, Main: "main"}
	return prog.sources(gen.Canon{}), "main", detContext(), ts
}

func (p *c17) Describe(i int) interface{} {
	src, main, _, _ := p.sources(i)
	return map[string]interface{}{"main": main, "templates": src, "faults": "writer at every k (clean and partial), loader at every k (error and broken source), run-time error at every node boundary; Execute and ExecuteSafe"}
}

func newEnv(loader stick.Loader) *stick.Env {
	env := stick.New(loader)
	(&mon.Recorder{}).Register(env)
	c17TwigNames(env)
	return env
}

type execRes struct {
	err error
	pan interface{}
}

func runExec(env *stick.Env, safe bool, main string, w io.Writer, ctx0 map[string]stick.Value) (r execRes) {
	// a template-level set writes into the caller's map: every run gets its own copy
	ctx := make(map[string]stick.Value, len(ctx0))
	for k, v := range ctx0 {
		ctx[k] = v
	}
	mon.BeginExec()
	defer mon.EndCall()
	defer func() { r.pan = recover() }()
	if safe {
		r.err = env.ExecuteSafe(main, w, ctx)
	} else {
		r.err = env.Execute(main, w, ctx)
	}
	return
}

// insertion points: every position of every node list of the main template's structure tree
func countPoints(nodes []gen.Node) int {
	n := len(nodes) + 1
	for _, x := range nodes {
		for _, b := range childBodies(x) {
			n += countPoints(*b)
		}
	}
	return n
}

func childBodies(n gen.Node) []*[]gen.Node {
	switch x := n.(type) {
	case *gen.NIf:
		var out []*[]gen.Node
		for i := range x.Bodies {
			out = append(out, &x.Bodies[i])
		}
		if x.HasElse {
			out = append(out, &x.Else)
		}
		return out
	case *gen.NFor:
		out := []*[]gen.Node{&x.Body}
		if x.HasElse {
			out = append(out, &x.Else)
		}
		return out
	case *gen.NSetCap:
		return []*[]gen.Node{&x.Body}
	case *gen.NFilter:
		return []*[]gen.Node{&x.Body}
	case *gen.NBlock:
		return []*[]gen.Node{&x.Body}
	case *gen.NMacro:
		return []*[]gen.Node{&x.Body}
	case *gen.NEmbed:
		var out []*[]gen.Node
		for _, b := range x.Blocks {
			out = append(out, &b.Body)
		}
		return out
	}
	return nil
}

// insertAt returns a deep-enough copy of nodes with ins inserted at point k (pre-order numbering).
func insertAt(nodes []gen.Node, k *int, ins []gen.Node) ([]gen.Node, bool) {
	for pos := 0; pos <= len(nodes); pos++ {
		if *k == 0 {
			out := append(append(append([]gen.Node{}, nodes[:pos]...), ins...), nodes[pos:]...)
			*k = -1
			return out, true
		}
		*k--
		if pos < len(nodes) {
			cp, done := copyWithInsert(nodes[pos], k, ins)
			if done {
				out := append([]gen.Node{}, nodes...)
				out[pos] = cp
				return out, true
			}
		}
	}
	return nodes, false
}

// insertIntoEmbedBodies makes the bodies of embeds (outside their blocks) positions of insertAt as well.
var insertIntoEmbedBodies bool

func copyWithInsert(n gen.Node, k *int, ins []gen.Node) (gen.Node, bool) {
	switch x := n.(type) {
	case *gen.NIf:
		c := *x
		c.Bodies = append([][]gen.Node{}, x.Bodies...)
		for i := range c.Bodies {
			if b, ok := insertAt(c.Bodies[i], k, ins); ok {
				c.Bodies[i] = b
				return &c, true
			}
		}
		if x.HasElse {
			if b, ok := insertAt(c.Else, k, ins); ok {
				c.Else = b
				return &c, true
			}
		}
	case *gen.NFor:
		c := *x
		if b, ok := insertAt(c.Body, k, ins); ok {
			c.Body = b
			return &c, true
		}
		if x.HasElse {
			if b, ok := insertAt(c.Else, k, ins); ok {
				c.Else = b
				return &c, true
			}
		}
	case *gen.NSetCap:
		c := *x
		if b, ok := insertAt(c.Body, k, ins); ok {
			c.Body = b
			return &c, true
		}
	case *gen.NFilter:
		c := *x
		if b, ok := insertAt(c.Body, k, ins); ok {
			c.Body = b
			return &c, true
		}
	case *gen.NBlock:
		c := *x
		if b, ok := insertAt(c.Body, k, ins); ok {
			c.Body = b
			return &c, true
		}
	case *gen.NMacro:
		c := *x
		if b, ok := insertAt(c.Body, k, ins); ok {
			c.Body = b
			return &c, true
		}
	case *gen.NEmbed:
		c := *x
		if insertIntoEmbedBodies {
			// directly in the embed body, in front of the overrides (only C20 asks for this: what stands there is
			// never executed, but it is parsed)
			if b, ok := insertAt(c.Stray, k, ins); ok {
				c.Stray = b
				return &c, true
			}
		}
		c.Blocks = append([]*gen.NBlock{}, x.Blocks...)
		for i, blk := range c.Blocks {
			bc := *blk
			if b, ok := insertAt(bc.Body, k, ins); ok {
				bc.Body = b
				c.Blocks[i] = &bc
				return &c, true
			}
		}
	}
	return n, false
}

// failing sub-expressions and the expression positions they are placed in: an
// error must surface from every operand position, not only from a whole statement
var c17Failing = []func() gen.Expr{
	func() gen.Expr { return &gen.EGroup{X: &gen.EBin{Op: "%", L: num(1), R: num(0)}} },
	func() gen.Expr { return &gen.ECall{Fn: "nofunc"} },
	func() gen.Expr { return &gen.EGroup{X: &gen.EBin{Op: "matches", L: num(1), R: str("(")}} },
	func() gen.Expr { return &gen.EFilter{X: num(1), Name: "nofilter"} },
	// every other way an expression fails at run time
	func() gen.Expr { return &gen.ENum{Text: "1" + strings.Repeat("0", 400)} },                    // a literal no float64 holds
	func() gen.Expr { return &gen.EGroup{X: &gen.ETest{X: num(1), Test: "nosuchtest"}} },          // unknown test
	func() gen.Expr { return &gen.EGroup{X: &gen.EBin{Op: "in", L: num(1), R: num(5)}} },          // nothing is in a number
	func() gen.Expr { return &gen.EGroup{X: &gen.EBin{Op: "..", L: num(1), R: num(2000000000)}} }, // range beyond the limit
	func() gen.Expr {
		return &gen.EGroup{X: &gen.EBin{Op: "..", L: &gen.EGroup{X: &gen.EBin{Op: "/", L: num(1), R: num(0)}}, R: num(2)}}
	}, // infinite bound
	func() gen.Expr { return &gen.EBlockFn{Name: str("nosuchblock")} },
	// divisors that are not zero but count as zero where the operation works on whole numbers
	func() gen.Expr { return &gen.EGroup{X: &gen.EBin{Op: "%", L: num(7), R: &gen.ENum{Text: "0.5"}}} },
	func() gen.Expr { return &gen.EGroup{X: &gen.EBin{Op: "%", L: num(7), R: str("0.25")}} },
	func() gen.Expr {
		return &gen.EGroup{X: &gen.EBin{Op: "%", L: num(7), R: &gen.EGroup{X: &gen.EBin{Op: "/", L: &gen.EUn{Op: "-", X: num(1)}, R: num(3)}}}}
	},
}

var c17Carriers = []func(e gen.Expr) gen.Node{
	func(e gen.Expr) gen.Node { return pr(&gen.ECall{Fn: "fn", Args: []gen.Expr{e, num(2)}}) },           // non-last argument
	func(e gen.Expr) gen.Node { return pr(&gen.ECall{Fn: "fn", Args: []gen.Expr{num(1), e, str("z")}}) }, // middle argument
	func(e gen.Expr) gen.Node { return pr(&gen.ECall{Fn: "fn", Args: []gen.Expr{num(1), e}}) },           // last argument
	func(e gen.Expr) gen.Node {
		return pr(&gen.EFilter{X: str("v"), Name: "wrap", Args: []gen.Expr{e, num(2)}})
	},
	func(e gen.Expr) gen.Node { return pr(&gen.EFilter{X: e, Name: "wrap", Args: []gen.Expr{num(2)}}) },
	// filters and tests the application registered under names that Twig has too: a failing subject or argument
	// fails whatever the callback is called
	func(e gen.Expr) gen.Node { return pr(&gen.EFilter{X: e, Name: "default", Args: []gen.Expr{str("d")}}) },
	func(e gen.Expr) gen.Node { return pr(&gen.EFilter{X: e, Name: "default"}) },
	func(e gen.Expr) gen.Node { return pr(&gen.EFilter{X: e, Name: "raw"}) },
	func(e gen.Expr) gen.Node {
		return pr(&gen.EFilter{X: &gen.EFilter{X: e, Name: "escape"}, Name: "length"})
	},
	func(e gen.Expr) gen.Node { return pr(&gen.ETest{X: e, Test: "defined"}) },
	func(e gen.Expr) gen.Node { return pr(&gen.ETest{X: e, Test: "empty"}) },
	func(e gen.Expr) gen.Node {
		return pr(&gen.ETern{C: &gen.ETest{X: e, Test: "defined"}, A: str("y"), B: str("n")})
	},
	func(e gen.Expr) gen.Node { return pr(&gen.ETest{X: num(4), Test: "eq", Args: []gen.Expr{e}}) },
	func(e gen.Expr) gen.Node { return pr(&gen.ETest{X: e, Test: "pos"}) },
	func(e gen.Expr) gen.Node { return pr(&gen.EArr{Els: []gen.Expr{e, num(2)}}) },
	func(e gen.Expr) gen.Node {
		return pr(&gen.EGroup{X: &gen.EHash{Keys: []gen.Expr{str("a"), str("b")}, Vals: []gen.Expr{e, num(2)}}})
	},
	// a computed hash key (the value of the same pair is fine), first and second pair, and inside an interpolated key
	func(e gen.Expr) gen.Node {
		return pr(&gen.EGroup{X: &gen.EHash{Keys: []gen.Expr{&gen.EGroup{X: e}, str("b")}, Vals: []gen.Expr{num(1), num(2)}}})
	},
	func(e gen.Expr) gen.Node {
		return pr(&gen.EGroup{X: &gen.EHash{Keys: []gen.Expr{str("a"), &gen.EGroup{X: e}}, Vals: []gen.Expr{num(1), num(2)}}})
	},
	func(e gen.Expr) gen.Node {
		return &gen.NSet{Name: "errh", X: &gen.EHash{Keys: []gen.Expr{&gen.EInterp{Parts: []gen.Expr{&gen.EStr{S: "k"}, e}}}, Vals: []gen.Expr{str("v")}}}
	},
	func(e gen.Expr) gen.Node { return pr(&gen.EBin{Op: "~", L: e, R: str("x")}) },
	func(e gen.Expr) gen.Node { return pr(&gen.EBin{Op: "~", L: str("x"), R: e}) },
	func(e gen.Expr) gen.Node { return pr(&gen.EBin{Op: "and", L: &gen.EBool{V: false}, R: e}) },
	func(e gen.Expr) gen.Node { return pr(&gen.ETern{C: e, A: num(1), B: num(2)}) },
	func(e gen.Expr) gen.Node { return pr(&gen.ETern{C: &gen.EBool{V: true}, A: e, B: num(2)}) },
	func(e gen.Expr) gen.Node { return pr(&gen.EUn{Op: "not", X: e}) },
	func(e gen.Expr) gen.Node { return pr(&gen.EAttr{X: nm("arr"), Key: e}) },
	func(e gen.Expr) gen.Node { return pr(&gen.EAttr{X: e, Key: num(0)}) },
	// whatever is asked of null: the question is evaluated first
	func(e gen.Expr) gen.Node {
		return pr(&gen.EMethod{X: nm("nul"), Name: "anything", Args: []gen.Expr{e, num(2)}})
	},
	func(e gen.Expr) gen.Node {
		return pr(&gen.EMethod{X: &gen.EGroup{X: &gen.ENull{}}, Name: "m", Args: []gen.Expr{num(1), e}})
	},
	func(e gen.Expr) gen.Node { return pr(&gen.EAttr{X: nm("nul"), Key: e}) },
	func(e gen.Expr) gen.Node {
		return pr(&gen.EMethod{X: nm("undefined_thing"), Name: "m", Args: []gen.Expr{e}})
	},
	func(e gen.Expr) gen.Node {
		return pr(&gen.EMethod{X: nm("obj"), Name: "Add", Args: []gen.Expr{e, num(2)}})
	},
	func(e gen.Expr) gen.Node {
		return pr(&gen.EInterp{Parts: []gen.Expr{&gen.EStr{S: "a"}, e, &gen.EStr{S: "b"}, num(1)}})
	},
	func(e gen.Expr) gen.Node { return &gen.NSet{Name: "errv", X: e} },
	func(e gen.Expr) gen.Node { return &gen.NDo{X: &gen.ECall{Fn: "fn", Args: []gen.Expr{e, num(2)}}} },
	func(e gen.Expr) gen.Node { return &gen.NIf{Conds: []gen.Expr{e}, Bodies: [][]gen.Node{{tx("t")}}} },
	func(e gen.Expr) gen.Node {
		return &gen.NIf{Conds: []gen.Expr{&gen.EBool{V: false}, e}, Bodies: [][]gen.Node{{tx("t")}, {tx("u")}}}
	},
	func(e gen.Expr) gen.Node {
		return &gen.NFor{Val: "ev", Seq: &gen.EArr{Els: []gen.Expr{e, num(2)}}, Body: []gen.Node{tx("t")}}
	},
	func(e gen.Expr) gen.Node {
		return &gen.NFor{Val: "ev", Seq: &gen.EArr{Els: []gen.Expr{num(1), num(2)}}, Cond: e, Body: []gen.Node{tx("t")}}
	},
	func(e gen.Expr) gen.Node {
		return &gen.NInclude{Tpl: str("part2"), With: &gen.EHash{Keys: []gen.Expr{nm("w"), nm("v")}, Vals: []gen.Expr{e, num(2)}}}
	},
	func(e gen.Expr) gen.Node { return &gen.NInclude{Tpl: &gen.EBin{Op: "~", L: e, R: str("x")}} },
	func(e gen.Expr) gen.Node {
		// a macro imported with from..import, failing argument in first position
		return &gen.NIf{Conds: []gen.Expr{&gen.EBool{V: true}}, Bodies: [][]gen.Node{{
			&gen.NFrom{Tpl: str("macros"), Names: [][2]string{{"mac0", "mac0"}}},
			pr(&gen.ECall{Fn: "mac0", Args: []gen.Expr{e, num(2)}})}}}
	},
	func(e gen.Expr) gen.Node {
		return &gen.NIf{Conds: []gen.Expr{&gen.EBool{V: true}}, Bodies: [][]gen.Node{{
			&gen.NImport{Tpl: str("macros"), Alias: "emm"},
			pr(&gen.EMethod{X: nm("emm"), Name: "mac0", Args: []gen.Expr{e, num(2)}})}}}
	},
	func(e gen.Expr) gen.Node {
		return &gen.NSetCap{Name: "ecap", Body: []gen.Node{tx("c"), pr(&gen.ECall{Fn: "fn", Args: []gen.Expr{e, num(1)}})}}
	},
	func(e gen.Expr) gen.Node {
		return &gen.NFilter{Filters: []string{"up"}, Body: []gen.Node{pr(&gen.EArr{Els: []gen.Expr{e, e}})}}
	},
}

var c17Errors = []func() gen.Node{
	func() gen.Node { return &gen.NPrint{X: &gen.ECall{Fn: "nofunc"}} },
	func() gen.Node { return &gen.NInclude{Tpl: str("missing-template")} },
	func() gen.Node { return &gen.NPrint{X: &gen.EBin{Op: "matches", L: num(1), R: str("(")}} },
	func() gen.Node { return &gen.NFilter{Filters: []string{"nofilter"}, Body: []gen.Node{tx("x")}} },
	func() gen.Node { return &gen.NPrint{X: &gen.EBin{Op: "%", L: num(1), R: num(0)}} },
	// a loop over something that is no sequence, with an else branch that must not stand in for the error
	func() gen.Node {
		return &gen.NFor{Val: "ev", Seq: num(5), Body: []gen.Node{tx("t")}, HasElse: true, Else: []gen.Node{tx("e")}}
	},
	func() gen.Node {
		return &gen.NFor{Val: "ev", Seq: str("text"), Body: []gen.Node{tx("t")}, HasElse: true, Else: []gen.Node{tx("e")}}
	},
}

func (p *c17) Run(i int) (res fw.Result) {
	src, main, ctx, tree := p.sources(i)
	key := fmt.Sprintf("c17:%d:%d", p.seed, i)
	fail := func(class, sub, msg string) {
		res.Fail(class, key+":"+sub, msg, map[string]interface{}{"main": main, "templates": src})
	}
	base := &stick.MemoryLoader{Templates: src}
	// fault-free reference runs
	w0 := &mon.FaultWriter{}
	r0 := runExec(newEnv(base), false, main, w0, ctx)
	res.Evals++
	if r0.pan != nil {
		res.AddClass("fault-free-panic(C02)")
		if i < len(c17Hand) {
			// the hand-written templates are plain: a failure in one of them is reported, not thrown
			fail("panic", "fault-free", fmt.Sprintf("Execute panicked instead of returning an error: %v", r0.pan))
		}
		return
	}
	ref := string(w0.Got)
	W := w0.Calls
	ws := &mon.FaultWriter{}
	rs := runExec(newEnv(base), true, main, ws, ctx)
	res.Evals++
	if r0.err == nil {
		res.AddClass("fault-free:rendered")
		if rs.err != nil || string(ws.Got) != ref {
			fail("safe-differs", "safe", fmt.Sprintf("ExecuteSafe delivered %q (error %v), Execute %q", clip(string(ws.Got), 200), rs.err, clip(ref, 200)))
		}
		if i < len(c17Hand) && strings.HasPrefix(c17Hand[i], "MUSTFAIL") {
			fail("swallowed-runtime-error", "mustfail", fmt.Sprintf("this template cannot succeed, but Execute returned nil and wrote %q", clip(ref, 200)))
		}
	} else {
		res.AddClass("fault-free:error")
		if rs.err == nil || len(ws.Got) != 0 || ws.Calls != 0 {
			fail("safe-wrote-on-failure", "safe", fmt.Sprintf("rendering fails (%v) but ExecuteSafe returned %v and made %d writes (%q)", r0.err, rs.err, ws.Calls, clip(string(ws.Got), 200)))
		}
	}
	// (a) writer failing at every k
	if r0.err == nil {
		for k := 1; k <= W; k++ {
			for mode := 0; mode < 6; mode++ {
				partial := mode%3 == 1
				w := &mon.FaultWriter{FailAt: k, Partial: partial, Full: mode%3 == 2}
				var dst io.Writer = w
				if mode >= 3 {
					// a destination that also has WriteString (a bufio.Writer, an os.File, most response writers):
					// io.WriteString goes there, and its error counts like that of Write
					dst = &mon.FaultStringWriter{FaultWriter: w}
				}
				r := runExec(newEnv(base), false, main, dst, ctx)
				res.Evals++
				res.AddObs("writer_faults", 1)
				sub := fmt.Sprintf("w%d/%s", k, []string{"rejected", "half-accepted", "all-accepted-with-error", "rejected (WriteString)", "half-accepted (WriteString)", "all-accepted-with-error (WriteString)"}[mode])
				switch {
				case r.pan != nil:
					fail("panic", sub, fmt.Sprintf("writer failing at write %d: Execute panicked: %v", k, r.pan))
				case r.err == nil:
					fail("swallowed-write-error", sub, fmt.Sprintf("writer failed at write %d of %d but Execute returned nil (output so far %q of %q)", k, W, clip(string(w.Got), 200), clip(ref, 200)))
				}
				if w.After > 0 {
					fail("write-after-failure", sub, fmt.Sprintf("writer failed at write %d; %d further Write call(s) followed", k, w.After))
				}
				if !strings.HasPrefix(ref, string(w.Got)) {
					fail("not-a-prefix", sub, fmt.Sprintf("writer failed at write %d; bytes accepted %q are not a prefix of the fault-free output %q", k, clip(string(w.Got), 200), clip(ref, 200)))
				}
			}
		}
		// ExecuteSafe with a failing writer must report it - and what it could not deliver is gone: the next
		// successful ExecuteSafe (same environment, then a fresh one) delivers its own output and nothing else
		envS := newEnv(base)
		for mode := 0; mode < 3; mode++ {
			w := &mon.FaultWriter{FailAt: 1, Partial: mode == 1, Full: mode == 2}
			r := runExec(envS, true, main, w, ctx)
			res.Evals++
			if ref != "" && r.err == nil {
				fail("swallowed-write-error", fmt.Sprintf("safe-w1/%d", mode), "ExecuteSafe returned nil although the destination writer failed")
			}
			for _, e := range []*stick.Env{envS, newEnv(base)} {
				w2 := &mon.FaultWriter{}
				r2 := runExec(e, true, main, w2, ctx)
				res.Evals++
				if r2.err != nil || string(w2.Got) != ref {
					fail("safe-differs", fmt.Sprintf("safe-after-failed-delivery/%d", mode), fmt.Sprintf("after an ExecuteSafe whose destination failed, ExecuteSafe delivered %q (error %v), want %q", clip(string(w2.Got), 200), r2.err, clip(ref, 200)))
				}
			}
		}
	}
	// (b) loader failing at every k
	l0 := &mon.FaultLoader{Inner: base}
	runExec(newEnv(l0), false, main, &mon.FaultWriter{}, ctx)
	L := l0.Loads
	for k := 1; k <= L; k++ {
		for mode := 0; mode < 3; mode++ {
			bad := mode == 1
			for _, safe := range []bool{false, true} {
				l := &mon.FaultLoader{Inner: base, FailAt: k, BadSource: bad, BadReader: mode == 2}
				w := &mon.FaultWriter{}
				r := runExec(newEnv(l), safe, main, w, ctx)
				res.Evals++
				res.AddObs("loader_faults", 1)
				sub := fmt.Sprintf("l%d/%s/%v", k, []string{"error", "broken-source", "reader-fails-midway"}[mode], safe)
				if r.pan != nil {
					fail("panic", sub, fmt.Sprintf("loader failing at load %d: panic %v", k, r.pan))
					continue
				}
				if r.err == nil {
					fail("swallowed-load-error", sub, fmt.Sprintf("load %d of %d (%s) failed (broken source=%v) but %s returned nil", k, L, l0.Names[k-1], bad, map[bool]string{false: "Execute", true: "ExecuteSafe"}[safe]))
				}
				if safe && w.Calls != 0 {
					fail("safe-wrote-on-failure", sub, fmt.Sprintf("load %d failed but ExecuteSafe wrote %q", k, clip(string(w.Got), 200)))
				}
				if !safe && r0.err == nil && !strings.HasPrefix(ref, string(w.Got)) {
					fail("not-a-prefix", sub, fmt.Sprintf("load %d failed; output %q is not a prefix of the fault-free output %q", k, clip(string(w.Got), 200), clip(ref, 200)))
				}
			}
		}
	}
	// (c) run-time errors at every node boundary of the main template (generated programs only)
	if ts, ok := tree.(map[string]*gen.Template); ok && r0.err == nil {
		mt := ts[main]
		points := countPoints(mt.Body)
		for pt := 0; pt < points; pt++ {
			nk := len(c17Errors) + len(c17Carriers)
			ekind := (pt*7 + i) % nk
			k := pt
			var failing gen.Node
			if ekind < len(c17Errors) {
				failing = c17Errors[ekind]()
			} else {
				failing = c17Carriers[ekind-len(c17Errors)](c17Failing[(pt+i)%len(c17Failing)]())
			}
			ins := []gen.Node{&gen.NDo{X: &gen.ECall{Fn: "fn", Args: []gen.Expr{str("MARK")}}}, failing}
			body, ok := insertAt(mt.Body, &k, ins)
			if !ok {
				continue
			}
			ts2 := map[string]*gen.Template{}
			for n, t := range ts {
				ts2[n] = t
			}
			ts2[main] = &gen.Template{Name: main, Body: body}
			src2 := (&Program{Templates: ts2, Main: main}).sources(gen.Canon{})
			for _, safe := range []bool{false, true} {
				env := stick.New(&stick.MemoryLoader{Templates: src2})
				rec := &mon.Recorder{}
				rec.Register(env)
				c17TwigNames(env)
				w := &mon.FaultWriter{}
				r := runExec(env, safe, main, w, ctx)
				res.Evals++
				res.AddObs("runtime_error_faults", 1)
				reached := false
				for _, c := range rec.Calls {
					if c.Kind == "func" && len(c.Args) == 1 && c.Args[0] == model.Repr("MARK") {
						reached = true
					}
				}
				sub := fmt.Sprintf("e%d/%d/%v", pt, ekind, safe)
				in := map[string]interface{}{"main": main, "templates": src2}
				if r.pan != nil {
					res.Fail("panic", key+":"+sub, fmt.Sprintf("run-time error at point %d: panic %v", pt, r.pan), in)
					continue
				}
				if !reached {
					res.AddObs("runtime_error_points_not_executed", 1)
					continue
				}
				res.AddObs("runtime_error_points_executed", 1)
				if r.err == nil {
					res.Fail("swallowed-runtime-error", key+":"+sub, fmt.Sprintf("the failing construct at point %d was executed but no error was returned (output %q)", pt, clip(string(w.Got), 200)), in)
				}
				if safe && w.Calls != 0 {
					res.Fail("safe-wrote-on-failure", key+":"+sub, fmt.Sprintf("rendering failed at point %d but ExecuteSafe wrote %q", pt, clip(string(w.Got), 200)), in)
				}
				if !safe && !strings.HasPrefix(ref, string(w.Got)) {
					res.Fail("not-a-prefix", key+":"+sub, fmt.Sprintf("rendering failed at point %d; output %q is not a prefix of what the run without the failing construct writes, %q", pt, clip(string(w.Got), 200), clip(ref, 200)), in)
				}
			}
		}
	}
	if W >= 2 {
		res.Sigs = append(res.Sigs, key)
	}
	var _ = bytes.NewBuffer
	return
}

func (p *c17) Rule() string {
	return p.ruleBase() + " " + "Round 12: 13 MUSTFAIL templates whose include / embed / import / from / use / extends names evaluate to the empty string (literal, null, undefined, false, a concatenation) under a loader without a template called \"\" - in a loop, a capture, a filter section, with a with-hash - and two that render the template called \"\" where there is one."
}

func (p *c17) ruleBase() string {
	return "per template (20 hand-written ones covering every construct that writes: text, print, filter sections incl. nested and last-in-template, loops, include, embed, set-capture, macros, block(), if, import/from, verbatim, for-else; two inheritance chains with parent(); plus seeded programs from the generator: 300 quick / 3000 thorough): fault-free Execute and ExecuteSafe first (ExecuteSafe must deliver byte-identical output, or nothing if rendering fails), then EVERY fault point: (a) the destination writer failing at its k-th Write for every k=1..W, once rejecting the whole write, once accepting half of it and once accepting all of it but reporting an error; ExecuteSafe with a failing destination (3 modes) followed by successful ExecuteSafe calls on the same and on a fresh environment, which must deliver exactly their own output; (b) the loader failing at its k-th Load for every k=1..L, once with an error, once by returning a syntactically broken template (16 kinds) and once by returning a template whose reader fails after half of the source, through Execute and ExecuteSafe; (c) for generated programs a failing construct inserted at every node boundary - either a whole statement (unknown function, missing include, invalid regular expression, unknown filter section, modulo by zero, a loop with an else branch over a number / a string) or one of 4 failing sub-expressions carried in one of 34 expression positions (first / middle / last argument of a function, filter, test, method or imported macro, array and hash elements, computed and interpolated hash keys, either operand, conditional parts, attribute key, interpolation, set value, if/elseif condition, loop sequence and condition, include name and with-hash, inside captures and filter sections) - of the main template's structure tree, nested bodies included, with a recorded marker call in front of it telling whether it was executed. Oracles: non-nil error, accepted bytes are a prefix of the fault-free output, no Write after a failed Write, ExecuteSafe made no Write at all on failure. Non-trivial = template with >=2 writes; distinct = template."
}

func (p *c17) Assumptions() []string {
	return []string{"a writer fault in ExecuteSafe must be reported but may leave partial output (the all-or-nothing promise is about rendering failures)"}
}

func (p *c17) Floors(tier string) map[string]int64 {
	return map[string]int64{"writer_faults": 1000, "loader_faults": 1000, "runtime_error_points_executed": 500, "distinct_nontrivial": 50}
}

// c17TwigNames registers plain callbacks under names that Twig's own filters and tests have (the core environment
// has none of them): what a callback is called gives it no special powers.
func c17TwigNames(env *stick.Env) {
	for _, n := range []string{"default", "raw", "escape", "e", "length", "first", "upper", "json_encode"} {
		env.Filters[n] = func(ctx stick.Context, v stick.Value, args ...stick.Value) stick.Value { return stick.CoerceString(v) }
	}
	for _, n := range []string{"defined", "empty", "null", "none", "iterable", "same"} {
		env.Tests[n] = func(ctx stick.Context, v stick.Value, args ...stick.Value) bool { return v != nil }
	}
}
