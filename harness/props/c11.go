package props

import (
	"fmt"
	"math/rand"
	"strconv"
	"strings"

	"verifharness/fw"
	"verifharness/gen"
)

// C11 — macros bind arguments by position and return their output as a value.
type c11 struct {
	base
	nEnum, nUnknown, nRand int
	nRec, nMany            int
}

func init() { fw.Register("C11", func() fw.Property { return &c11{} }) }

func (p *c11) ID() string       { return "C11" }
func (p *c11) Exhaustive() bool { return true }

var (
	c11Forms = []string{"_self.m", "alias.m", "from-import m", "from-import m as n", "from-import m as <name of a registered function>"}
	c11Uses  = []string{"print", "set", "concat", "argument-of-call", "in-loop", "in-capture", "twice-in-a-row", "in-loop-then-after", "import-computed-in-loop", "in-embedded-and-included-template", "in-block-of-extending-template", "in-top-level-set-of-extending-template", "again-after-an-embed-and-an-include-that-define-the-same-names"}
)

func (p *c11) Init(tier string, seed int64) {
	p.tier, p.seed = tier, seed
	p.nEnum = 5 * 7 * len(c11Forms) * len(c11Uses)
	p.nUnknown = 9
	p.nRec = 5 * 3 * 2
	p.nMany = len(c11ManyParams) * 3 * len(c11Forms)
	p.nRand = p.pick(6000, 200000)
}

func (p *c11) N() int {
	return p.nEnum + p.nUnknown + p.nRec + p.nMany + p.nRand + c11nNames + len(c11Special) + 2
}

// buildRec: terminating recursion. Every level reads its own parameters again after the inner call has
// returned, so an activation record shared between the calls of one macro shows.
func (p *c11) buildRec(j int) (*Program, string) {
	depth := j % 5
	j /= 5
	shape := j % 3
	home := j / 3 // 0: defined in main, called through _self; 1: defined in lib, calling itself through an import
	callSelf := func(name string, args ...gen.Expr) gen.Expr {
		if home == 0 {
			return &gen.EMethod{X: nm("_self"), Name: name, Args: args}
		}
		return &gen.EMethod{X: nm("LL"), Name: name, Args: args}
	}
	pre := func() []gen.Node {
		if home == 0 {
			return nil
		}
		return []gen.Node{&gen.NImport{Tpl: str("lib"), Alias: "LL"}}
	}
	dec := &gen.EBin{Op: "-", L: nm("n"), R: num(1)}
	pos := &gen.EBin{Op: ">", L: nm("n"), R: num(0)}
	var defs []gen.Node
	switch shape {
	case 0: // linear
		body := append(pre(), tx("<"), pr(nm("n")), tx(","), pr(nm("tag")), pr(&gen.ECall{Fn: "fn", Args: []gen.Expr{nm("n")}}),
			&gen.NIf{Conds: []gen.Expr{pos}, Bodies: [][]gen.Node{{pr(callSelf("rec", dec, &gen.EBin{Op: "~", L: nm("tag"), R: str("x")}))}}},
			tx(";"), pr(nm("n")), tx(","), pr(nm("tag")), tx(">"))
		defs = append(defs, &gen.NMacro{Name: "rec", Params: []string{"n", "tag"}, Body: body})
	case 1: // two inner calls
		body := append(pre(), tx("("), pr(nm("n")),
			&gen.NIf{Conds: []gen.Expr{pos}, Bodies: [][]gen.Node{{pr(callSelf("rec", dec, str("L"))), tx("^"), pr(nm("n")), pr(nm("tag")), tx("^"), pr(callSelf("rec", dec, str("R")))}}},
			tx(":"), pr(nm("n")), pr(nm("tag")), tx(")"))
		defs = append(defs, &gen.NMacro{Name: "rec", Params: []string{"n", "tag"}, Body: body})
	default: // mutual
		a := append(pre(), tx("a"), pr(nm("n")), &gen.NIf{Conds: []gen.Expr{pos}, Bodies: [][]gen.Node{{pr(callSelf("recb", dec, nm("n")))}}}, tx("/a"), pr(nm("n")), pr(nm("tag")))
		b := append(pre(), tx("b"), pr(nm("n")), &gen.NIf{Conds: []gen.Expr{pos}, Bodies: [][]gen.Node{{pr(callSelf("rec", dec, nm("n")))}}}, tx("/b"), pr(nm("n")), pr(nm("tag")))
		defs = append(defs, &gen.NMacro{Name: "rec", Params: []string{"n", "tag"}, Body: a}, &gen.NMacro{Name: "recb", Params: []string{"n", "tag"}, Body: b})
	}
	ts := map[string]*gen.Template{}
	var main []gen.Node
	if home == 0 {
		main = append(main, defs...)
		main = append(main, tx("["), pr(&gen.EMethod{X: nm("_self"), Name: "rec", Args: []gen.Expr{num(depth), str("t")}}), tx("]"))
	} else {
		ts["lib"] = tpl("lib", defs...)
		main = append(main, &gen.NImport{Tpl: str("lib"), Alias: "L"}, tx("["), pr(&gen.EMethod{X: nm("L"), Name: "rec", Args: []gen.Expr{num(depth), str("t")}}), tx("]"))
	}
	ts["main"] = tpl("main", main...)
	return &Program{Templates: ts, Main: "main", Ctx: map[string]interface{}{}}, fmt.Sprintf("recursion/depth=%d/shape=%d/home=%d", depth, shape, home)
}

// c11MacroNames / c11ParamNames: names that mean something elsewhere - the built-in functions, the variables the
// executor (or Twig) binds itself, tags. As the name of a macro reached through _self or an alias, and as the name
// of a parameter, they are names like any other.
var (
	c11MacroNames = []string{"block", "parent", "include", "range", "loop", "varargs", "macro", "set", "length", "m", "templateName", "TemplateName", "name", "Name", "keys", "String", "_self"}
	c11ParamNames = []string{"varargs", "loop", "_context", "_key", "_seq", "_parent", "block", "parent", "args", "self", "macro", "p"}
)

const c11nNames = 17 * 12 * 3

// buildNames: macro c11MacroNames[a] with the parameters (c11ParamNames[b], q), called with 1, 2 and 4 arguments
// through _self, through an alias and through a renaming from-import.
func (p *c11) buildNames(j int) (*Program, string) {
	nargs := []int{1, 2, 4}[j%3]
	j /= 3
	pn := c11ParamNames[j%len(c11ParamNames)]
	mn := c11MacroNames[j/len(c11ParamNames)]
	m := &gen.NMacro{Name: mn, Params: []string{pn, "q"}, Body: []gen.Node{tx("[" + mn + ":"), pr(nm(pn)), tx("|"), pr(nm("q")), tx("|"), pr(&gen.ECall{Fn: "fn", Args: []gen.Expr{nm(pn), nm("q")}}), tx("]")}}
	ts := map[string]*gen.Template{"lib": tpl("lib", m)}
	main := []gen.Node{m, &gen.NImport{Tpl: str("lib"), Alias: "L"}, &gen.NFrom{Tpl: str("lib"), Names: [][2]string{{mn, "ren"}}}}
	for form := 0; form < 3; form++ {
		args := c11args(nargs, form)
		var call gen.Expr
		switch form {
		case 0:
			call = &gen.EMethod{X: nm("_self"), Name: mn, Args: args}
		case 1:
			call = &gen.EMethod{X: nm("L"), Name: mn, Args: args}
		default:
			call = &gen.ECall{Fn: "ren", Args: args}
		}
		main = append(main, tx("<"), pr(call), tx(">"))
	}
	ts["main"] = tpl("main", main...)
	return &Program{Templates: ts, Main: "main", Ctx: map[string]interface{}{}}, fmt.Sprintf("names/macro=%s/param=%s/args=%d", mn, pn, nargs)
}

// c11ManyParams: parameter lists longer than anybody writes by hand - binding is by position whatever the position.
var c11ManyParams = []int{7, 9, 12, 17, 33, 65, 130}

// buildMany: a macro with n parameters called with n-1, n and n+2 arguments in every call form.
func (p *c11) buildMany(j int) (*Program, string) {
	form := j % len(c11Forms)
	j /= len(c11Forms)
	delta := []int{-1, 0, 2}[j%3]
	n := c11ManyParams[j/3]
	m := c11macro("m", n)
	setup, call := c11call(form, "m", c11args(n+delta, n))
	ts := map[string]*gen.Template{"lib": tpl("lib", m, c11macro("other", 1))}
	main := []gen.Node{}
	if form == 0 {
		main = append(main, m)
	}
	main = append(main, setup...)
	main = append(main, tx("<"), pr(call), tx(">"))
	ts["main"] = tpl("main", main...)
	return &Program{Templates: ts, Main: "main", Ctx: map[string]interface{}{}}, fmt.Sprintf("many/params=%d/args=%d/form=%d", n, n+delta, form)
}

func c11macro(name string, nparams int, extra ...gen.Node) *gen.NMacro {
	m := &gen.NMacro{Name: name}
	body := []gen.Node{tx("[" + name + ":")}
	for i := 0; i < nparams; i++ {
		pn := "p" + strconv.Itoa(i)
		m.Params = append(m.Params, pn)
		body = append(body, pr(nm(pn)), tx("|"))
	}
	body = append(body, pr(&gen.ECall{Fn: "fn", Args: []gen.Expr{str(name)}}))
	body = append(body, extra...)
	body = append(body, tx("]"))
	m.Body = body
	return m
}

func c11args(n, salt int) []gen.Expr {
	args := make([]gen.Expr, n)
	for i := range args {
		switch (i + salt) % 4 {
		case 3: // an argument with a recorded side effect: evaluated exactly once, in order, even when surplus
			args[i] = &gen.ECall{Fn: "fn", Args: []gen.Expr{str("arg" + strconv.Itoa(i))}}
		case 0:
			args[i] = str("A" + strconv.Itoa(i))
		case 1:
			args[i] = num(100 + i)
		default:
			args[i] = &gen.EBin{Op: "~", L: str("c"), R: num(i)}
		}
	}
	return args
}

// callExpr builds the call in the given form; setup returns the statements needed before it.
func c11call(form int, name string, args []gen.Expr) (setup []gen.Node, call gen.Expr) {
	switch form {
	case 0:
		return nil, &gen.EMethod{X: nm("_self"), Name: name, Args: args}
	case 1:
		return []gen.Node{&gen.NImport{Tpl: str("lib"), Alias: "L"}}, &gen.EMethod{X: nm("L"), Name: name, Args: args}
	case 2:
		return []gen.Node{&gen.NFrom{Tpl: str("lib"), Names: [][2]string{{name, name}}}}, &gen.ECall{Fn: name, Args: args}
	case 3:
		return []gen.Node{&gen.NFrom{Tpl: str("lib"), Names: [][2]string{{name, "ren_" + name}}}}, &gen.ECall{Fn: "ren_" + name, Args: args}
	default:
		// the local name is also the name of a registered function: the import wins
		return []gen.Node{&gen.NFrom{Tpl: str("lib"), Names: [][2]string{{name, "ident"}}}}, &gen.ECall{Fn: "ident", Args: args}
	}
}

func c11use(use int, call gen.Expr) []gen.Node {
	switch use {
	case 0:
		return []gen.Node{tx("<"), pr(call), tx(">")}
	case 1:
		return []gen.Node{&gen.NSet{Name: "r", X: call}, tx("<"), pr(nm("r")), tx("+"), pr(nm("r")), tx(">")}
	case 2:
		return []gen.Node{tx("<"), pr(&gen.EBin{Op: "~", L: &gen.EBin{Op: "~", L: str("pre-"), R: call}, R: str("-post")}), tx(">")}
	case 3:
		return []gen.Node{tx("<"), pr(&gen.ECall{Fn: "fn", Args: []gen.Expr{str("outer"), call}}), tx("/"), pr(&gen.EFilter{X: call, Name: "wrap"}), tx(">")}
	case 4:
		return []gen.Node{tx("<"), &gen.NFor{Val: "i", Seq: &gen.EGroup{X: &gen.EBin{Op: "..", L: num(1), R: num(2)}}, Body: []gen.Node{pr(nm("i")), tx(":"), pr(call), tx(";")}}, tx(">")}
	case 5:
		return []gen.Node{&gen.NSetCap{Name: "cp", Body: []gen.Node{tx("X"), pr(call), tx("Y")}}, tx("<"), pr(nm("cp")), tx(">"),
			&gen.NFilter{Filters: []string{"b1"}, Body: []gen.Node{pr(call)}}}
	case 6:
		// the same call twice with nothing in between: the body runs twice
		return []gen.Node{tx("<"), pr(call), pr(call), tx("|"), pr(&gen.EBin{Op: "~", L: call, R: call}), tx(">")}
	default:
		// in a loop, and again right after the loop has ended
		return []gen.Node{tx("<"), &gen.NFor{Val: "i", Seq: &gen.EGroup{X: &gen.EBin{Op: "..", L: num(1), R: num(2)}}, Body: []gen.Node{pr(call)}}, tx("/"), pr(call), pr(call), tx(">")}
	}
}

func (p *c11) buildEnum(i int) (*Program, string) {
	use := i % len(c11Uses)
	i /= len(c11Uses)
	form := i % len(c11Forms)
	i /= len(c11Forms)
	nargs := i % 7
	i /= 7
	nparams := i % 5
	m := c11macro("m", nparams)
	setup, call := c11call(form, "m", c11args(nargs, nparams))
	var main []gen.Node
	ts := map[string]*gen.Template{}
	if form == 0 {
		if use != 10 && use != 11 && use != 12 {
			main = append(main, m)
		}
	} else {
		ts["lib"] = tpl("lib", c11macro("other", 1), m, tx("LIBTEXT-not-rendered"))
	}
	if use == 8 && form != 0 {
		// one import statement executed three times, naming another library each time
		m2 := c11macro("m", nparams, tx("@lib2"))
		ts["lib2"] = tpl("lib2", m2)
		imp := setup[0]
		switch n := imp.(type) {
		case *gen.NImport:
			n.Tpl = nm("which")
		case *gen.NFrom:
			n.Tpl = nm("which")
		}
		loop := &gen.NFor{Val: "which", Seq: &gen.EArr{Els: []gen.Expr{str("lib"), str("lib2"), str("lib")}},
			Body: []gen.Node{imp, tx("<"), pr(nm("which")), tx(":"), pr(call), tx(">")}}
		main = append(main, loop)
		ts["main"] = tpl("main", main...)
		return &Program{Templates: ts, Main: "main", Ctx: map[string]interface{}{}},
			fmt.Sprintf("params=%d/args=%d/%s/%s", nparams, nargs, c11Forms[form], c11Uses[use])
	}
	if use == 9 {
		// definition (or import) and call both live in a template that is entered through embed and include
		var inner []gen.Node
		if form == 0 {
			inner = append(inner, m)
		}
		inner = append(inner, setup...)
		inner = append(inner, c11use(0, call)...)
		ts["emb"] = tpl("emb", inner...)
		ts["main"] = tpl("main", tx("E("), &gen.NEmbed{Tpl: str("emb")}, tx(")I("), &gen.NInclude{Tpl: str("emb")}, tx(")"))
		return &Program{Templates: ts, Main: "main", Ctx: map[string]interface{}{}},
			fmt.Sprintf("params=%d/args=%d/%s/%s", nparams, nargs, c11Forms[form], c11Uses[use])
	}
	if use == 10 {
		// the macro is defined (or imported) at the top level of a template that extends a layout and called
		// inside one of its blocks
		main = append(main, &gen.NExtends{Tpl: str("lay")})
		if form == 0 {
			main = append(main, m)
		}
		main = append(main, setup...)
		main = append(main, &gen.NBlock{Name: "body", Body: c11use(0, call)})
		ts["lay"] = tpl("lay", tx("LAY("), &gen.NBlock{Name: "body", Body: []gen.Node{tx("lay-body")}}, tx(")"))
		ts["main"] = tpl("main", main...)
		return &Program{Templates: ts, Main: "main", Ctx: map[string]interface{}{}},
			fmt.Sprintf("params=%d/args=%d/%s/%s", nparams, nargs, c11Forms[form], c11Uses[use])
	}
	if use == 12 {
		// between two calls the template embeds and includes another one that defines a macro of the same name,
		// from-imports one under the same name and imports a set under the same alias: the second call is the
		// first one again
		if form == 0 {
			main = append(main, m)
		}
		main = append(main, setup...)
		other := c11macro("m", nparams, tx("@other"))
		ts["lib2"] = tpl("lib2", c11macro("m", nparams, tx("@lib2")), c11macro("ren_m", nparams, tx("@lib2r")), c11macro("ident", nparams, tx("@lib2i")))
		inner := []gen.Node{other, &gen.NImport{Tpl: str("lib2"), Alias: "L"}, &gen.NFrom{Tpl: str("lib2"), Names: [][2]string{{"m", "m"}, {"ren_m", "ren_m"}, {"ident", "ident"}}},
			tx("{inner:"), pr(&gen.EMethod{X: nm("_self"), Name: "m"}), pr(&gen.EMethod{X: nm("L"), Name: "m"}), pr(&gen.ECall{Fn: "m"}), tx("}")}
		ts["emb"] = tpl("emb", inner...)
		main = append(main, c11use(0, call)...)
		main = append(main, tx("E("), &gen.NEmbed{Tpl: str("emb")}, tx(")"))
		main = append(main, c11use(0, call)...)
		main = append(main, tx("I("), &gen.NInclude{Tpl: str("emb")}, tx(")"))
		main = append(main, c11use(0, call)...)
		ts["main"] = tpl("main", main...)
		return &Program{Templates: ts, Main: "main", Ctx: map[string]interface{}{}},
			fmt.Sprintf("params=%d/args=%d/%s/%s", nparams, nargs, c11Forms[form], c11Uses[use])
	}
	if use == 11 {
		// ... and called from an assignment at the top level of that template (the result is printed in a block):
		// the macro body, and a callback in it, still belong to the template that defines the macro
		main = append(main, &gen.NExtends{Tpl: str("lay")})
		if form == 0 {
			main = append(main, m)
		}
		main = append(main, setup...)
		main = append(main, &gen.NSet{Name: "topr", X: call}, &gen.NSetCap{Name: "topc", Body: []gen.Node{tx("("), pr(call), tx(")")}},
			&gen.NBlock{Name: "body", Body: []gen.Node{tx("<"), pr(nm("topr")), tx("|"), pr(nm("topc")), tx(">")}})
		ts["lay"] = tpl("lay", tx("LAY("), &gen.NBlock{Name: "body", Body: []gen.Node{tx("lay-body")}}, tx(")"))
		ts["main"] = tpl("main", main...)
		return &Program{Templates: ts, Main: "main", Ctx: map[string]interface{}{}},
			fmt.Sprintf("params=%d/args=%d/%s/%s", nparams, nargs, c11Forms[form], c11Uses[use])
	}
	if use == 8 {
		use = 6
	}
	main = append(main, setup...)
	main = append(main, c11use(use, call)...)
	ts["main"] = tpl("main", main...)
	return &Program{Templates: ts, Main: "main", Ctx: map[string]interface{}{}},
		fmt.Sprintf("params=%d/args=%d/%s/%s", nparams, nargs, c11Forms[form], c11Uses[use])
}

func (p *c11) buildUnknown(j int) (*Program, string) {
	ts := map[string]*gen.Template{"lib": tpl("lib", c11macro("m", 1))}
	var body []gen.Node
	switch j {
	case 0: // unknown macro of an imported set
		body = []gen.Node{tx("before"), &gen.NImport{Tpl: str("lib"), Alias: "L"}, pr(&gen.EMethod{X: nm("L"), Name: "nope", Args: nil}), tx("after")}
	case 1:
		body = []gen.Node{tx("before"), &gen.NImport{Tpl: str("lib"), Alias: "L"}, pr(&gen.EMethod{X: nm("L"), Name: "nope", Args: []gen.Expr{num(1), num(2)}}), tx("after")}
	case 2: // from-import of an unknown macro
		body = []gen.Node{tx("before"), &gen.NFrom{Tpl: str("lib"), Names: [][2]string{{"nope", "nope"}}}, tx("after")}
	case 3:
		body = []gen.Node{tx("before"), &gen.NFrom{Tpl: str("lib"), Names: [][2]string{{"nope", "x"}}}, tx("after")}
	case 4: // unknown inside a loop after a good call
		body = []gen.Node{&gen.NImport{Tpl: str("lib"), Alias: "L"}, pr(&gen.EMethod{X: nm("L"), Name: "m", Args: []gen.Expr{num(1)}}),
			&gen.NFor{Val: "i", Seq: &gen.EArr{Els: []gen.Expr{num(1)}}, Body: []gen.Node{pr(&gen.EMethod{X: nm("L"), Name: "M", Args: nil})}}}
	case 6: // a name that a from-import brought in is no member of an imported set
		body = []gen.Node{tx("before"), &gen.NImport{Tpl: str("lib"), Alias: "L"}, &gen.NFrom{Tpl: str("lib"), Names: [][2]string{{"m", "x"}}}, pr(&gen.ECall{Fn: "x", Args: []gen.Expr{num(1)}}),
			pr(&gen.EMethod{X: nm("L"), Name: "x", Args: []gen.Expr{num(1)}}), tx("after")}
	case 7: // ... nor is a macro of the template itself
		body = []gen.Node{c11macro("own", 0), tx("before"), &gen.NImport{Tpl: str("lib"), Alias: "L"}, pr(&gen.EMethod{X: nm("_self"), Name: "own"}), pr(&gen.EMethod{X: nm("L"), Name: "own"}), tx("after")}
	case 8: // ... nor the name of a registered function or of the alias itself
		body = []gen.Node{tx("before"), &gen.NImport{Tpl: str("lib"), Alias: "L"}, pr(&gen.EMethod{X: nm("L"), Name: "fn", Args: []gen.Expr{str("a")}}), tx("after")}
	default: // import of a missing template
		body = []gen.Node{tx("before"), &gen.NImport{Tpl: str("nolib"), Alias: "L"}, tx("after")}
	}
	ts["main"] = tpl("main", body...)
	return &Program{Templates: ts, Main: "main", Ctx: map[string]interface{}{}}, fmt.Sprintf("unknown/%d", j)
}

func (p *c11) buildRand(i int) (*Program, string) {
	r := gen.Rng(p.seed, "c11", i)
	nm0 := 2 + r.Intn(4)
	ts := map[string]*gen.Template{}
	var lib, selfDefs []gen.Node
	var sig []string
	type mdef struct {
		name   string
		params int
		inLib  bool
	}
	var defs []mdef
	for k := 0; k < nm0; k++ {
		name := "mk" + strconv.Itoa(k)
		np := r.Intn(5)
		inLib := r.Intn(2) == 0
		var extra []gen.Node
		// call an earlier macro of the same home from inside the body (acyclic)
		var earlier []mdef
		for _, d := range defs {
			if d.inLib == inLib {
				earlier = append(earlier, d)
			}
		}
		if len(earlier) > 0 && r.Intn(2) == 0 {
			d := earlier[r.Intn(len(earlier))]
			args := c11randArgs(r, np)
			if inLib {
				extra = append(extra, &gen.NImport{Tpl: str("lib"), Alias: "LL"}, tx("("), pr(&gen.EMethod{X: nm("LL"), Name: d.name, Args: args}), tx(")"))
			} else {
				extra = append(extra, tx("("), pr(&gen.EMethod{X: nm("_self"), Name: d.name, Args: args}), tx(")"))
			}
			sig = append(sig, "nested")
		}
		m := c11macro(name, np, extra...)
		if inLib {
			lib = append(lib, m)
		} else {
			selfDefs = append(selfDefs, m)
		}
		defs = append(defs, mdef{name, np, inLib})
	}
	ts["lib"] = tpl("lib", lib...)
	main := append([]gen.Node{}, selfDefs...)
	ncalls := 1 + r.Intn(4)
	for c := 0; c < ncalls; c++ {
		d := defs[r.Intn(len(defs))]
		form := 0
		if d.inLib {
			form = 1 + r.Intn(3)
		}
		nargs := r.Intn(7)
		args := make([]gen.Expr, nargs)
		for a := range args {
			args[a] = str("v" + strconv.Itoa(c) + strconv.Itoa(a))
		}
		setup, call := c11call(form, d.name, args)
		main = append(main, setup...)
		use := r.Intn(8)
		main = append(main, c11use(use, call)...)
		sig = append(sig, fmt.Sprintf("%d/%d/%s/%s", d.params, nargs, c11Forms[form], c11Uses[use]))
	}
	ts["main"] = tpl("main", main...)
	return &Program{Templates: ts, Main: "main", Ctx: map[string]interface{}{}}, "rand:" + strings.Join(sig, ",")
}

func c11randArgs(r *rand.Rand, np int) []gen.Expr {
	n := r.Intn(4)
	args := make([]gen.Expr, n)
	for i := range args {
		if np > 0 && r.Intn(2) == 0 {
			args[i] = nm("p" + strconv.Itoa(r.Intn(np)))
		} else {
			args[i] = str("n" + strconv.Itoa(i))
		}
	}
	return args
}

// c11Special: an import alias is a variable: it is assigned where a set statement at that point would assign it -
// also when the tag stands in a macro or a loop whose parameter or variable has the alias's name.
var c11Special = []func() []gen.Node{
	func() []gen.Node {
		call := func(x string, a gen.Expr) gen.Node { return pr(&gen.EMethod{X: nm(x), Name: "m", Args: []gen.Expr{a}}) }
		inMacro := &gen.NMacro{Name: "host", Params: []string{"L", "q"}, Body: []gen.Node{tx("(host:"), pr(nm("q")), &gen.NImport{Tpl: str("lib"), Alias: "L"}, call("L", str("in-macro")), tx(")")}}
		return []gen.Node{inMacro, pr(&gen.EMethod{X: nm("_self"), Name: "host", Args: []gen.Expr{str("shadowed"), str("Q")}}), tx("|"),
			&gen.NFor{Val: "L", Seq: &gen.EArr{Els: []gen.Expr{num(1), num(2)}}, Body: []gen.Node{pr(nm("L")), &gen.NImport{Tpl: str("lib"), Alias: "L"}, call("L", str("in-loop")), tx(";")}}, tx("|"),
			&gen.NSet{Name: "K", X: num(5)}, &gen.NFor{Val: "i", Seq: &gen.EArr{Els: []gen.Expr{num(1)}}, Body: []gen.Node{&gen.NImport{Tpl: str("lib"), Alias: "K"}, call("K", str("k-in-loop"))}}, call("K", str("k-after-loop")), tx("|"),
			&gen.NIf{Conds: []gen.Expr{&gen.EBool{V: true}}, Bodies: [][]gen.Node{{&gen.NImport{Tpl: str("lib"), Alias: "J"}}}}, call("J", str("after-if"))}
	},
}

func init() {
	// a macro is a macro of its template wherever its definition stands: inside a condition, a block, a loop - it
	// is reached through _self, an alias and a from-import alike
	c11Special = append(c11Special, func() []gen.Node {
		call := func(x, m string) gen.Node { return pr(&gen.EMethod{X: nm(x), Name: m, Args: []gen.Expr{str("a")}}) }
		return []gen.Node{&gen.NImport{Tpl: str("lib2"), Alias: "L2"}, &gen.NFrom{Tpl: str("lib2"), Names: [][2]string{{"inif", "inif"}, {"inblock", "ib2"}, {"infor", "infor"}}},
			call("L2", "inif"), call("L2", "inblock"), call("L2", "infor"), call("L2", "top"), tx("|"), pr(&gen.ECall{Fn: "inif", Args: []gen.Expr{str("f")}}), pr(&gen.ECall{Fn: "ib2", Args: []gen.Expr{str("f")}}), pr(&gen.ECall{Fn: "infor", Args: []gen.Expr{str("f")}}),
			tx("|"), &gen.NIf{Conds: []gen.Expr{&gen.EBool{V: true}}, Bodies: [][]gen.Node{{c11macro("own", 1)}}}, call("_self", "own")}
	})
}

func init() {
	// a macro of another template that renders a block of the caller (block('b') names what the template being rendered
	// defines): the block is the caller's, and so is what it reaches through _self
	c11Special = append(c11Special, func() []gen.Node {
		return []gen.Node{&gen.NImport{Tpl: str("lib3"), Alias: "f"}, &gen.NFrom{Tpl: str("lib3"), Names: [][2]string{{"frame", "fr"}}}, c11macro("local", 1),
			&gen.NBlock{Name: "b", Body: []gen.Node{tx("B("), pr(&gen.EMethod{X: nm("_self"), Name: "local", Args: []gen.Expr{str("from-b")}}), tx(")")}}, tx(";"),
			pr(&gen.EMethod{X: nm("f"), Name: "frame", Args: []gen.Expr{str("x")}}), tx(";"), pr(&gen.ECall{Fn: "fr", Args: []gen.Expr{str("y")}}), tx(";"),
			pr(&gen.EMethod{X: nm("_self"), Name: "local", Args: []gen.Expr{str("after")}})}
	})
}

func init() {
	// a library without macros is a library all the same: its alias is bound (to nothing callable), an alias that
	// meant another library before means this one now
	call := func(x, m, a string) gen.Node { return pr(&gen.EMethod{X: nm(x), Name: m, Args: []gen.Expr{str(a)}}) }
	c11Special = append(c11Special, func() []gen.Node {
		return []gen.Node{&gen.NImport{Tpl: str("lib"), Alias: "L"}, call("L", "m", "a"), tx("|"), &gen.NImport{Tpl: str("nomacros"), Alias: "L"}, call("L", "m", "b"), tx("never")}
	}, func() []gen.Node {
		return []gen.Node{tx("a"), &gen.NImport{Tpl: str("nomacros"), Alias: "E"}, tx("b"), call("E", "anything", "x"), tx("never")}
	}, func() []gen.Node {
		return []gen.Node{&gen.NImport{Tpl: str("lib"), Alias: "L"}, &gen.NFor{Val: "i", Seq: &gen.EArr{Els: []gen.Expr{num(1), num(2)}}, Body: []gen.Node{call("L", "m", "a"), &gen.NImport{Tpl: str("nomacros"), Alias: "L"}}}, tx("never")}
	})
}

func (p *c11) buildSpecial(j int) (*Program, string) {
	ts := map[string]*gen.Template{"main": tpl("main", c11Special[j]()...), "lib": tpl("lib", c11macro("m", 1)),
		"nomacros": tpl("nomacros", tx("no macros here"), &gen.NBlock{Name: "nb", Body: []gen.Node{tx("nor here")}}),
		"lib3":     tpl("lib3", &gen.NMacro{Name: "frame", Params: []string{"t"}, Body: []gen.Node{tx("["), pr(nm("t")), tx(":"), pr(&gen.EBlockFn{Name: str("b")}), tx("]")}}),
		"lib2": tpl("lib2", c11macro("top", 1), &gen.NIf{Conds: []gen.Expr{&gen.EBool{V: true}}, Bodies: [][]gen.Node{{c11macro("inif", 1)}}}, &gen.NBlock{Name: "blk", Body: []gen.Node{c11macro("inblock", 1)}},
			&gen.NFor{Val: "i", Seq: &gen.EArr{Els: []gen.Expr{num(1)}}, Body: []gen.Node{c11macro("infor", 1)}})}
	return &Program{Templates: ts, Main: "main", Ctx: map[string]interface{}{}}, fmt.Sprintf("special/%d", j)
}

func (p *c11) build(i int) (*Program, string) {
	if i >= p.nEnum+p.nUnknown+p.nRec+p.nMany+p.nRand+c11nNames {
		return p.buildSpecial(i - (p.nEnum + p.nUnknown + p.nRec + p.nMany + p.nRand + c11nNames))
	}
	if i >= p.nEnum+p.nUnknown+p.nRec+p.nMany+p.nRand {
		return p.buildNames(i - (p.nEnum + p.nUnknown + p.nRec + p.nMany + p.nRand))
	}
	switch {
	case i < p.nEnum:
		return p.buildEnum(i)
	case i < p.nEnum+p.nUnknown:
		return p.buildUnknown(i - p.nEnum)
	case i < p.nEnum+p.nUnknown+p.nRec:
		return p.buildRec(i - p.nEnum - p.nUnknown)
	case i < p.nEnum+p.nUnknown+p.nRec+p.nMany:
		return p.buildMany(i - p.nEnum - p.nUnknown - p.nRec)
	}
	return p.buildRand(i)
}

func (p *c11) Describe(i int) interface{} {
	if i >= p.N()-2 {
		d := c11FromTwice(i - (p.N() - 2)).describe()
		d["case"] = "one macro from-imported under two names"
		return d
	}
	prog, sig := p.build(i)
	d := prog.describe()
	d["case"] = sig
	return d
}

// c11FromTwice: one macro from-imported under two names in one statement - both names call it.
func c11FromTwice(j int) *Program {
	names := [][2]string{{"m", "a"}, {"m", "b"}}
	first := gen.Expr(&gen.ECall{Fn: "a", Args: []gen.Expr{str("1")}})
	if j == 1 {
		names[0][1] = "m"
		first = &gen.ECall{Fn: "m", Args: []gen.Expr{str("1")}}
	}
	ts := map[string]*gen.Template{"main": tpl("main", &gen.NFrom{Tpl: str("lib"), Names: names}, pr(first), tx("|"), pr(&gen.ECall{Fn: "b", Args: []gen.Expr{str("2")}})), "lib": tpl("lib", c11macro("m", 1))}
	return &Program{Templates: ts, Main: "main", Ctx: map[string]interface{}{}}
}

func (p *c11) runFromTwice(res *fw.Result, j int) {
	prog := c11FromTwice(j)
	lib := runLib(prog, gen.Canon{}, false)
	mod, _, inRegion, why := runModel(prog)
	res.Evals = 1
	res.AddClass("from-import-twice")
	res.UniqueNT = 1
	switch {
	case !inRegion:
		res.Fail("harness", "c11:from-twice:oor", "case left the model's region: "+why, prog.describe())
	case lib.pan != nil:
		res.Fail("panic", "c11:from-twice:panic", fmt.Sprintf("Execute panicked: %v", lib.pan), prog.describe())
	case lib.err == nil && lib.out == mod.out:
	case lib.err != nil && strings.Contains(lib.err.Error(), "ndeclared function") && lib.out == "":
		// the failure on record (known_findings.json): the statement keeps one name per macro
		res.Fail("output", "c11:from-import-of-one-macro-under-two-names", fmt.Sprintf("implementation error: %v; reference model output %q", lib.err, mod.out), prog.describe())
	default:
		res.Fail("output", fmt.Sprintf("c11:from-twice:%d", j), fmt.Sprintf("output %q (error: %v), reference model %q", lib.out, lib.err, mod.out), prog.describe())
	}
}

func (p *c11) Run(i int) (res fw.Result) {
	if i >= p.N()-2 {
		p.runFromTwice(&res, i-(p.N()-2))
		return
	}
	prog, sig := p.build(i)
	// every third case is written with a line break between any two tokens (m ( 'a' , 2 )), every third without
	// any blank that can be left out: a call is a call however it is laid out
	var pol gen.Policy = gen.Canon{}
	switch i % 3 {
	case 1:
		pol = gen.Wide{}
	case 2:
		pol = gen.Tight{}
	}
	lib, mod, ok := modelCase(&res, "c11:"+sig+fmt.Sprintf("#%d", i), prog, pol, true)
	if !ok {
		res.Fail("harness", "c11:oor:"+sig, "case left the model's region", prog.describe())
		return
	}
	if i >= p.nEnum && i < p.nEnum+p.nUnknown && (mod.err == nil || lib.err == nil) {
		res.Fail("unknown-macro", "c11:"+sig, fmt.Sprintf("calling/importing an unknown macro did not fail (implementation error %v, output %q)", lib.err, lib.out), prog.describe())
	}
	if i < p.nEnum {
		// the call forms must agree with each other: compare with form 0 of the same coordinates
		use := i % len(c11Uses)
		rest := i / len(c11Uses)
		form := rest % len(c11Forms)
		if form != 0 && use != 8 {
			j := (rest-form)*len(c11Uses) + use
			p0, _ := p.buildEnum(j)
			lib0 := runLib(p0, gen.Canon{}, false)
			res.Evals = 2
			if lib0.out != lib.out || (lib0.err == nil) != (lib.err == nil) {
				res.Fail("forms-differ", "c11:forms:"+sig, fmt.Sprintf("form %s renders %q (err %v) but _self.m renders %q (err %v)", c11Forms[form], lib.out, lib.err, lib0.out, lib0.err), prog.describe())
			}
		}
		res.UniqueNT = 1
	} else if i >= p.nEnum+p.nUnknown+p.nRec+p.nMany+p.nRand {
		res.AddClass("special-names")
		res.UniqueNT = 1
	} else if i >= p.nEnum+p.nUnknown+p.nRec+p.nMany {
		res.Sigs = append(res.Sigs, sig)
	}
	return
}

func (p *c11) Rule() string {
	return p.ruleBase() + " " + "Round 12: macro names templateName, TemplateName, name, Name, keys, String, _self (names of attributes of _self and of methods) in the names family."
}

func (p *c11) ruleBase() string {
	return "exhaustive: parameters 0..4 x arguments 0..6 x call form {_self.m, alias.m, from-import m, from-import m as n, from-import m under the name of a registered function} x use of the result {printed, assigned and printed twice, concatenated, passed to a recording function and a filter, inside a loop, inside a set-capture and a filter section, twice in a row and concatenated with itself, in a loop and again after it, through ONE import statement executed three times with a computed library name, defined / imported and called inside a template entered through embed and include} (1750 cases, each compared with the reference model AND with the _self form of the same coordinates; a third of the cases spelled with a line break between any two tokens, a third without any dispensable blank); unknown macros (call on an import alias, with and without arguments, inside a loop; from-import of an unknown name, with alias; import of a missing template) must fail; terminating recursion (linear, two inner calls, mutual; depth 0..4; defined in the template or in a library that imports itself) where every level prints its parameters again after the inner call returned; random: 2..5 macros split between the template and a library, bodies calling earlier macros of the same home (acyclic), 1..4 calls in random forms and uses. Every macro body prints each parameter and calls a recording function, so binding by position, null for missing, dropping of surplus arguments and Context.Name() (defining template) are all visible. Non-trivial: all enumerated coordinates are distinct by construction; random cases by their call list."
}

func (p *c11) Assumptions() []string {
	return []string{"a macro called through an import does not refer to _self; macros are defined before the call; bodies only use their parameters (all stated exclusions)"}
}

func (p *c11) Floors(tier string) map[string]int64 {
	return map[string]int64{"callbacks_observed": 5000, "distinct_nontrivial": 800}
}
