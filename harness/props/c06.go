package props

import (
	"bytes"
	"fmt"
	"github.com/shopspring/decimal"
	"github.com/tyler-sommer/stick"
	"math"
	"math/rand"
	"strconv"
	"strings"

	"verifharness/fw"
	"verifharness/gen"
)

// C06 — conditionals and loops select and repeat bodies correctly.
type c06 struct {
	base
	enum  []func() (*Program, string)
	nRand int
}

func init() { fw.Register("C06", func() fw.Property { return &c06{} }) }

func (p *c06) ID() string       { return "C06" }
func (p *c06) Exhaustive() bool { return true }

var loopMeta = []string{"index", "index0", "revindex", "revindex0", "first", "last", "length"}

// loopProbe prints key, value and all loop metadata.
func loopProbe(key, val string, withParent bool) []gen.Node {
	var out []gen.Node
	out = append(out, tx("("))
	if key != "" {
		out = append(out, pr(nm(key)), tx("="))
	}
	out = append(out, pr(nm(val)), tx(";"))
	for _, m := range loopMeta {
		out = append(out, pr(attr(nm("loop"), m)), tx(","))
	}
	if withParent {
		out = append(out, tx("p:"), pr(attr(attr(nm("loop"), "parent"), "index")), tx("/"), pr(attr(attr(nm("loop"), "parent"), "length")))
	}
	// everything the scope holds here: the loop defines its variables and "loop", nothing else
	out = append(out, tx("|n:"), pr(&gen.ECall{Fn: "names"}), tx(";"))
	out = append(out, tx(")"))
	return out
}

type seqKind struct {
	name string
	// build returns the sequence expression and the context entries for length n
	build func(n int) (gen.Expr, map[string]interface{})
	maxN  int
}

type c06truth struct {
	label string
	v     interface{}
	want  bool
}

func c06Truth() []c06truth {
	i5, s := 5, "s"
	var np *int
	return []c06truth{
		{"int -1", -1, false}, {"int64 -5", int64(-5), false}, {"float -2.5", -2.5, false}, {"float -0", math.Copysign(0, -1), false}, {"float 1e-300", 1e-300, true}, {"NaN", math.NaN(), false}, {"+Inf", math.Inf(1), true}, {"-Inf", math.Inf(-1), false},
		{"uint8 0", uint8(0), false}, {"uint8 200", uint8(200), true}, {"int8 -128", int8(-128), false}, {"uint64 max", uint64(math.MaxUint64), true}, {"float32 0.5", float32(0.5), true}, {"float32 0", float32(0), false},
		{"decimal 0", decimal.Zero, false}, {"decimal -1", decimal.NewFromInt(-1), false}, {"decimal -0.5", decimal.NewFromFloat(-0.5), false}, {"decimal 2.5", decimal.NewFromFloat(2.5), true}, {"decimal 1e-9", decimal.New(1, -9), true},
		{"string 0", "0", true}, {"string blank", " ", true}, {"string false", "false", true}, {"string NUL", "\x00", true},
		{"Stringer s", gen.ValStringer{S: "s"}, true}, {"Stringer empty", gen.ValStringer{S: ""}, false}, {"Number 2", gen.ValNumber{N: 2}, true}, {"Number -2", gen.ValNumber{N: -2}, false}, {"Number 0", gen.ValNumber{N: 0}, false},
		{"Stringer 'settled' + Number 0", gen.StrNum{S: "settled", N: 0}, true}, {"Stringer '' + Number 5", gen.StrNum{S: "", N: 5}, false}, {"Number 0 + Boolean true", gen.NumBool{N: 0, B: true}, true}, {"Number 3 + Boolean false", gen.NumBool{N: 3, B: false}, false},
		{"Boolean true", gen.ValBoolean{B: true}, true}, {"Boolean false", gen.ValBoolean{B: false}, false},
		{"defined bool", gen.NamedBool(true), true}, {"defined int 0", gen.KeyInt(0), false}, {"defined int -3", gen.KeyInt(-3), false}, {"defined string", gen.KeyStr("x"), true}, {"defined empty string", gen.KeyStr(""), false}, {"defined float", gen.NamedF64(0.25), true},
		{"safe true", stick.NewSafeValue(true, "html"), true}, {"safe empty", stick.NewSafeValue("", "html"), false}, {"safe -1", stick.NewSafeValue(-1, "js"), false}, {"safe decimal -1", stick.NewSafeValue(decimal.NewFromInt(-1), "html"), false},
		{"slice", []int{1}, false}, {"empty slice", []int{}, false}, {"map", map[string]int{"a": 1}, false}, {"struct", gen.Inner{Name: "n"}, false}, {"*int", &i5, false}, {"*string", &s, false}, {"nil *int", np, false}, {"func", func() {}, false},
	}
}

func c06SeqKinds() []seqKind {
	mkInts := func(n int) []int {
		s := make([]int, n)
		for i := range s {
			s[i] = 10 + i
		}
		return s
	}
	return []seqKind{
		{"array-literal", func(n int) (gen.Expr, map[string]interface{}) {
			els := make([]gen.Expr, n)
			for i := range els {
				els[i] = num(10 + i)
			}
			return &gen.EArr{Els: els}, nil
		}, 8},
		{"range", func(n int) (gen.Expr, map[string]interface{}) {
			if n == 0 {
				return &gen.EArr{}, nil
			}
			return &gen.EGroup{X: &gen.EBin{Op: "..", L: num(3), R: num(3 + n - 1)}}, nil
		}, 8},
		{"range-bare", func(n int) (gen.Expr, map[string]interface{}) {
			if n == 0 {
				return &gen.EArr{}, nil
			}
			return &gen.EBin{Op: "..", L: num(3), R: num(3 + n - 1)}, nil
		}, 8},
		{"[]int", func(n int) (gen.Expr, map[string]interface{}) {
			return nm("seq"), map[string]interface{}{"seq": mkInts(n)}
		}, 8},
		{"[]string", func(n int) (gen.Expr, map[string]interface{}) {
			s := make([]string, n)
			for i := range s {
				s[i] = "s" + strconv.Itoa(i)
			}
			return nm("seq"), map[string]interface{}{"seq": s}
		}, 8},
		{"[]Value", func(n int) (gen.Expr, map[string]interface{}) {
			s := make([]interface{}, n)
			for i := range s {
				if i%2 == 0 {
					s[i] = i + 1
				} else {
					s[i] = "v" + strconv.Itoa(i)
				}
			}
			return nm("seq"), map[string]interface{}{"seq": s}
		}, 8},
		{"*[]int", func(n int) (gen.Expr, map[string]interface{}) {
			s := mkInts(n)
			return nm("seq"), map[string]interface{}{"seq": &s}
		}, 8},
		{"[3]int", func(n int) (gen.Expr, map[string]interface{}) {
			return nm("seq"), map[string]interface{}{"seq": [3]int{7, 8, 9}}
		}, 0},
		{"single-entry map", func(n int) (gen.Expr, map[string]interface{}) {
			return nm("seq"), map[string]interface{}{"seq": map[string]interface{}{"onlykey": "onlyval"}}
		}, 0},
		{"hash-literal", func(n int) (gen.Expr, map[string]interface{}) {
			return &gen.EGroup{X: &gen.EHash{Keys: []gen.Expr{str("hk")}, Vals: []gen.Expr{str("hv")}}}, nil
		}, 0},
		{"nil", func(n int) (gen.Expr, map[string]interface{}) { return nm("seq"), map[string]interface{}{"seq": nil} }, 0},
		{"null-literal", func(n int) (gen.Expr, map[string]interface{}) { return &gen.ENull{}, nil }, 0},
		{"empty map", func(n int) (gen.Expr, map[string]interface{}) {
			return nm("seq"), map[string]interface{}{"seq": map[string]interface{}{}}
		}, 0},
	}
}

func mkProg(ctx map[string]interface{}, body ...gen.Node) *Program {
	if ctx == nil {
		ctx = map[string]interface{}{}
	}
	// the context has variables named like the loops' own variables: inside a loop body, at any depth, the
	// loop's variable is the one that counts
	for _, n := range []string{"o", "v", "k", "i", "w", "u"} {
		if _, ok := ctx[n]; !ok {
			ctx[n] = "ctx-" + n
		}
	}
	return &Program{Templates: map[string]*gen.Template{"main": tpl("main", body...)}, Main: "main", Ctx: ctx}
}

func (p *c06) Init(tier string, seed int64) {
	p.tier, p.seed = tier, seed
	p.nRand = p.pick(15000, 400000)
	// --- if chains: every shape (<=3 elseif, optional else) x every truth assignment ---
	for nelif := 0; nelif <= 3; nelif++ {
		for _, hasElse := range []bool{false, true} {
			nc := 1 + nelif
			for mask := 0; mask < 1<<nc; mask++ {
				nelif, hasElse, mask := nelif, hasElse, mask
				p.enum = append(p.enum, func() (*Program, string) {
					n := &gen.NIf{HasElse: hasElse}
					ctx := map[string]interface{}{}
					for i := 0; i < nc; i++ {
						cn := "c" + strconv.Itoa(i)
						ctx[cn] = mask&(1<<i) != 0
						n.Conds = append(n.Conds, nm(cn))
						n.Bodies = append(n.Bodies, []gen.Node{tx("B" + strconv.Itoa(i))})
					}
					if hasElse {
						n.Else = []gen.Node{tx("ELSE")}
					}
					return mkProg(ctx, tx("<"), n, tx(">")), fmt.Sprintf("if/elif=%d/else=%v/mask=%d", nelif, hasElse, mask)
				})
			}
		}
	}
	// ... and the same chains with traps: every body but the selected one, every condition behind the selected one
	// and the else branch when a branch is selected hold something that fails when it is evaluated (an unknown test,
	// function or filter, a modulo by zero). What is not selected is not evaluated, so none of them may show.
	traps := []func() gen.Expr{
		func() gen.Expr { return &gen.ETest{X: num(1), Test: "nosuchtest"} },
		func() gen.Expr { return &gen.ECall{Fn: "nosuchfunction"} },
		func() gen.Expr { return &gen.EFilter{X: num(1), Name: "nosuchfilter"} },
		func() gen.Expr { return &gen.EGroup{X: &gen.EBin{Op: "%", L: num(1), R: num(0)}} },
		func() gen.Expr {
			return &gen.ETest{X: num(1), Not: true, Test: "nosuchtest2", Args: []gen.Expr{num(2)}}
		},
	}
	for nelif := 0; nelif <= 3; nelif++ {
		for _, hasElse := range []bool{false, true} {
			nc := 1 + nelif
			for mask := 0; mask < 1<<nc; mask++ {
				nelif, hasElse, mask := nelif, hasElse, mask
				p.enum = append(p.enum, func() (*Program, string) {
					n := &gen.NIf{HasElse: hasElse}
					ctx := map[string]interface{}{}
					sel := nc
					for i := nc - 1; i >= 0; i-- {
						if mask&(1<<i) != 0 {
							sel = i
						}
					}
					for i := 0; i < nc; i++ {
						cn := "c" + strconv.Itoa(i)
						ctx[cn] = mask&(1<<i) != 0
						trap := traps[(i+mask+nelif)%len(traps)]()
						switch {
						case i > sel:
							n.Conds = append(n.Conds, trap)
						default:
							n.Conds = append(n.Conds, nm(cn))
						}
						body := []gen.Node{tx("B" + strconv.Itoa(i))}
						if i != sel {
							body = append(body, pr(traps[(i+mask+1)%len(traps)]()), &gen.NFor{Val: "q", Seq: trap, Body: []gen.Node{tx("q")}})
						}
						n.Bodies = append(n.Bodies, body)
					}
					if hasElse {
						n.Else = []gen.Node{tx("ELSE")}
						if sel < nc {
							n.Else = append(n.Else, pr(traps[mask%len(traps)]()))
						}
					}
					// loops whose bodies are never entered and whose else branches are never taken hold traps too
					empty := &gen.NFor{Val: "e", Seq: &gen.EArr{}, Body: []gen.Node{tx("never"), pr(traps[(mask+2)%len(traps)]())}, HasElse: true, Else: []gen.Node{tx("E")}}
					full := &gen.NFor{Val: "e", Seq: &gen.EArr{Els: []gen.Expr{num(1)}}, Body: []gen.Node{tx("F")}, HasElse: true, Else: []gen.Node{tx("never"), pr(traps[(mask+3)%len(traps)]())}}
					none := &gen.NFor{Val: "e", Seq: &gen.EArr{Els: []gen.Expr{num(1), num(2)}}, Cond: &gen.EBool{V: false}, Body: []gen.Node{tx("never"), pr(traps[(mask+4)%len(traps)]())}}
					return mkProg(ctx, tx("<"), n, tx("|"), empty, full, none, tx(">")), fmt.Sprintf("if-traps/elif=%d/else=%v/mask=%d", nelif, hasElse, mask)
				})
			}
		}
	}
	// what stands in an else branch: an if statement of its own first, last, twice, alone - followed and preceded by
	// other content. An else branch that begins with an if is no elseif: everything in it belongs to it
	for shape := 0; shape < 9; shape++ {
		for mask := 0; mask < 8; mask++ {
			shape, mask := shape, mask
			p.enum = append(p.enum, func() (*Program, string) {
				ctx := map[string]interface{}{"a": mask&1 != 0, "b": mask&2 != 0, "c": mask&4 != 0}
				ifb := func() *gen.NIf { return &gen.NIf{Conds: []gen.Expr{nm("b")}, Bodies: [][]gen.Node{{tx("B")}}} }
				ifc := func() *gen.NIf { return &gen.NIf{Conds: []gen.Expr{nm("c")}, Bodies: [][]gen.Node{{tx("E")}}} }
				var els []gen.Node
				switch shape {
				case 0:
					els = []gen.Node{ifb(), tx("C")}
				case 1:
					n := ifb()
					n.HasElse, n.Else = true, []gen.Node{tx("D")}
					els = []gen.Node{n, tx("C")}
				case 2:
					n := ifb()
					n.Conds, n.Bodies = append(n.Conds, nm("c")), append(n.Bodies, []gen.Node{tx("E")})
					els = []gen.Node{n, tx("C"), pr(nm("a"))}
				case 3:
					els = []gen.Node{tx("C"), ifb()}
				case 4:
					els = []gen.Node{ifb(), ifc()}
				case 5:
					els = []gen.Node{ifb(), &gen.NSet{Name: "z", X: num(1)}, pr(nm("z")), ifc(), tx("C")}
				case 6:
					els = []gen.Node{&gen.NComment{S: " first "}, ifb(), tx("C")}
				case 7:
					inner := ifc()
					inner.HasElse, inner.Else = true, []gen.Node{ifb(), tx("G")}
					els = []gen.Node{inner, tx("C")}
				case 8:
					els = []gen.Node{ifb()}
				}
				one := &gen.NIf{Conds: []gen.Expr{nm("a")}, Bodies: [][]gen.Node{{tx("A")}}, HasElse: true, Else: els}
				two := &gen.NIf{Conds: []gen.Expr{nm("a"), &gen.EBin{Op: "and", L: nm("a"), R: nm("c")}}, Bodies: [][]gen.Node{{tx("A")}, {tx("never")}}, HasElse: true, Else: els}
				loop := &gen.NFor{Val: "i", Seq: &gen.EArr{}, Body: []gen.Node{tx("never")}, HasElse: true, Else: els}
				return mkProg(ctx, tx("<"), one, tx("|"), two, tx("|"), loop, tx(">")), fmt.Sprintf("else-body/shape=%d/mask=%d", shape, mask)
			})
		}
	}
	// truthiness of condition values of every scalar class
	for ci, cv := range []interface{}{true, false, 1, 0, 2.5, "a", "", nil, "x y"} {
		ci, cv := ci, cv
		p.enum = append(p.enum, func() (*Program, string) {
			n := &gen.NIf{Conds: []gen.Expr{nm("c")}, Bodies: [][]gen.Node{{tx("T")}}, HasElse: true, Else: []gen.Node{tx("F")}}
			return mkProg(map[string]interface{}{"c": cv}, n), fmt.Sprintf("if/truth/%d", ci)
		})
	}
	// ... and of every carrier of a condition value the library knows, against the documented rule written out by
	// hand (numbers: greater than zero; strings and Stringers: not empty; Boolean: what it says; containers,
	// structs, nil: false; a safe wrapper: what it wraps)
	for ci, tc := range c06Truth() {
		ci, tc := ci, tc
		p.enum = append(p.enum, func() (*Program, string) {
			c := nm("c")
			tf := func(e gen.Expr) gen.Node {
				return &gen.NIf{Conds: []gen.Expr{e}, Bodies: [][]gen.Node{{tx("T")}}, HasElse: true, Else: []gen.Node{tx("F")}}
			}
			body := []gen.Node{tf(c), tx("|"), tf(&gen.EUn{Op: "not", X: c}), tx("|"), pr(&gen.ETern{C: c, A: str("T"), B: str("F")}), tx("|"),
				&gen.NFor{Val: "x", Seq: &gen.EArr{Els: []gen.Expr{num(1), num(2)}}, Cond: c, Body: []gen.Node{tx("y")}}, tx("|"),
				&gen.NIf{Conds: []gen.Expr{nm("f"), c}, Bodies: [][]gen.Node{{tx("a")}, {tx("b")}}, HasElse: true, Else: []gen.Node{tx("d")}}, tx("|"),
				tf(&gen.EBin{Op: "and", L: c, R: &gen.EBool{V: true}}), tx("|"), tf(&gen.EBin{Op: "or", L: &gen.EBool{V: false}, R: c})}
			return mkProg(map[string]interface{}{"c": tc.v, "f": false}, body...), fmt.Sprintf("if/truth-carrier/%d/%s", ci, tc.label)
		})
	}
	// maps and hash literals with several entries: the order of the entries is Go's, the loop fields are not
	for n := 2; n <= 5; n++ {
		for kind := 0; kind < 3; kind++ {
			n, kind := n, kind
			p.enum = append(p.enum, func() (*Program, string) {
				return nil, fmt.Sprintf("for/multi-entry/%d/%d", kind, n)
			})
		}
	}
	// long loops: the bookkeeping at and around passes 128, 256, 1000, 1024, 4096, and scopes 14 / 40 loops deep
	for _, n := range []int{127, 128, 129, 255, 256, 257, 999, 1000, 1001, 1024, 1025, 4097} {
		for kind := 0; kind < 3; kind++ {
			n, kind := n, kind
			p.enum = append(p.enum, func() (*Program, string) { return nil, fmt.Sprintf("for/long/%d/%d", kind, n) })
		}
	}
	for _, d := range []int{8, 11, 12, 13, 14, 17, 33, 40} {
		d := d
		p.enum = append(p.enum, func() (*Program, string) { return nil, fmt.Sprintf("for/deep/%d", d) })
	}
	// the element a loop hands to its body is the element an index finds: structs whose String / Number / Boolean
	// methods have pointer receivers (the value has none of them, a pointer to it has all)
	for k := 0; k < 5; k++ {
		k := k
		p.enum = append(p.enum, func() (*Program, string) { return nil, fmt.Sprintf("for/struct-elements/%d", k) })
	}
	// --- loops: sequence kind x length x form ---
	for _, sk := range c06SeqKinds() {
		for n := 0; n <= sk.maxN; n++ {
			for form := 0; form < 7; form++ {
				sk, n, form := sk, n, form
				p.enum = append(p.enum, func() (*Program, string) {
					seq, ctx := sk.build(n)
					f := &gen.NFor{Val: "v", Seq: seq}
					switch form {
					case 6:
						// the loop stands in a template that is included (then embedded) from inside a loop of the
						// host: the host's loop is the parent of this one
						f.Body = loopProbe("", "v", true)
						outer := &gen.NFor{Key: "ok", Val: "o", Seq: &gen.EArr{Els: []gen.Expr{str("x"), str("y")}}, Body: []gen.Node{tx("["), pr(nm("o")), &gen.NInclude{Tpl: str("inc")}, tx("/"), &gen.NEmbed{Tpl: str("inc")}, tx("]")}}
						prog := mkProg(ctx, outer, tx("|"), &gen.NInclude{Tpl: str("inc2")})
						prog.Templates["inc"] = tpl("inc", tx("<"), f, tx(">"))
						prog.Templates["inc2"] = tpl("inc2", tx("<"), &gen.NFor{Val: "v", Seq: seq, Body: loopProbe("", "v", false)}, tx(">"))
						return prog, fmt.Sprintf("for/%s/n=%d/in-a-template-included-from-a-loop", sk.name, n)
					case 4, 5:
						// the loop stands in a layout and its body is a block (form 5: inside an outer loop, with
						// nothing but text next to the block); what looks at the loop's variables is the override
						// in the extending template - nothing in the loop's own body mentions them
						f.Body = []gen.Node{tx("["), &gen.NBlock{Name: "row", Body: []gen.Node{tx("base-row")}}, tx("]")}
						lay := []gen.Node{tx("<"), f, tx(">")}
						if form == 5 {
							f.Key = "k"
							lay = []gen.Node{tx("<"), &gen.NFor{Val: "o", Seq: &gen.EArr{Els: []gen.Expr{str("x"), str("y")}}, Body: []gen.Node{tx("(:"), f, tx(":)")}}, tx(">")}
						}
						over := []gen.Node{pr(nm("v")), tx(";")}
						for _, m := range loopMeta {
							over = append(over, pr(attr(nm("loop"), m)), tx(","))
						}
						if form == 5 {
							over = append(over, tx("k="), pr(nm("k")), tx("p:"), pr(attr(attr(nm("loop"), "parent"), "index")), tx("/"), pr(attr(attr(nm("loop"), "parent"), "length")), tx("^"), pr(&gen.EParent{}))
						}
						prog := mkProg(ctx, &gen.NExtends{Tpl: str("lay")}, &gen.NBlock{Name: "row", Body: over})
						prog.Templates["lay"] = tpl("lay", lay...)
						return prog, fmt.Sprintf("for/%s/n=%d/body-is-an-overridden-block/%d", sk.name, n, form)
					case 0:
						f.Body = loopProbe("", "v", false)
					case 1:
						f.Key = "k"
						f.Body = loopProbe("k", "v", false)
					case 2:
						f.Body = loopProbe("", "v", false)
						f.HasElse = true
						f.Else = []gen.Node{tx("EMPTY")}
					case 3:
						// nested: outer loop over 2 elements, inner the sequence, loop.parent checked
						f.Body = append([]gen.Node{pr(nm("o")), tx("/"), pr(nm("ok")), tx(":")}, loopProbe("", "v", true)...)
						outer := &gen.NFor{Key: "ok", Val: "o", Seq: &gen.EArr{Els: []gen.Expr{str("x"), str("y")}}, Body: []gen.Node{tx("["), pr(nm("o")), f, tx("]"), pr(nm("v"))}}
						return mkProg(ctx, outer), fmt.Sprintf("for/%s/n=%d/nested", sk.name, n)
					}
					return mkProg(ctx, tx("<"), f, tx(">")), fmt.Sprintf("for/%s/n=%d/form=%d", sk.name, n, form)
				})
			}
		}
	}
	// --- inline if: every element mask for n<=5 (only the selected elements are checked) ---
	for n := 1; n <= 5; n++ {
		for mask := 0; mask < 1<<n; mask++ {
			n, mask := n, mask
			p.enum = append(p.enum, func() (*Program, string) {
				flags := make([]interface{}, n)
				for i := range flags {
					flags[i] = mask&(1<<i) != 0
				}
				// sequence of indices; condition looks the flag up
				f := &gen.NFor{Val: "i", Seq: &gen.EGroup{X: &gen.EBin{Op: "..", L: num(0), R: num(n - 1)}},
					Cond: &gen.EAttr{X: nm("flags"), Key: nm("i")}, Body: []gen.Node{tx("("), pr(nm("i")), tx(")")}}
				if mask == 0 {
					// fully filtered, non-empty sequence: the else branch is not claimed either way; leave it out
				}
				return mkProg(map[string]interface{}{"flags": flags}, tx("<"), f, tx(">")), fmt.Sprintf("forif/n=%d/mask=%d", n, mask)
			})
		}
	}
	// inline if over a Go slice with a comparison condition
	for thr := 0; thr <= 4; thr++ {
		thr := thr
		p.enum = append(p.enum, func() (*Program, string) {
			f := &gen.NFor{Key: "k", Val: "v", Seq: nm("arr"), Cond: &gen.EBin{Op: ">", L: nm("v"), R: num(thr)}, Body: []gen.Node{tx("("), pr(nm("k")), tx(":"), pr(nm("v")), tx(")")}}
			return mkProg(map[string]interface{}{"arr": []int{3, 1, 4, 1, 5}}, f), fmt.Sprintf("forif/cmp/%d", thr)
		})
	}
	// --- a loop record that is kept keeps describing the element it was taken at ---
	for _, sk := range c06SeqKinds() {
		if sk.name == "nil" || sk.name == "null-literal" || sk.name == "empty map" {
			continue
		}
		for n := 1; n <= sk.maxN || n == 1; n++ {
			for at := 0; at < 2; at++ {
				for form := 0; form < 2; form++ {
					sk, n, at, form := sk, n, at, form
					p.enum = append(p.enum, func() (*Program, string) {
						seq, ctx := sk.build(n)
						keepProbe := func() []gen.Node {
							var out []gen.Node
							for _, m := range []string{"index", "revindex0", "first", "last", "length"} {
								out = append(out, pr(attr(nm("keep"), m)), tx(","))
							}
							return out
						}
						f := &gen.NFor{Val: "v", Seq: seq}
						var src gen.Expr = nm("loop")
						if form == 1 {
							src = attr(nm("loop"), "parent")
						}
						f.Body = append(f.Body, &gen.NIf{Conds: []gen.Expr{&gen.EBin{Op: "==", L: attr(nm("loop"), "index0"), R: num(at)}},
							Bodies: [][]gen.Node{{&gen.NSet{Name: "keep", X: src}}}})
						f.Body = append(f.Body, tx("("))
						f.Body = append(f.Body, pr(nm("v")), tx(":"))
						f.Body = append(f.Body, &gen.NIf{Conds: []gen.Expr{&gen.EBin{Op: ">=", L: attr(nm("loop"), "index0"), R: num(at)}}, Bodies: [][]gen.Node{keepProbe()}})
						f.Body = append(f.Body, tx(")"))
						var after []gen.Node
						if at < n || (sk.maxN == 0 && at == 0) {
							after = append([]gen.Node{tx("after:")}, keepProbe()...)
						}
						init := &gen.NSet{Name: "keep", X: num(0)}
						if form == 1 {
							outer := &gen.NFor{Val: "o", Seq: &gen.EArr{Els: []gen.Expr{str("x"), str("y"), str("z")}}, Body: []gen.Node{tx("["), pr(nm("o")), f, tx("]")}}
							return mkProg(ctx, append([]gen.Node{init, outer}, after...)...), fmt.Sprintf("for/keep-parent/%s/n=%d/at=%d", sk.name, n, at)
						}
						return mkProg(ctx, append([]gen.Node{init, tx("<"), f, tx(">")}, after...)...), fmt.Sprintf("for/keep/%s/n=%d/at=%d", sk.name, n, at)
					})
				}
			}
		}
	}
	// --- inline if whose condition reads the loop record of the element under test ---
	for n := 1; n <= 5; n++ {
		for mask := 0; mask < 1<<n; mask++ {
			for form := 0; form < 3; form++ {
				n, mask, form := n, mask, form
				p.enum = append(p.enum, func() (*Program, string) {
					flags := make([]interface{}, n+1)
					els := make([]gen.Expr, n)
					for i := 0; i < n; i++ {
						flags[i] = mask&(1<<i) != 0
						els[i] = str("e" + strconv.Itoa(i))
					}
					flags[n] = false
					var cond gen.Expr
					switch form {
					case 0:
						cond = &gen.EAttr{X: nm("flags"), Key: attr(nm("loop"), "index0")}
					case 1: // revindex: position counted from the end
						cond = &gen.EAttr{X: nm("flags"), Key: &gen.EGroup{X: &gen.EBin{Op: "-", L: num(n), R: attr(nm("loop"), "revindex")}}}
					default: // first / last
						cond = &gen.EBin{Op: "or", L: &gen.EGroup{X: &gen.EBin{Op: "and", L: attr(nm("loop"), "first"), R: &gen.EAttr{X: nm("flags"), Key: num(0)}}},
							R: &gen.EGroup{X: &gen.EBin{Op: "and", L: attr(nm("loop"), "last"), R: &gen.EAttr{X: nm("flags"), Key: num(n - 1)}}}}
					}
					f := &gen.NFor{Val: "v", Seq: &gen.EArr{Els: els}, Cond: cond, Body: []gen.Node{tx("("), pr(nm("v")), tx(")")}}
					// nested in an outer loop of another length, so that the enclosing loop's record is a different one
					outer := &gen.NFor{Val: "o", Seq: &gen.EArr{Els: []gen.Expr{str("x"), str("y")}}, Body: []gen.Node{tx("["), pr(nm("o")), f, tx("]")}}
					return mkProg(map[string]interface{}{"flags": flags}, tx("<"), f, tx(">"), outer), fmt.Sprintf("forif/loopcond/n=%d/mask=%d/form=%d", n, mask, form)
				})
			}
		}
	}
	// --- non-iterables must be an error, wherever the loop stands ---
	for _, sk := range c06SeqKinds() {
		if sk.name == "nil" || sk.name == "null-literal" || sk.name == "empty map" {
			continue
		}
		for ni, v := range []interface{}{5, "str", gen.NewThing(), ""} {
			for where := 0; where < 3; where++ {
				sk, ni, v, where := sk, ni, v, where
				p.enum = append(p.enum, func() (*Program, string) {
					seq, ctx := sk.build(2)
					if ctx == nil {
						ctx = map[string]interface{}{}
					}
					ctx["bad"] = v
					bad := &gen.NFor{Val: "w", Seq: nm("bad"), Body: []gen.Node{tx("x")}}
					var inner gen.Node = bad
					switch where {
					case 1:
						inner = &gen.NIf{Conds: []gen.Expr{&gen.EBool{V: true}}, Bodies: [][]gen.Node{{tx("i"), bad}}}
					case 2:
						inner = &gen.NFor{Val: "u", Seq: &gen.EArr{}, Body: []gen.Node{tx("never")}, HasElse: true, Else: []gen.Node{tx("e"), bad}}
					}
					outer := &gen.NFor{Key: "k", Val: "v", Seq: seq, Body: []gen.Node{tx("("), pr(nm("v")), inner, tx(")")}}
					return mkProg(ctx, tx("<"), outer, tx(">")), fmt.Sprintf("for/noniterable-in/%s/%d/%d", sk.name, ni, where)
				})
			}
		}
	}
	// --- non-iterables must be an error ---
	for ni, v := range []interface{}{5, 2.5, "str", true, struct{ A int }{1}, gen.NewThing(), "", " ", "0", 0, false, gen.KeyStr(""), gen.KeyInt(0), int8(0), 0.0} {
		ni, v := ni, v
		p.enum = append(p.enum, func() (*Program, string) {
			f := &gen.NFor{Val: "v", Seq: nm("seq"), Body: []gen.Node{tx("x")}, HasElse: true, Else: []gen.Node{tx("E")}}
			return mkProg(map[string]interface{}{"seq": v}, tx("<"), f, tx(">")), fmt.Sprintf("for/noniterable/%d", ni)
		})
		// ... whatever the loop would have done with the elements: nothing at all, say
		for shape := 0; shape < 5; shape++ {
			shape := shape
			p.enum = append(p.enum, func() (*Program, string) {
				f := &gen.NFor{Val: "v", Seq: nm("seq")}
				cm := func() []gen.Node { return []gen.Node{&gen.NComment{S: " nothing yet "}} }
				switch shape {
				case 1:
					f.Body = cm()
				case 2:
					f.HasElse = true
				case 3:
					f.Body, f.HasElse, f.Else = cm(), true, cm()
				case 4:
					f.Key, f.Body = "k", []gen.Node{&gen.NComment{S: " a "}, &gen.NComment{S: " b "}}
				}
				return mkProg(map[string]interface{}{"seq": v}, tx("<"), f, tx(">")), fmt.Sprintf("for/noniterable/%d/empty-body-%d", ni, shape)
			})
		}
	}
}

func (p *c06) N() int { return len(p.enum) + p.nRand }

// random nestings of if/for to depth 4 with conditions from the expression region
type c06gen struct {
	r     *rand.Rand
	eg    *gen.ExprGen
	seq   int
	loops int // current loop nesting
	shape []string
}

func (g *c06gen) cond() gen.Expr {
	return gen.FullParen(g.eg.Gen(gen.TBool, 1+g.r.Intn(2)))
}

func (g *c06gen) node(depth int) gen.Node {
	r := g.r
	g.seq++
	id := strconv.Itoa(g.seq)
	if depth <= 0 || r.Intn(5) == 0 {
		if depth > 0 && r.Intn(40) == 0 {
			// a loop over a number: the program must fail here, whatever encloses it
			g.shape = append(g.shape, "bad")
			return &gen.NFor{Val: "w" + id, Seq: nm("n1"), Body: []gen.Node{tx("never")}}
		}
		if g.loops > 0 && r.Intn(2) == 0 {
			return pr(attr(nm("loop"), loopMeta[r.Intn(len(loopMeta))]))
		}
		return tx("t" + id + ";")
	}
	if r.Intn(2) == 0 {
		n := &gen.NIf{}
		nc := 1 + r.Intn(3)
		for i := 0; i < nc; i++ {
			n.Conds = append(n.Conds, g.cond())
			n.Bodies = append(n.Bodies, g.body(depth-1))
		}
		if r.Intn(2) == 0 {
			n.HasElse = true
			n.Else = g.body(depth - 1)
		}
		g.shape = append(g.shape, fmt.Sprintf("if%d", nc))
		return n
	}
	ln := r.Intn(5)
	f := &gen.NFor{Val: "v" + id}
	if r.Intn(2) == 0 {
		f.Key = "k" + id
	}
	switch r.Intn(4) {
	case 0:
		els := make([]gen.Expr, ln)
		for i := range els {
			els[i] = gen.FullParen(g.eg.Gen(gen.TNum, 1))
		}
		f.Seq = &gen.EArr{Els: els}
	case 1:
		f.Seq = &gen.EGroup{X: &gen.EBin{Op: "..", L: num(1), R: num(ln)}}
		if ln == 0 {
			f.Seq = &gen.EArr{}
		}
	case 2:
		f.Seq = nm("arr1")
		ln = 3
	default:
		f.Seq = nm("arr2")
		ln = 0
	}
	if r.Intn(4) == 0 {
		// an inline condition over the element and the loop record; loop fields of a filtered loop are not printed
		// below it (stick and Twig count differently there)
		switch r.Intn(3) {
		case 0:
			f.Cond = &gen.EBin{Op: "==", L: &gen.EGroup{X: &gen.EBin{Op: "%", L: attr(nm("loop"), "index0"), R: num(2)}}, R: num(r.Intn(2))}
		case 1:
			f.Cond = &gen.EUn{Op: "not", X: attr(nm("loop"), []string{"first", "last"}[r.Intn(2)])}
		default:
			f.Cond = &gen.EBin{Op: "or", L: &gen.EGroup{X: g.cond()}, R: &gen.EGroup{X: &gen.EBin{Op: "<", L: attr(nm("loop"), "revindex"), R: num(2)}}}
		}
		saved := g.loops
		g.loops = 0
		f.Body = append([]gen.Node{tx("(" + id + ":"), pr(nm(f.Val))}, g.body(depth-1)...)
		f.Body = append(f.Body, tx(")"))
		g.loops = saved
		g.shape = append(g.shape, fmt.Sprintf("forif%d", ln))
		return f
	}
	g.loops++
	f.Body = append([]gen.Node{tx("(" + id + ":"), pr(nm(f.Val))}, g.body(depth-1)...)
	if g.loops > 1 && r.Intn(2) == 0 {
		// loop.parent, loop.parent.parent ... as far out as there are unfiltered loops
		var rec gen.Expr = nm("loop")
		for up := 1 + r.Intn(g.loops-1); up > 0; up-- {
			rec = attr(rec, "parent")
		}
		f.Body = append(f.Body, tx("^"), pr(attr(rec, loopMeta[r.Intn(len(loopMeta))])))
	}
	f.Body = append(f.Body, tx(")"))
	g.loops--
	if r.Intn(3) == 0 {
		f.HasElse = true
		f.Else = g.body(depth - 1)
	}
	g.shape = append(g.shape, fmt.Sprintf("for%d", ln))
	return f
}

func (g *c06gen) body(depth int) []gen.Node {
	n := 1 + g.r.Intn(3)
	var out []gen.Node
	for i := 0; i < n; i++ {
		out = append(out, g.node(depth))
	}
	return out
}

func (p *c06) build(i, attempt int) (*Program, string) {
	if i < len(p.enum) {
		return p.enum[i]()
	}
	r := gen.Rng(p.seed, "c06", i*17+attempt)
	eg := &gen.ExprGen{R: r}
	ctx := gen.StdContext(eg)
	g := &c06gen{r: r, eg: eg}
	body := g.body(1 + r.Intn(4))
	prog := &Program{Templates: map[string]*gen.Template{"main": tpl("main", body...)}, Main: "main", Ctx: ctx}
	return prog, "rand:" + strings.Join(g.shape, ",")
}

func (p *c06) Describe(i int) interface{} {
	prog, sig := p.build(i, 0)
	if prog == nil {
		return map[string]interface{}{"shape": sig}
	}
	d := prog.describe()
	d["shape"] = sig
	return d
}

func (p *c06) Run(i int) (res fw.Result) {
	if i < len(p.enum) {
		if _, sig := p.enum[i](); strings.HasPrefix(sig, "for/multi-entry/") {
			p.runMultiEntry(&res, sig)
			return
		} else if strings.HasPrefix(sig, "for/long/") {
			p.runLong(&res, sig)
			return
		} else if strings.HasPrefix(sig, "for/struct-elements/") {
			p.runStructElems(&res, sig)
			return
		} else if strings.HasPrefix(sig, "for/deep/") {
			p.runDeep(&res, sig)
			return
		}
	}
	if i < len(p.enum) {
		if prog, sig := p.enum[i](); strings.HasPrefix(sig, "if/truth-carrier/") {
			var ci int
			fmt.Sscanf(strings.TrimPrefix(sig, "if/truth-carrier/"), "%d", &ci)
			tc := c06Truth()[ci]
			want := "F|T|F||d|F|F"
			if tc.want {
				want = "T|F|T|yy|b|T|T"
			}
			pol, _ := layoutFor(sig)
			lib := runLib(prog, pol, false)
			res.UniqueNT = 1
			res.AddObs("exec_steps", lib.exSteps)
			res.AddClass("truth-carrier")
			if lib.pan != nil || lib.err != nil || lib.out != want {
				res.Fail("truthiness", "c06:"+sig, fmt.Sprintf("a condition holding %s (documented truth value: %v) renders %q (error %v, panic %v), want %q", tc.label, tc.want, lib.out, lib.err, lib.pan, want), prog.describe())
			}
			return
		}
	}
	for attempt := 0; attempt < 20; attempt++ {
		prog, sig := p.build(i, attempt)
		_, mod, ok := modelCase(&res, "c06:"+sig+fmt.Sprintf("#%d", i), prog, gen.Canon{}, false)
		if !ok {
			if i < len(p.enum) {
				res.Fail("harness", "c06:enum-out-of-region:"+sig, "enumerated case left the model's region: "+sig, prog.describe())
				return
			}
			continue
		}
		if i < len(p.enum) {
			res.UniqueNT = 1
			if strings.HasPrefix(sig, "for/noniterable") && mod.err == nil {
				res.Fail("harness", "c06:"+sig, "model did not flag a non-iterable", nil)
			}
		} else if strings.Count(sig, "for") >= 1 && strings.Count(sig, ",") >= 1 {
			res.Sigs = append(res.Sigs, sig)
		}
		return
	}
	return
}

// runMultiEntry: a loop over a Go map / a hash literal with n entries. Which entry comes when is not defined; the
// loop fields of the k-th iteration are, every key comes exactly once with its own value, and the else branch stays
// out.
func (p *c06) runMultiEntry(res *fw.Result, sig string) {
	var kind, n int
	fmt.Sscanf(strings.TrimPrefix(sig, "for/multi-entry/"), "%d/%d", &kind, &n)
	keys := []string{"ka", "kb", "kc", "kd", "ke"}[:n]
	ctx := map[string]interface{}{}
	var seq gen.Expr = nm("m")
	switch kind {
	case 0:
		m := map[string]interface{}{}
		for i, k := range keys {
			m[k] = 10 + i
		}
		ctx["m"] = m
	case 1:
		m := map[string]int{}
		for i, k := range keys {
			m[k] = 10 + i
		}
		ctx["m"] = &m
	default:
		h := &gen.EHash{}
		for i, k := range keys {
			h.Keys = append(h.Keys, str(k))
			h.Vals = append(h.Vals, num(10+i))
		}
		seq = h
	}
	body := []gen.Node{pr(nm("k")), tx("="), pr(nm("v")), tx(";")}
	for _, f := range loopMeta {
		body = append(body, pr(attr(nm("loop"), f)), tx(","))
	}
	body = append(body, tx("|"))
	prog := mkProg(ctx, &gen.NFor{Key: "k", Val: "v", Seq: seq, Body: body, HasElse: true, Else: []gen.Node{tx("EMPTY")}})
	pol, _ := layoutFor(sig)
	lib := runLib(prog, pol, false)
	res.UniqueNT = 1
	res.AddObs("exec_steps", lib.exSteps)
	res.AddClass("multi-entry-loop")
	bad := ""
	rows := strings.Split(strings.TrimSuffix(lib.out, "|"), "|")
	switch {
	case lib.pan != nil || lib.err != nil:
		bad = fmt.Sprintf("error %v, panic %v", lib.err, lib.pan)
	case len(rows) != n:
		bad = fmt.Sprintf("%d iterations", len(rows))
	default:
		seen := map[string]bool{}
		for i, row := range rows {
			kv, meta, _ := strings.Cut(row, ";")
			k, v, _ := strings.Cut(kv, "=")
			idx := -1
			for j, kk := range keys {
				if kk == k {
					idx = j
				}
			}
			b := func(x bool) string {
				if x {
					return "1"
				}
				return ""
			}
			want := fmt.Sprintf("%d,%d,%d,%d,%s,%s,%d,", i+1, i, n-i, n-i-1, b(i == 0), b(i == n-1), n)
			if idx < 0 || seen[k] || v != fmt.Sprint(10+idx) {
				bad = fmt.Sprintf("iteration %d has key %q with value %q", i, k, v)
			} else if meta != want {
				bad = fmt.Sprintf("iteration %d has the loop fields %q, want %q", i, meta, want)
			}
			seen[k] = true
		}
	}
	if bad != "" {
		res.Fail("output", "c06:"+sig, fmt.Sprintf("loop over %d entries renders %q: %s", n, clip(lib.out, 300), bad), prog.describe())
	}
}

// runStructElems: what a loop body sees of an element - printed, as a condition, as a number, its fields - is what
// the same element looked up by its index shows.
func (p *c06) runStructElems(res *fw.Result, sig string) {
	var k int
	fmt.Sscanf(strings.TrimPrefix(sig, "for/struct-elements/"), "%d", &k)
	var xs stick.Value
	switch k {
	case 0:
		xs = []gen.PtrStringer{{S: "a"}, {S: "b"}, {S: ""}}
	case 1:
		xs = []gen.PtrBoolean{{B: true}, {B: false}, {B: true}}
	case 2:
		xs = []gen.PtrNumber{{N: 3}, {N: 0}, {N: -2}}
	case 3:
		xs = &[]gen.PtrStringer{{S: "p"}, {S: "q"}, {S: "r"}}
	default:
		xs = [3]gen.PtrBoolean{{B: false}, {B: true}, {B: false}}
	}
	probe := func(v string) string {
		return "[{{ " + v + " }}|{% if " + v + " %}T{% else %}F{% endif %}|{{ " + v + " + 1 }}|{{ " + v + " ~ 'x' }}|{{ " + v + " ? 'y' : 'n' }}]"
	}
	loop := "{% for v in xs %}" + probe("v") + "{% endfor %}{% for k, v in xs %}{{ k }}" + probe("v") + "{% endfor %}"
	idx := probe("xs[0]") + probe("xs[1]") + probe("xs[2]") + "0" + probe("xs[0]") + "1" + probe("xs[1]") + "2" + probe("xs[2]")
	render := func(src string) (string, error) {
		var buf bytes.Buffer
		err := stick.New(nil).Execute(src, &buf, map[string]stick.Value{"xs": xs})
		return buf.String(), err
	}
	a, ea := render(loop)
	b, eb := render(idx)
	res.UniqueNT = 1
	res.Evals = 2
	res.AddClass("struct-elements")
	if ea != nil || eb != nil || a != b {
		res.Fail("output", "c06:"+sig, fmt.Sprintf("elements of %T: the loop renders %q (error %v), the same elements looked up by index %q (error %v)", xs, a, ea, b, eb), map[string]interface{}{"loop": loop, "indexed": idx})
	}
}

// runLong: a loop of n passes over a range, a Go slice or an array literal variable; every pass prints its value
// and the seven loop fields, and what each pass must print is written down here directly.
func (p *c06) runLong(res *fw.Result, sig string) {
	var kind, n int
	fmt.Sscanf(strings.TrimPrefix(sig, "for/long/"), "%d/%d", &kind, &n)
	ctx := map[string]interface{}{}
	var seq gen.Expr = nm("xs")
	switch kind {
	case 0:
		seq = &gen.EBin{Op: "..", L: num(1), R: num(n)}
	case 1:
		xs := make([]int, n)
		for i := range xs {
			xs[i] = i + 1
		}
		ctx["xs"] = xs
	default:
		xs := make([]stick.Value, n)
		for i := range xs {
			xs[i] = float64(i + 1)
		}
		ctx["xs"] = &xs
	}
	body := []gen.Node{pr(nm("v")), tx(";")}
	for _, f := range loopMeta {
		body = append(body, pr(attr(nm("loop"), f)), tx(","))
	}
	body = append(body, tx("|"))
	prog := mkProg(ctx, &gen.NFor{Val: "v", Seq: seq, Body: body, HasElse: true, Else: []gen.Node{tx("EMPTY")}}, tx("after"))
	pol, _ := layoutFor(sig)
	lib := runLib(prog, pol, false)
	res.UniqueNT = 1
	res.AddObs("exec_steps", lib.exSteps)
	res.AddClass("long-loop")
	var want strings.Builder
	b := func(x bool) string {
		if x {
			return "1"
		}
		return ""
	}
	for i := 0; i < n; i++ {
		fmt.Fprintf(&want, "%d;%d,%d,%d,%d,%s,%s,%d,|", i+1, i+1, i, n-i, n-i-1, b(i == 0), b(i == n-1), n)
	}
	want.WriteString("after")
	if lib.pan != nil || lib.err != nil || lib.out != want.String() {
		at := 0
		w := want.String()
		for at < len(w) && at < len(lib.out) && w[at] == lib.out[at] {
			at++
		}
		res.Fail("output", "c06:"+sig, fmt.Sprintf("loop of %d passes: error %v, panic %v; output differs from what the passes must print at byte %d: got %q, want %q", n, lib.err, lib.pan, at, clip(lib.out[minInt(at, len(lib.out)):], 80), clip(w[minInt(at, len(w)):], 80)), prog.describe())
	}
}

func minInt(a, b int) int {
	if a < b {
		return a
	}
	return b
}

// runDeep: d loops inside each other (one pass each, the innermost three); the innermost body reads the loop
// variable of every level and walks loop.parent up to the outermost loop.
func (p *c06) runDeep(res *fw.Result, sig string) {
	var d int
	fmt.Sscanf(strings.TrimPrefix(sig, "for/deep/"), "%d", &d)
	var inner []gen.Node
	var want strings.Builder
	for l := 0; l < d; l++ {
		inner = append(inner, pr(nm(fmt.Sprintf("v%d", l))), tx("."))
	}
	up := gen.Expr(nm("loop"))
	for l := d - 1; l >= 0; l-- {
		inner = append(inner, pr(attr(up, "length")), tx(":"))
		up = attr(up, "parent")
	}
	inner = append(inner, pr(nm("g")), tx("|"))
	body := inner
	for l := d - 1; l >= 0; l-- {
		els := []gen.Expr{num(100 + l)}
		if l == d-1 {
			els = []gen.Expr{num(100 + l), num(200 + l), num(300 + l)}
		} else if l%2 == 1 && d <= 17 {
			els = append(els, num(500+l)) // a second pass: the scope of the first is gone, the outer ones are not
		}
		body = []gen.Node{&gen.NFor{Val: fmt.Sprintf("v%d", l), Seq: &gen.EArr{Els: els}, Body: append([]gen.Node{&gen.NSet{Name: fmt.Sprintf("s%d", l), X: num(l)}}, body...)}}
	}
	prog := mkProg(map[string]interface{}{"g": "G"}, append(body, tx("after"))...)
	pol, _ := layoutFor(sig)
	lib := runLib(prog, pol, false)
	res.UniqueNT = 1
	res.AddObs("exec_steps", lib.exSteps)
	res.AddClass("deep-loop")
	// expected: enumerate the passes outermost first
	var rec func(l int, vals []int)
	rec = func(l int, vals []int) {
		if l == d {
			for _, v := range vals {
				fmt.Fprintf(&want, "%d.", v)
			}
			for k := d - 1; k >= 0; k-- {
				ln := 1
				if k == d-1 {
					ln = 3
				} else if k%2 == 1 && d <= 17 {
					ln = 2
				}
				fmt.Fprintf(&want, "%d:", ln)
			}
			want.WriteString("G|")
			return
		}
		els := []int{100 + l}
		if l == d-1 {
			els = []int{100 + l, 200 + l, 300 + l}
		} else if l%2 == 1 && d <= 17 {
			els = append(els, 500+l)
		}
		for _, e := range els {
			rec(l+1, append(append([]int{}, vals...), e))
		}
	}
	rec(0, nil)
	want.WriteString("after")
	switch {
	case lib.pan != nil || lib.err != nil:
		res.Fail("output", "c06:"+sig, fmt.Sprintf("%d loops deep: error %v, panic %v", d, lib.err, lib.pan), prog.describe())
	case lib.out != want.String():
		res.Fail("output", "c06:"+sig, fmt.Sprintf("%d loops deep: output %q, want %q", d, clip(lib.out, 200), clip(want.String(), 200)), prog.describe())
	}
}

func (p *c06) Rule() string {
	return "enumerated (exhaustive within the bound): every if-chain shape with <=3 elseif x optional else x every truth assignment; truthiness of each scalar class, and of 52 carriers of a condition value (negative and tiny numbers of every kind, NaN and infinities, decimals, strings like '0' and ' ', Stringer / Number / Boolean implementers, defined types, safe wrappers, containers, pointers) against the documented rule written out by hand, in if / not / ?: / for-if / elseif / and / or; every sequence kind (array literal, range, []int, []string, []Value, *[]int, [3]int, single-entry map, hash literal, nil, null, empty map) x length 0..8 x {value only, key+value, with else, nested in an outer loop with loop.parent, the outer loop's key and value read inside the inner loop} printing key, value and all seven loop fields at every position, with context variables named like every loop variable; inline-if loops for every element mask of length 1..5 and comparison conditions; non-iterables (numbers, strings, bools, structs - also the empty string, 0 and false, which are empty but no sequences) must be an error. Random: nestings of if/elseif/else and for (depth<=4) with boolean conditions from the expression region and loop fields printed at every depth. Oracle: reference model output and error-or-not. Loop fields are not printed inside inline-if bodies and the else-branch of a fully filtered non-empty loop is not exercised (stick and Twig differ there; the statement only promises which elements are rendered). Non-trivial: enumerated cases are distinct by construction; random ones need a loop nested in or containing another construct."
}

func (p *c06) Assumptions() []string {
	return []string{"loop.parent is the enclosing loop's loop record (the form the suite pins)", "for maps and hashes with several entries only what does not depend on Go's map order is checked (loop fields per iteration, every entry exactly once)"}
}

func (p *c06) Floors(tier string) map[string]int64 {
	return map[string]int64{"exec_steps": 50000, "distinct_nontrivial": 500, "class:multi-entry-loop": 1, "class:long-loop": 30, "class:deep-loop": 8, "class:truth-carrier": 40}
}
