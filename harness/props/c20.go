package props

import (
	"errors"
	"fmt"
	"io"
	"math/rand"
	"regexp"
	"sort"
	"strconv"
	"strings"
	"testing/iotest"

	"github.com/tyler-sommer/stick"
	"github.com/tyler-sommer/stick/parse"

	"verifharness/fw"
	"verifharness/gen"
)

// C20 — syntax errors are detected, and all reported positions are exact.
type c20 struct {
	base
	units        []c20unit // templates (name -> nodes) used for injections
	nPos, nTrunc int
	injOffs      []int
	nInj, nNamed int
	truncSrc     []string
	truncOffs    []int
}

type c20unit struct {
	name   string
	nodes  func() []gen.Node
	bounds int
}

func init() { fw.Register("C20", func() fw.Property { return &c20{} }) }

func (p *c20) ID() string       { return "C20" }
func (p *c20) Exhaustive() bool { return true }

// lineCol converts a byte offset to (1-based line, 0-based byte column).
func lineCol(src string, off int) (int, int) {
	pre := src[:off]
	line := 1 + strings.Count(pre, "\n")
	col := off
	if i := strings.LastIndex(pre, "\n"); i >= 0 {
		col = off - i - 1
	}
	return line, col
}

// nlPolicy spells with line breaks in many places.
type nlPolicy struct {
	r *rand.Rand
}

func (v *nlPolicy) WS(prev, next string, mayBeEmpty bool) string {
	ws := []string{"", " ", "\n", "\r\n", " \n  ", "\n\n", "\t", " "}[v.r.Intn(8)]
	if ws == "" && !mayBeEmpty {
		return " "
	}
	return ws
}
func (v *nlPolicy) Quote() byte         { return []byte{'\'', '"'}[v.r.Intn(2)] }
func (v *nlPolicy) TrailingComma() bool { return v.r.Intn(3) == 0 }
func (v *nlPolicy) Trim() bool          { return v.r.Intn(3) == 0 }

// c20posProgram generates a template with unique names, numbers, strings and text
// runs, with newlines inside text, strings, comments and (through the policy) tags.
type c20gen struct {
	r   *rand.Rand
	seq int
}

func (g *c20gen) u() string { g.seq++; return strconv.Itoa(g.seq) }

func (g *c20gen) text() gen.Node {
	parts := []string{"t" + g.u(), "\n", " line\nbreak ", "é", "\r\n", " }} ", "x", "\xff", "\xc3", "\xe2\x82", "\xf0\x9f\x98"}
	n := 1 + g.r.Intn(4)
	s := "T" + g.u() + ":"
	for i := 0; i < n; i++ {
		s += parts[g.r.Intn(len(parts))]
	}
	return &gen.NText{S: s + ";", ID: s}
}

func (g *c20gen) expr(d int) gen.Expr {
	r := g.r
	if d <= 0 {
		switch r.Intn(5) {
		case 0:
			if r.Intn(3) == 0 {
				return &gen.ENum{Text: "1" + g.u() + []string{".5", ".25", ".125"}[r.Intn(3)]} // anchored at its first digit, like an integer
			}
			return &gen.ENum{Text: "1" + g.u()}
		case 1:
			s := "s" + g.u()
			if r.Intn(2) == 0 {
				s += "\nnl"
			}
			return &gen.EStr{S: s}
		case 2:
			return &gen.EBool{V: r.Intn(2) == 0}
		default:
			return &gen.EName{Name: "v" + g.u()}
		}
	}
	switch r.Intn(10) {
	case 0:
		// (operators of several words may have their words on different lines)
		ops := []string{"+", "-", "*", "~", "==", "and", "or", "in", "<", "not in", "starts with", "ends with", "matches", "b-and", "b-or", "b-xor", "//", "**", "..", "!=", ">="}
		if r.Intn(5) == 0 {
			t := &gen.ETest{X: g.expr(d - 1), Not: r.Intn(2) == 0, Test: []string{"pos", "divisible by", "same as", "empty"}[r.Intn(4)]}
			if strings.Contains(t.Test, " ") {
				t.Args = []gen.Expr{g.expr(0)}
				return t
			}
			// (a test name may have two words, so that a one-word test followed by the 'if' of a for tag reads as
			// something else: in parentheses it ends where it ends)
			return &gen.EGroup{X: t}
		}
		return &gen.EBin{Op: ops[r.Intn(len(ops))], L: g.expr(d - 1), R: g.expr(d - 1)}
	case 1:
		return &gen.EUn{Op: []string{"not", "-"}[r.Intn(2)], X: g.expr(d - 1)}
	case 2:
		return &gen.ETern{C: g.expr(d - 1), A: g.expr(d - 1), B: g.expr(d - 1)}
	case 3:
		return &gen.ECall{Fn: "fn", Args: []gen.Expr{g.expr(d - 1), g.expr(0)}}
	case 4:
		return &gen.EFilter{X: g.expr(0), Name: "up", Args: []gen.Expr{g.expr(0)}}
	case 5:
		return &gen.EArr{Els: []gen.Expr{g.expr(d - 1), g.expr(0)}}
	case 6:
		return &gen.EGroup{X: g.expr(d - 1)}
	case 7:
		switch r.Intn(5) {
		case 0: // an index after a dot, and a further access behind it
			return &gen.EAttr{X: &gen.EAttr{X: &gen.EName{Name: "v" + g.u()}, Key: &gen.ENum{Text: strconv.Itoa(r.Intn(30))}, Dot: true}, Key: &gen.EStr{S: "k" + g.u()}, Dot: true}
		case 1:
			return &gen.EAttr{X: &gen.EName{Name: "v" + g.u()}, Key: &gen.ENum{Text: strconv.Itoa(r.Intn(30))}, Dot: true}
		case 2:
			return &gen.EMethod{X: &gen.EName{Name: "v" + g.u()}, Name: "m" + g.u(), Args: []gen.Expr{g.expr(0)}}
		case 3:
			return &gen.EGroup{X: &gen.EHash{Keys: []gen.Expr{&gen.EName{Name: "hk" + g.u()}, &gen.EStr{S: "hs" + g.u()}}, Vals: []gen.Expr{g.expr(0), g.expr(d - 1)}}}
		}
		return &gen.EAttr{X: &gen.EName{Name: "v" + g.u()}, Key: g.expr(0), Dot: false}
	case 8:
		if r.Intn(2) == 0 {
			// an interpolated string that spans lines, before and after the interpolation
			return &gen.EInterp{Parts: []gen.Expr{&gen.EStr{S: "i" + g.u() + []string{"", "\nnl "}[r.Intn(2)]}, &gen.EName{Name: "v" + g.u()}, &gen.EStr{S: []string{"", "\ntail", " t"}[r.Intn(3)]}}}
		}
		return g.expr(0)
	default:
		return g.expr(0)
	}
}

func (g *c20gen) nodes(depth, n int) []gen.Node {
	var out []gen.Node
	lastText := false
	for i := 0; i < n; i++ {
		k := g.r.Intn(12)
		if lastText && k < 3 {
			k = 3
		}
		lastText = false
		switch {
		case k < 3:
			out = append(out, g.text())
			lastText = true
		case k == 3 || depth <= 0:
			out = append(out, &gen.NPrint{X: g.expr(1 + g.r.Intn(2))})
		case k == 4:
			out = append(out, &gen.NComment{S: []string{" c ", "\n two\n lines \n", "", " {{ x }}\n"}[g.r.Intn(4)]})
		case k == 5:
			f := &gen.NIf{Conds: []gen.Expr{g.expr(1)}, Bodies: [][]gen.Node{g.nodes(depth-1, 1+g.r.Intn(2))}}
			if g.r.Intn(2) == 0 {
				f.Conds = append(f.Conds, g.expr(1))
				f.Bodies = append(f.Bodies, g.nodes(depth-1, 1))
			}
			if g.r.Intn(2) == 0 {
				f.HasElse, f.Else = true, g.nodes(depth-1, 1)
			}
			out = append(out, f)
		case k == 6:
			f := &gen.NFor{Val: "lv" + g.u(), Seq: g.expr(1), Body: g.nodes(depth-1, 1+g.r.Intn(2))}
			if g.r.Intn(2) == 0 {
				f.Key = "lk" + g.u()
			}
			if g.r.Intn(3) == 0 {
				f.Cond = g.expr(1)
			}
			if g.r.Intn(3) == 0 {
				f.HasElse, f.Else = true, g.nodes(depth-1, 1)
			}
			out = append(out, f)
		case k == 7:
			out = append(out, &gen.NSet{Name: "sv" + g.u(), X: g.expr(1)})
		case k == 8:
			out = append(out, &gen.NBlock{Name: "blk" + g.u(), Body: g.nodes(depth-1, 1+g.r.Intn(2))})
		case k == 9:
			switch g.r.Intn(4) {
			case 0:
				out = append(out, &gen.NSetCap{Name: "sc" + g.u(), Body: g.nodes(depth-1, 1)})
			case 1:
				out = append(out, &gen.NFilter{Filters: []string{"up", "b1"}, Body: g.nodes(depth-1, 1)})
			case 2:
				out = append(out, &gen.NMacro{Name: "mc" + g.u(), Params: []string{"p" + g.u()}, Body: g.nodes(depth-1, 1)})
			default:
				out = append(out, &gen.NDo{X: g.expr(1)})
			}
		case k == 10:
			switch g.r.Intn(4) {
			case 0:
				out = append(out, &gen.NInclude{Tpl: &gen.EStr{S: "inc" + g.u()}, With: &gen.EHash{Keys: []gen.Expr{&gen.EName{Name: "w"}}, Vals: []gen.Expr{g.expr(0)}}, Only: g.r.Intn(2) == 0})
			case 1:
				out = append(out, &gen.NEmbed{Tpl: &gen.EStr{S: "emb" + g.u()}, Blocks: []*gen.NBlock{{Name: "eb" + g.u(), Body: g.nodes(depth-1, 1)}, {Name: "eb" + g.u(), Body: g.nodes(0, 1)}}})
			case 2:
				out = append(out, &gen.NImport{Tpl: &gen.EStr{S: "lib" + g.u()}, Alias: "al" + g.u()})
			default:
				out = append(out, &gen.NFrom{Tpl: &gen.EStr{S: "lib" + g.u()}, Names: [][2]string{{"m" + g.u(), "r" + g.u()}}})
			}
		default:
			out = append(out, &gen.NVerbatim{S: []string{"{{ raw }}", "line\nbreak {% x %}", ""}[g.r.Intn(3)]})
		}
	}
	return out
}

// posTemplate builds the template of position case i.
func (p *c20) posTemplate(i int) *gen.Template {
	g := &c20gen{r: gen.Rng(p.seed, "c20pos", i)}
	var body []gen.Node
	if i%5 == 0 {
		body = append(body, &gen.NExtends{Tpl: &gen.EStr{S: "parent" + g.u()}}, &gen.NUse{Tpl: &gen.EStr{S: "u" + g.u()}, Aliases: [][2]string{{"a", "b"}}})
	}
	if i%5 != 0 && i%3 == 0 {
		// the very first bytes of the source are text like any other: a byte order mark, a NUL, a lone CR
		lead := []string{"\xef\xbb\xbf", "\xef\xbb\xbf\xef\xbb\xbf", "\x00", "\r", "\xc2\xa0", "\xe2\x80\x8b"}[g.r.Intn(6)]
		id := lead + "L" + g.u()
		body = append(body, &gen.NText{S: id + ";", ID: id}, &gen.NComment{S: " c "}, &gen.NPrint{X: &gen.EName{Name: "v" + g.u()}})
	}
	if i%7 == 1 {
		// far down and far to the right: line and column numbers beyond one and two bytes, after a text token
		// longer than any buffer
		nl := []int{255, 256, 257, 300, 1023, 1025, 4100, 65535, 65537}[g.r.Intn(9)]
		if nl > 5000 && g.r.Intn(4) != 0 {
			nl = 254 + g.r.Intn(4)
		}
		cols := []int{0, 254, 255, 256, 1022, 1023, 1024, 4095, 65535, 65536}[g.r.Intn(10)]
		if cols > 5000 && g.r.Intn(4) != 0 {
			cols = 1020 + g.r.Intn(8)
		}
		id := strings.Repeat("\n", nl) + strings.Repeat("x", cols) + "B" + g.u()
		body = append(body, &gen.NText{S: id + ";", ID: id})
	}
	body = append(body, g.nodes(1+g.r.Intn(3), 2+g.r.Intn(5))...)
	return &gen.Template{Name: "main", Body: body}
}

func (p *c20) Init(tier string, seed int64) {
	p.tier, p.seed = tier, seed
	p.nPos = p.pick(8000, 300000)
	// injection units: the tag/expression templates of C14 plus extends/use
	ts := c14Templates()
	names := make([]string, 0, len(ts))
	for n := range ts {
		names = append(names, n)
	}
	sort.Strings(names)
	for _, n := range names {
		n := n
		for pl := 0; pl < 3; pl++ {
			pl := pl
			p.units = append(p.units, c20unit{name: fmt.Sprintf("%s@%d", n, pl), nodes: func() []gen.Node { return c14place(c14Templates()[n], []int{0, 1, 2}[pl]) }})
		}
	}
	p.units = append(p.units, c20unit{name: "extends-use", nodes: func() []gen.Node {
		return []gen.Node{&gen.NExtends{Tpl: &gen.EStr{S: "base"}}, &gen.NUse{Tpl: &gen.EStr{S: "ublk"}, Aliases: [][2]string{{"u1", "used"}}}, &gen.NBlock{Name: "bb", Body: []gen.Node{tx("x")}}}
	}})
	// an embed whose body has text, prints and a comment outside its override blocks: never rendered, still source
	p.units = append(p.units, c20unit{name: "embed-stray-content", nodes: func() []gen.Node {
		return []gen.Node{tx("before "), &gen.NEmbed{Tpl: str("lay"), Stray: []gen.Node{tx("stray "), pr(&gen.EBin{Op: "~", L: nm("sv"), R: str("x")}), &gen.NComment{S: " c "}, pr(&gen.EFilter{X: nm("sw"), Name: "up"})},
			Blocks: []*gen.NBlock{{Name: "eb", Body: []gen.Node{tx("over")}}}}, tx(" after")}
	}})
	for k := range p.units {
		rec := &vecPolicy{all: -1}
		gen.Source(&gen.Template{Body: p.units[k].nodes()}, rec)
		p.units[k].bounds = rec.n
		p.injOffs = append(p.injOffs, p.nInj)
		// per unit: '@' at every boundary, '987654' before every closing delimiter (counted as all boundaries, skipped when not applicable),
		// and an unknown tag at every statement position
		p.nInj += rec.n*3 + 40
	}
	// truncation sources: the units (canonical) and generated position templates
	for k := range p.units {
		src, _ := gen.Source(&gen.Template{Body: p.units[k].nodes()}, gen.Canon{})
		p.truncSrc = append(p.truncSrc, src)
	}
	nGen := p.pick(150, 3000)
	for k := 0; k < nGen; k++ {
		src, _ := gen.Source(p.posTemplate(1000000+k), gen.Canon{})
		p.truncSrc = append(p.truncSrc, src)
	}
	for _, s := range p.truncSrc {
		p.truncOffs = append(p.truncOffs, p.nTrunc)
		p.nTrunc += (len(s) + 63) / 64 // 64 truncation offsets per case
	}
	p.nNamed = len(c20Broken) * 7
}

func (p *c20) N() int {
	return p.nPos + p.nInj + p.nTrunc + p.nNamed + len(c20Marked)*len(c20MarkedPrefixes)
}

// c20Marked: sources with one wrong token each - a word in the place of a keyword, one token too many inside an
// interpolation, a tag's parts in the wrong order. The mark (\x01, removed) stands in front of the first token that
// cannot be: an error, if there is one, is located there.
var c20Marked = []string{
	"{% from 'm' import field \x01az f %}", "{% from 'm' import a as b, field \x01az f %}", "{% from 'm' import a, b as c, d \x01az e, f %}", "{% from 'm' \x01imprt field %}",
	"{% import 'm' \x01az x %}", "{% include 'x' \x01wit {} %}", "{% include 'x' with {} \x01onyl %}", "{% include 'x' \x01ignore misssing %}",
	"{% use 'x' \x01wiht a as b %}", "{% use 'x' with a \x01az b %}", "{% use 'x' with a as b, c \x01az d %}", "{% embed 'x' \x01onyl %}{% endembed %}", "{% set x \x01y %}",
	"{% macro m(a) \x01x %}{% endmacro %}", "{% block b \x01c %}{% endblock %}", "{% block b %}{% endblock \x01c %}", "{% extends 'x' \x01y %}",
	"{{ \"a#{b \x011}c\" }}", "{{ \"a#{b \x01c}c\" }}", "{{ \"a#{b \x01'x'}c\" }}", "{{ \"#{a}#{b \x017}\" }}", "{{ \"#{a}\" ~ \"x#{b | up \x01true}\" }}", "{% set q = \"#{a}#{b}#{c \x01d}\" %}",
	"{% if \"#{a \x010}\" %}x{% endif %}", "{{ f(\"#{a}\", \"#{b \x012}\") }}",
}

var c20MarkedPrefixes = []string{"", "line one\nline two \xc3\xa9 ", "{# c #}\r\n\r\n   ", "{{ ok }}{% if a %}\n"}

func (p *c20) runMarked(res *fw.Result, j int) {
	m, pre := c20Marked[j/len(c20MarkedPrefixes)], c20MarkedPrefixes[j%len(c20MarkedPrefixes)]
	off := len(pre) + strings.Index(m, "\x01")
	src := pre + strings.Replace(m, "\x01", "", 1)
	if strings.Contains(pre, "{% if") {
		src += "{% endif %}"
	}
	res.Evals = 1
	res.AddClass("marked")
	_, err := parse.Parse(src)
	key := fmt.Sprintf("c20:marked:%d", j)
	in := map[string]interface{}{"source": src}
	if err == nil {
		res.AddClass("marked-accepted-not-claimed")
		return
	}
	wl, wc := lineCol(src, off)
	l, c, ok := errPosition(err)
	switch {
	case !ok:
		res.Fail("no-position", key, fmt.Sprintf("the error %q carries no position (want line %d, column %d)", err, wl, wc), in)
	case l != wl || c != wc:
		res.Fail("wrong-error-position", key, fmt.Sprintf("the first token that cannot be is at line %d, column %d, but the error is located at line %d, column %d: %v", wl, wc, l, c, err), in)
	default:
		if bad := errTextProblem(err, l, c); bad != "" {
			res.Fail("wrong-error-text", key, bad, in)
		}
	}
	res.AddObs("error_positions_checked", 1)
	res.UniqueNT = 1
}

func (p *c20) Describe(i int) interface{} {
	switch {
	case i < p.nPos:
		src, _ := gen.Source(p.posTemplate(i), &nlPolicy{r: gen.Rng(p.seed, "c20pol", i)})
		return map[string]interface{}{"kind": "positions", "source": src}
	case i < p.nPos+p.nInj:
		u, j := p.injCase(i - p.nPos)
		src, what, _ := p.injected(u, j)
		return map[string]interface{}{"kind": "injection", "unit": u.name, "what": what, "source": src}
	case i < p.nPos+p.nInj+p.nTrunc:
		k := searchOffs(p.truncOffs, i-p.nPos-p.nInj)
		return map[string]interface{}{"kind": "truncation", "source": p.truncSrc[k], "offsets": fmt.Sprintf("%d..", (i-p.nPos-p.nInj-p.truncOffs[k])*64)}
	}
	if i >= p.nPos+p.nInj+p.nTrunc+p.nNamed {
		return map[string]interface{}{"kind": "marked wrong token", "case": i - p.nPos - p.nInj - p.nTrunc - p.nNamed}
	}
	return map[string]interface{}{"kind": "named-template errors", "case": i - p.nPos - p.nInj - p.nTrunc}
}

func (p *c20) injCase(j int) (c20unit, int) {
	k := searchOffs(p.injOffs, j)
	return p.units[k], j - p.injOffs[k]
}

// injPolicy inserts a token at one boundary.
type injPolicy struct {
	n         int
	at        int
	tok       string
	closeOnly bool
	done      bool
	// depthZeroOnly: inject only where no bracket is open (the injected token is then the first offender)
	depthZeroOnly bool
	depth         int
	written       int // bytes spelled so far are not known to the policy: off is computed from the marker
	off           int
}

func (v *injPolicy) WS(prev, next string, mayBeEmpty bool) string {
	i := v.n
	v.n++
	base := gen.Canon{}.WS(prev, next, mayBeEmpty)
	switch prev {
	case "(", "[", "{", "#{":
		v.depth++
	case ")", "]", "}":
		v.depth--
	case "{{", "{%", "{{-", "{%-":
		v.depth = 0
	}
	if i == v.at && ((prev == "not" && next == "in") || (prev == "is" && next == "not") || ((prev == "starts" || prev == "ends") && next == "with")) {
		// inside a two-word operator: the first word alone is then the first offender, not the injected token
		return base
	}
	if i == v.at && v.depthZeroOnly {
		if v.depth != 0 || prev == "\"" || next == "\"" {
			return base
		}
		v.done = true
		return " \x01" + v.tok + " "
	}
	if i == v.at {
		isClose := next == "}}" || next == "%}" || next == "-}}" || next == "-%}"
		if v.closeOnly && !isClose {
			return base
		}
		v.done = true
		return " " + v.tok + " "
	}
	return base
}
func (v *injPolicy) Quote() byte         { return '\'' }
func (v *injPolicy) TrailingComma() bool { return false }
func (v *injPolicy) Trim() bool          { return false }

// injected builds the source with one syntax error and returns its offset (-1 = not applicable).
func (p *c20) injected(u c20unit, j int) (src, what string, off int) {
	B := u.bounds
	switch {
	case j < B:
		pol := &injPolicy{at: j, tok: "@"}
		src, _ = gen.Source(&gen.Template{Body: u.nodes()}, pol)
		if !pol.done || lexicalEndTagBroken(src) {
			return src, "", -1
		}
		return src, fmt.Sprintf("illegal character at token boundary %d", j), strings.Index(src, "@")
	case j < 2*B:
		// a number, a string, and the literals that are spelled like names
		lits := []string{"987654", "'surplus'", "true", "12.5", "null", "\"dq\"", "none", "false", "0"}
		lit := lits[(j-B+len(u.name))%len(lits)]
		pol := &injPolicy{at: j - B, tok: "\x02" + lit, closeOnly: true}
		src, _ = gen.Source(&gen.Template{Body: u.nodes()}, pol)
		off := strings.Index(src, "\x02")
		src = strings.Replace(src, "\x02", "", 1)
		if !pol.done {
			return src, "", -1
		}
		if lexicalEndTagBroken(src) {
			return src, "", -1
		}
		if lit[0] >= 'a' && lit[0] <= 'z' && off > 0 {
			// a literal spelled like a name: behind a test it reads as the second word of the test's name, behind a
			// word that takes a name as a name - not a surplus literal then
			// ... or as one more name in a list of names (filters, parameters). It is a surplus literal beyond doubt
			// where no name can follow: directly behind the name of an end tag or behind else
			before := strings.Fields(strings.TrimSpace(src[:off]))
			last := ""
			if len(before) > 0 {
				last = before[len(before)-1]
			}
			if !(strings.HasPrefix(last, "end") || last == "else") || (len(before) >= 2 && !strings.HasSuffix(before[len(before)-2], "{%")) {
				// ... elsewhere a literal that cannot be taken for a name stands in for it (no boundary goes without)
				lit = []string{"987654", "'surplus'", "12.5"}[(j-B)%3]
				pol = &injPolicy{at: j - B, tok: "\x02" + lit, closeOnly: true}
				src, _ = gen.Source(&gen.Template{Body: u.nodes()}, pol)
				off = strings.Index(src, "\x02")
				src = strings.Replace(src, "\x02", "", 1)
				if !pol.done || lexicalEndTagBroken(src) {
					return src, "", -1
				}
			}
		}
		return src, fmt.Sprintf("surplus literal %s before the closing delimiter at boundary %d", lit, j-B), off
	case j < 3*B:
		pol := &injPolicy{at: j - 2*B, tok: []string{")", "]"}[j%2], depthZeroOnly: true}
		src, _ = gen.Source(&gen.Template{Body: u.nodes()}, pol)
		pol.off = strings.Index(src, "\x01")
		src = strings.Replace(src, "\x01", "", 1)
		if !pol.done || lexicalEndTagBroken(src) {
			return src, "", -1
		}
		return src, fmt.Sprintf("stray closing bracket outside any bracket at token boundary %d", j-2*B), pol.off
	}
	j -= B
	// unknown tag at the (j-2B)-th statement position of the structure tree
	k := j - 2*B
	insertIntoEmbedBodies = true
	body, ok := insertAt(u.nodes(), &k, []gen.Node{&gen.NRaw{S: "{% zork %}"}})
	insertIntoEmbedBodies = false
	if !ok {
		return "", "", -1
	}
	src, _ = gen.Source(&gen.Template{Body: body}, gen.Canon{})
	if strings.Contains(src, "{% embed") && strings.Index(src, "{% zork") > strings.Index(src, "{% embed") && strings.Index(src, "{% zork") < strings.Index(src, "{% endembed") && !strings.Contains(src[strings.Index(src, "{% embed"):strings.Index(src, "{% zork")], "{% block") {
		// directly inside an embed body (outside its blocks) only block tags are read; still an error at the tag name
	}
	return src, fmt.Sprintf("unknown tag at statement position %d", j-2*B), strings.Index(src, "zork")
}

var endVerbRe = regexp.MustCompile(`\{%-?\s*endverbatim\s*-?%\}`)

// lexicalEndTagBroken reports whether an injection landed inside an endverbatim
// tag: that tag is recognised lexically, so anything inside it turns it into body
// text and the error is reported at the end of the input instead.
func lexicalEndTagBroken(src string) bool {
	return strings.Count(src, "endverbatim") != len(endVerbRe.FindAllString(src, -1))
}

type posErr interface{ Start() parse.Pos }

var errInRe = regexp.MustCompile(`column \d+ in (.*)$`)

var errPosRe = regexp.MustCompile(`on line (\d+), column (\d+)`)

// errTextProblem reports what is wrong with the text of an error whose position is (l, c): the text is what
// most callers see, so a position it mentions must be the same one, and it must not be a botched format.
func errTextProblem(err error, l, c int) string {
	msg := err.Error()
	if strings.Contains(msg, "%!") {
		return "the message is a botched format: " + msg
	}
	if m := errPosRe.FindStringSubmatch(msg); m != nil {
		ml, _ := strconv.Atoi(m[1])
		mc, _ := strconv.Atoi(m[2])
		if ml != l || mc != c {
			return fmt.Sprintf("the message says line %d, column %d but the error's position is line %d, column %d: %s", ml, mc, l, c, msg)
		}
	}
	return ""
}

func errPosition(err error) (int, int, bool) {
	if pe, ok := err.(posErr); ok {
		p := pe.Start()
		return p.Line, p.Offset, true
	}
	if m := errPosRe.FindStringSubmatch(err.Error()); m != nil {
		l, _ := strconv.Atoi(m[1])
		c, _ := strconv.Atoi(m[2])
		return l, c, true
	}
	return 0, 0, false
}

// refInside decides, from the prefix text alone, whether a cut leaves the source
// inside a delimiter pair or inside an open block (generated text never contains
// an opening delimiter, strings never contain a closing one).
func refInside(prefix string) (bool, string) {
	var stack []string
	i := 0
	for i < len(prefix) {
		rest := prefix[i:]
		switch {
		case strings.HasPrefix(rest, "{#"):
			j := strings.Index(rest, "#}")
			if j < 0 {
				return true, "inside a comment"
			}
			i += j + 2
		case strings.HasPrefix(rest, "{{"):
			j := strings.Index(rest, "}}")
			if j < 0 {
				return true, "inside a print"
			}
			i += j + 2
		case strings.HasPrefix(rest, "{%"):
			j := strings.Index(rest, "%}")
			if j < 0 {
				return true, "inside a tag"
			}
			tag := strings.Trim(rest[2:j], " -\t\r\n")
			word := tag
			if k := strings.IndexAny(tag, " \t\r\n("); k >= 0 {
				word = tag[:k]
			}
			i += j + 2
			switch word {
			case "if", "for", "block", "filter", "macro", "embed":
				stack = append(stack, word)
			case "set":
				if !strings.Contains(tag, "=") {
					stack = append(stack, word)
				}
			case "verbatim":
				end := endVerbRe.FindStringIndex(prefix[i:])
				if end == nil {
					return true, "inside a verbatim body"
				}
				i += end[1]
			case "endif", "endfor", "endblock", "endfilter", "endmacro", "endembed", "endset":
				if len(stack) > 0 {
					stack = stack[:len(stack)-1]
				}
			}
		default:
			i++
		}
	}
	if len(stack) > 0 {
		return true, "inside an open " + stack[len(stack)-1]
	}
	return false, ""
}

func (p *c20) Run(i int) (res fw.Result) {
	switch {
	case i < p.nPos:
		p.runPositions(&res, i)
	case i < p.nPos+p.nInj:
		u, j := p.injCase(i - p.nPos)
		src, what, off := p.injected(u, j)
		if off < 0 {
			res.AddClass("injection-not-applicable")
			return
		}
		res.AddClass("injection")
		if strings.Contains(what, "surplus literal") {
			res.AddClass("injection-surplus/" + strings.Fields(what)[2])
		}
		_, err := parse.Parse(src)
		key := "c20:inj:" + u.name + ":" + what
		in := map[string]interface{}{"source": src, "injected": what}
		if err == nil {
			if strings.HasPrefix(what, "stray closing bracket") {
				// rejection is promised for the three listed kinds only; for any other error only its position is
				res.AddClass("injection-accepted-not-claimed")
				return
			}
			res.Fail("accepted", key, fmt.Sprintf("%s: the source is accepted without error", what), in)
			return
		}
		wl, wc := lineCol(src, off)
		l, c, ok := errPosition(err)
		if !ok {
			res.Fail("no-position", key, fmt.Sprintf("%s: the error %q carries no position (want line %d, column %d)", what, err, wl, wc), in)
			return
		}
		if l != wl || c != wc {
			res.Fail("wrong-error-position", key, fmt.Sprintf("%s at line %d, column %d, but the error is located at line %d, column %d: %v", what, wl, wc, l, c, err), in)
		} else if bad := errTextProblem(err, l, c); bad != "" {
			res.Fail("wrong-error-text", key, what+": "+bad, in)
		}
		res.AddObs("error_positions_checked", 1)
		res.UniqueNT = 1
		if strings.HasPrefix(what, "illegal character") {
			// the same place with every other character that no token can begin with: ASCII punctuation that is no
			// operator, control characters, and characters beyond ASCII that are neither letters nor digits
			for _, alt := range c20IllegalChars {
				src2 := src[:off] + alt + src[off+1:]
				key2 := fmt.Sprintf("%s:alt%q", key, alt)
				in2 := map[string]interface{}{"source": src2, "injected": fmt.Sprintf("%s, character %q", what, alt)}
				res.Evals++
				_, err2 := parse.Parse(src2)
				if err2 == nil {
					res.Fail("accepted", key2, fmt.Sprintf("%s: with the character %q in place of '@' the source is accepted without error", what, alt), in2)
					continue
				}
				if l, c, ok := errPosition(err2); !ok {
					res.Fail("no-position", key2, fmt.Sprintf("%s (character %q): the error %q carries no position (want line %d, column %d)", what, alt, err2, wl, wc), in2)
				} else if l != wl || c != wc {
					res.Fail("wrong-error-position", key2, fmt.Sprintf("%s (character %q) at line %d, column %d, but the error is located at line %d, column %d: %v", what, alt, wl, wc, l, c, err2), in2)
				}
				res.AddObs("error_positions_checked", 1)
			}
			res.AddClass("injection-illegal-alternates")
		}
	case i < p.nPos+p.nInj+p.nTrunc:
		j := i - p.nPos - p.nInj
		k := searchOffs(p.truncOffs, j)
		src := p.truncSrc[k]
		if _, err := parse.Parse(src); err != nil {
			res.Fail("harness", "c20:trunc:full:"+strconv.Itoa(k), fmt.Sprintf("truncation source does not parse in full: %v", err), src)
			return
		}
		res.Evals = 0
		for off := (j - p.truncOffs[k]) * 64; off < (j-p.truncOffs[k]+1)*64 && off < len(src); off++ {
			prefix := src[:off]
			inside, why := refInside(prefix)
			res.Evals++
			if !inside {
				continue
			}
			res.UniqueNT++
			res.AddObs("truncations_requiring_error", 1)
			if _, err := parse.Parse(prefix); err == nil {
				res.Fail("truncation-accepted", fmt.Sprintf("c20:trunc:%d:%d", k, off), fmt.Sprintf("source cut off at byte %d (%s) is accepted without error", off, why), map[string]interface{}{"prefix": prefix})
			} else if l, c, ok := errPosition(err); ok {
				// where the error points: at the end of the input, at the name of a tag that is left open, or at a
				// token inside the tag or print that was cut off - never at (or behind) a delimiter that closes a
				// complete tag, which is neither the anchor of anything nor what is wrong
				place := truncErrorPlace(prefix, l, c)
				res.AddClass("truncation-error-at/" + place)
				if place == "closing-delimiter" || place == "beyond-the-input" {
					res.Fail("wrong-error-position", fmt.Sprintf("c20:truncpos:%d:%d", k, off), fmt.Sprintf("source cut off at byte %d (%s): the error %q points at line %d, column %d: %s", off, why, err, l, c, place), map[string]interface{}{"prefix": prefix})
				}
			} else {
				res.Fail("no-position", fmt.Sprintf("c20:truncpos:%d:%d", k, off), fmt.Sprintf("source cut off at byte %d (%s): the error %q carries no position", off, why, err), map[string]interface{}{"prefix": prefix})
			}
		}
		if res.Evals == 0 {
			res.Evals = 1
		}
		res.AddClass("truncation-block")
	case i < p.nPos+p.nInj+p.nTrunc+p.nNamed:
		p.runNamed(&res, i-p.nPos-p.nInj-p.nTrunc)
	default:
		p.runMarked(&res, i-p.nPos-p.nInj-p.nTrunc-p.nNamed)
	}
	return
}

// c20IllegalChars: characters that cannot begin a token of an expression (the injection workload's '@' is the first).
var c20IllegalChars = []string{"$", "&", ";", "\\", "^", "`", "!", "#", "\x7f", "\x08", "\x1b", "§", "€", "\u00a0", "½", "²", "\u2028", "\u200b", "\U0001F600", "´", "¬", "×", "÷"}

// truncErrorPlace says what stands at the position a truncation error reports.
func truncErrorPlace(prefix string, line, col int) string {
	off := 0
	for l := 1; l < line; l++ {
		i := strings.IndexByte(prefix[off:], '\n')
		if i < 0 {
			return "beyond-the-input"
		}
		off += i + 1
	}
	off += col
	switch {
	case off > len(prefix):
		return "beyond-the-input"
	case strings.TrimRight(prefix[off:], " \t\r\n") == "":
		return "end-of-input"
	case strings.HasPrefix(prefix[off:], "{{") || strings.HasPrefix(prefix[off:], "{%") || strings.HasPrefix(prefix[off:], "{#"):
		return "opening-delimiter"
	}
	before := strings.TrimRight(prefix[:off], " \t\r\n")
	before = strings.TrimSuffix(before, "-")
	if strings.HasSuffix(before, "{%") {
		return "tag-name"
	}
	if strings.HasSuffix(before, "%}") || strings.HasSuffix(before, "}}") {
		return "after-a-closing-delimiter"
	}
	if strings.HasPrefix(prefix[off:], "%}") || strings.HasPrefix(prefix[off:], "}}") || strings.HasPrefix(prefix[off:], "-%}") || strings.HasPrefix(prefix[off:], "-}}") {
		return "closing-delimiter"
	}
	return "inside-a-tag-or-print"
}

type anchorPos struct{ line, col int }

func (p *c20) runPositions(res *fw.Result, i int) {
	t := p.posTemplate(i)
	src, anchors := gen.Source(t, &nlPolicy{r: gen.Rng(p.seed, "c20pol", i)})
	key := fmt.Sprintf("c20:pos:%d:%d", p.seed, i)
	in := map[string]interface{}{"source": src}
	tree, err := parse.Parse(src)
	if err != nil {
		res.Fail("harness", key, fmt.Sprintf("generated template does not parse: %v", err), in)
		return
	}
	byKind := map[string]map[anchorPos]int{}
	byID := map[string]anchorPos{}
	for _, a := range anchors {
		l, c := lineCol(src, a.Off)
		k := a.Kind
		if byKind[k] == nil {
			byKind[k] = map[anchorPos]int{}
		}
		byKind[k][anchorPos{l, c}]++
		byID[a.Kind+"|"+a.ID] = anchorPos{l, c}
	}
	multiline := 0
	check := func(kind string, n parse.Node, accept ...anchorPos) {
		pos := n.Start()
		got := anchorPos{pos.Line, pos.Offset}
		res.AddObs("node_positions_checked", 1)
		if got.line > 1 {
			multiline++
		}
		for _, a := range accept {
			if a == got {
				return
			}
		}
		kinds := strings.Split(kind, ",")
		for _, k := range kinds {
			if byKind[k][got] > 0 {
				return
			}
		}
		res.Fail("wrong-node-position", key+":"+kind, fmt.Sprintf("%T %s reports line %d, column %d; no %s anchor is there (anchors: %v)", n, clip(n.String(), 80), got.line, got.col, kind, anchorList(byKind, kinds)), in)
	}
	var walk func(n parse.Node)
	walk = func(n parse.Node) {
		if n == nil {
			return
		}
		switch x := n.(type) {
		case *parse.TextNode:
			if a, ok := byID["text|"+strings.TrimSuffix(x.Data, ";")]; ok {
				check("text", x, a)
			} else {
				// verbatim bodies are TextNodes located at the verbatim tag or at the body
				check("text,tag:verbatim,verbatim-body", x)
			}
		case *parse.CommentNode:
			return
		case *parse.PrintNode:
			check("print", x)
		case *parse.IfNode:
			if x.Else != nil { // the synthetic IfNode of 'for .. if' (no else branch) is not a construct of its own
				check("tag:if,tag:elseif", x)
			}
		case *parse.ForNode:
			check("tag:for", x)
		case *parse.SetNode:
			check("tag:set", x)
		case *parse.BlockNode:
			check("tag:block", x)
		case *parse.FilterNode:
			check("tag:filter", x)
		case *parse.MacroNode:
			check("tag:macro", x)
		case *parse.EmbedNode:
			check("tag:embed", x)
		case *parse.IncludeNode:
			check("tag:include", x)
		case *parse.ImportNode:
			check("tag:import", x)
		case *parse.FromNode:
			check("tag:from", x)
		case *parse.UseNode:
			check("tag:use", x)
		case *parse.DoNode:
			check("tag:do", x)
		case *parse.ExtendsNode:
			check("tag:extends", x)
		case *parse.NameExpr:
			if a, ok := byID["name|"+x.Name]; ok {
				check("name", x, a)
			} else {
				check("name", x)
			}
		case *parse.NumberExpr:
			if a, ok := byID["number|"+x.Value]; ok {
				check("number", x, a)
			} else {
				check("number", x)
			}
		case *parse.StringExpr:
			if a, ok := byID["string|"+x.Text]; ok {
				// the opening quote or the first content byte
				check("string", x, a, anchorPos{a.line, a.col + 1})
			} else if a, ok := byID["attr|"+x.Text]; ok {
				// the name or index after a dot is a literal of the tree as well: located at its own first byte
				check("attr", x, a)
			}
		}
		for _, c := range n.All() {
			if c != nil {
				walk(c)
			}
		}
	}
	walk(tree.Root())
	if tree.Root().Parent != nil {
		walk(tree.Root().Parent)
	}
	if multiline > 0 {
		res.Sigs = append(res.Sigs, fmt.Sprintf("%d", i))
	}
	res.AddClass("positions")
}

func anchorList(byKind map[string]map[anchorPos]int, kinds []string) string {
	var out []string
	for _, k := range kinds {
		for a := range byKind[k] {
			out = append(out, fmt.Sprintf("%d:%d", a.line, a.col))
		}
	}
	sort.Strings(out)
	if len(out) > 12 {
		out = append(out[:12], "...")
	}
	return strings.Join(out, " ")
}

// runNamed: an error raised while loading a named template identifies it by name.
// c20Broken: one source per way in which the tokeniser or the parser can refuse a template (every tag with a
// missing or wrong part, every kind of malformed expression), so that every error constructor is exercised.
// c20Missing stands for "the named template does not exist in the loader at all".
const c20Missing = "\x00missing"

// c20BadReader: the named template exists, but reading its source fails half way.
const c20BadReader = "\x00badreader"

var c20Broken = []string{
	c20Missing, c20BadReader,
	"{% block a %}x{% endblock %}{% block a %}y{% endblock %}", "{% block outer %}{% block inner %}{% endblock %}{% endblock %}\n{% block inner %}again{% endblock %}", "{% embed 'e' %}{% block q %}1{% endblock %}{% block q %}2{% endblock %}{% endembed %}",
	"ok {% if x %} unclosed", "a {{ 1 + }} b", "x {% zork %} y", "{{ 'unclosed }}", "line1\nline2 {% for %}", "{% block b %}", "{{ a @ b }}", "{% include %}",
	"a\n{% for 1 in b %}x{% endfor %}", "{% for k, 2 in b %}x{% endfor %}", "{% for a in b c %}x{% endfor %}", "{% for a b %}x{% endfor %}", "{% for a in %}x{% endfor %}", "{% for a in b if %}x{% endfor %}",
	"a {{ x is 2 }}", "{{ x is 'lit' }}", "{{ x is '100%' }}", "{% for '%d items' in xs %}x{% endfor %}", "{{ n is (m % 2) }}", "{% for 12.5 in xs %}x{% endfor %}", "{{ '%s' 1 }}", "{% %s %}", "{{ x is }}", "{{ x is not }}", "{{ a ? b }}", "{{ a ? : }}", "{{ (a }}", "{{ a) }}", "{{ [a }}", "{{ {a: } }}", "{{ {'a' 1} }}", "{{ a[ }}", "{{ a. }}", "{{ a|  }}", "{{ f(a, }}", "{{ a.b( }}",
	"{{ \"x#{ \" }}", "{{ \"x#{ a b }\" }}", "{{ 1 2 }}", "{{ }}", "{{ a b }}", "{{ not }}", "{{ - }}", "{{ a + * b }}", "{{ a in }}", "{{ .. }}",
	"{% if %}x{% endif %}", "{% if a %}x{% elseif %}y{% endif %}", "{% if a %}x{% else %}y{% else %}z{% endif %}", "{% if a %}x{% endfor %}", "{% endif %}", "{% else %}",
	"{% set %}", "{% set 1 = 2 %}", "{% set a = %}", "{% set a %}x", "{% set a b %}", "{% block %}x{% endblock %}", "{% block 1 %}x{% endblock %}", "{% block b %}x{% endblock c %}",
	"{% extends %}", "{% extends 'a' %}{% extends 'b' %}", "{% include 'a' with %}", "{% include 'a' foo %}", "{% embed %}{% endembed %}", "{% embed 'a' %}{% block b %}x{% endembed %}", "{% embed 'a' %}{% zork %}{% endembed %}",
	"{% use %}", "{% use 'a' with %}", "{% use 'a' with b %}", "{% use 'a' with b as %}", "{% import %}", "{% import 'a' %}", "{% import 'a' as %}", "{% import 'a' as 1 %}", "{% from 'a' %}", "{% from 'a' import %}", "{% from 'a' import b as %}",
	"{% macro %}{% endmacro %}", "{% macro m %}{% endmacro %}", "{% macro m( %}{% endmacro %}", "{% macro m(a b) %}{% endmacro %}", "{% macro m(1) %}{% endmacro %}", "{% macro m() %}x",
	"{% filter %}x{% endfilter %}", "{% filter 1 %}x{% endfilter %}", "{% filter f| %}x{% endfilter %}", "{% filter f %}x", "{% do %}", "{% do 1 2 %}", "{% verbatim %}x", "{# unclosed", "{{ a", "{% if a", "{% if a %}{{ b",
}

// c20anonLoader hands out templates that have no name of their own.
type c20anonLoader struct{ inner stick.Loader }

type c20anon struct{ stick.Template }

func (c20anon) Name() string { return "" }

func (l *c20anonLoader) Load(name string) (stick.Template, error) {
	t, err := l.inner.Load(name)
	if err != nil {
		return nil, err
	}
	return c20anon{t}, nil
}

// c20failingReads hands out, for one name, a template whose source breaks off with a read error.
type c20failingReads struct {
	inner stick.Loader
	bad   string
}

type c20brokenRead struct{ name string }

func (t *c20brokenRead) Name() string { return t.name }
func (t *c20brokenRead) Contents() io.Reader {
	return io.MultiReader(strings.NewReader("first half {{ 1 }} and "), iotest.ErrReader(errors.New("verif: the disk went away")))
}

func (l *c20failingReads) Load(name string) (stick.Template, error) {
	if name == l.bad {
		return &c20brokenRead{name}, nil
	}
	return l.inner.Load(name)
}

func (p *c20) runNamed(res *fw.Result, j int) {
	broken := c20Broken
	long := "dir/" + strings.Repeat("n", 280)
	names := []string{"bad.html", "dir/bad.twig", "bad", "a.b.c", "übel.txt", long + "/one.twig", long + "/two.twig"}
	bsrc := broken[j%len(broken)]
	bname := names[(j/len(broken))%len(names)]
	if bsrc == c20Missing || bsrc == c20BadReader {
		// fall through: loading a template that is not there, or whose source cannot be read to its end, is an
		// error raised while loading a named template
	} else if _, perr := parse.Parse(bsrc); perr == nil {
		// not refused by the parser (the statement promises rejection for a few kinds only, checked elsewhere):
		// there is no load error that would have to name the template
		res.AddClass("named-source-accepted-by-parser")
		res.Evals++
		return
	}
	via := []string{"direct", "include", "extends", "import", "embed", "use", "from", "nested-include"}
	for _, v := range via {
		src := map[string]string{bname: bsrc, "mid": "{% include '" + bname + "' %}"}
		if bsrc == c20Missing {
			delete(src, bname)
		}
		main := "main"
		switch v {
		case "direct":
			main = bname
		case "include":
			src["main"] = "before {% include '" + bname + "' %} after"
		case "extends":
			src["main"] = "{% extends '" + bname + "' %}{% block a %}x{% endblock %}"
		case "import":
			src["main"] = "{% import '" + bname + "' as m %}x"
		case "embed":
			src["main"] = "{% embed '" + bname + "' %}{% block a %}x{% endblock %}{% endembed %}"
		case "use":
			src["main"] = "{% extends 'okbase' %}{% use '" + bname + "' %}"
			src["okbase"] = "base{% block a %}{% endblock %}"
		case "from":
			src["main"] = "{% from '" + bname + "' import m %}x"
		case "nested-include":
			src["main"] = "{% for i in 1..2 %}{% include 'mid' %}{% endfor %}"
		}
		for _, parseOnly := range []bool{false, true} {
			if parseOnly && v != "direct" {
				continue
			}
			var loader stick.Loader = &stick.MemoryLoader{Templates: src}
			if bsrc == c20BadReader {
				loader = &c20failingReads{inner: loader, bad: bname}
			} else if (j/len(broken))%2 == 1 {
				// a user's loader whose templates do not say what they are called (Name() is ""): the template
				// that was asked for is the one that has to be named
				loader = &c20anonLoader{inner: loader}
			}
			env := stick.New(loader)
			var err error
			var pan interface{}
			func() {
				defer func() { pan = recover() }()
				if parseOnly {
					_, err = env.Parse(main)
				} else {
					err = env.Execute(main, &strings.Builder{}, map[string]stick.Value{})
				}
			}()
			res.Evals++
			key := fmt.Sprintf("c20:named:%s:%s:%d", v, bname, j%len(broken))
			in := map[string]interface{}{"templates": src, "main": main, "via": v}
			switch {
			case pan != nil:
				res.Fail("panic", key, fmt.Sprintf("panic: %v", pan), in)
			case err == nil:
				res.Fail("accepted", key, fmt.Sprintf("broken template %q (%s) loaded via %s without error", bname, bsrc, v), in)
			default:
				named := strings.Contains(err.Error(), bname)
				if n, ok := err.(interface{ Name() string }); ok && n.Name() == bname {
					named = true
				}
				if l, c, ok := errPosition(err); ok {
					if bad := errTextProblem(err, l, c); bad != "" {
						res.Fail("wrong-error-text", key, bad, in)
					}
				} else if strings.Contains(err.Error(), "%!") {
					res.Fail("wrong-error-text", key, "the message is a botched format: "+err.Error(), in)
				}
				if !named {
					res.Fail("template-not-named", key, fmt.Sprintf("error %q raised while loading %q via %s does not identify the template", err, bname, v), in)
				}
				// a message that says where ("... on line L, column C in NAME") names the template, not something else
				if m := errInRe.FindStringSubmatch(err.Error()); m != nil && m[1] != bname {
					res.Fail("template-not-named", key+":text", fmt.Sprintf("the message of the error raised while loading %q via %s says it happened in %q: %s", bname, v, m[1], err), in)
				}
				res.AddObs("named_errors_checked", 1)
			}
		}
	}
	res.UniqueNT = 1
	res.AddClass("named")
}

func (p *c20) Rule() string {
	return p.ruleBase() + " " + "Round 12: at every token boundary where '@' is rejected, 23 more characters that cannot begin a token ($ & ; \\ ^ ` ! # DEL BS ESC, section sign, euro, no-break space, 1/2, superscript 2, U+2028, U+200B, an emoji, acute accent, not sign, multiplication and division signs) must be rejected at the same position."
}

func (p *c20) ruleBase() string {
	return fmt.Sprintf("four workloads. (a) positions: seeded templates in which every name, number, string and text run is unique, spelled with line breaks everywhere (LF, CRLF, blank lines inside tags; newlines and bytes that are not valid UTF-8 inside text; newlines inside strings, interpolated strings (before and after the interpolation), comments, verbatim bodies; trim markers; both quote kinds; a third of the templates start with a byte order mark, two of them, a NUL, a lone CR, NBSP or a zero-width space as ordinary text); every TextNode, PrintNode, tag node (if/elseif, for, set, block, filter, macro, embed and its blocks, include, import, from, use, do, extends), NameExpr, NumberExpr and StringExpr of the parsed tree must report the (1-based line, 0-based byte column) of its anchor as recorded by the speller (unique content is looked up directly, tag nodes must sit on an anchor of their kind; a string may report its quote or its first content byte; the name or index after a dot is located at its own first byte). (b) truncation: EVERY byte offset of every injection template and of generated templates: when a reference scanner says the cut is inside a delimiter pair or an open if/for/block/set/filter/macro/embed/verbatim body, parsing the prefix must fail. (c) injection: for each of the 41 tag/expression templates at 3 placements: an illegal character '@' at EVERY token boundary, a surplus literal before EVERY closing delimiter, a stray ')' or ']' at EVERY token boundary where no bracket is open, an unknown tag at EVERY statement position; the source must be rejected (for the stray bracket: if it is rejected) with the error located exactly at the injected token. (d) a broken template (%d kinds of error - every tag with a missing or wrong part, every kind of malformed expression -, 7 names incl. two of 290 bytes that differ only at the end) loaded directly and through include, extends, import, embed, use, from and a nested include in a loop: the error must identify the template by name. Non-trivial (positions) = an anchor on a line >1; the enumerated workloads are distinct by construction.", len(c20Broken))
}

func (p *c20) Assumptions() []string {
	return []string{"comment nodes, filter/attribute/operator expressions are not anchors named by the statement and are not checked",
		"injections inside an endverbatim tag are excluded (the tag is recognised lexically; anything inside it makes it body text and the error is reported at the end of input)"}
}

func (p *c20) Floors(tier string) map[string]int64 {
	return map[string]int64{"node_positions_checked": 50000, "error_positions_checked": 1000, "truncations_requiring_error": 5000, "named_errors_checked": 200, "distinct_nontrivial": 2000, "class:injection-surplus/true": 1, "class:injection-surplus/null": 1, "class:injection-surplus/'surplus'": 1, "class:truncation-error-at/tag-name": 100, "class:truncation-error-at/end-of-input": 100}
}
