package props

import (
	"fmt"
	"math"
	"reflect"
	"regexp"
	"strconv"
	"strings"
	"syscall"

	"github.com/shopspring/decimal"
	"github.com/tyler-sommer/stick"

	"verifharness/fw"
	"verifharness/gen"
)

// C15 — coercions are total, uniform across Go types and mutually consistent.
type c15 struct {
	base
	zoo            []gen.Named
	ints           []int64
	nZoo, nInts    int
	nI16, nFl, nNS int
}

func init() { fw.Register("C15", func() fw.Property { return &c15{} }) }

func (p *c15) ID() string { return "C15" }

func (p *c15) Init(tier string, seed int64) {
	p.tier, p.seed = tier, seed
	p.zoo = append(gen.Scalars(), gen.Containers()...)
	p.ints = []int64{0, 1, -1, 2, 3, 7, 10, 42, 100, 127, -128, 128, 255, 256, 999, 1000, 32767, -32768, 65535, 65536,
		99999, 100000, 999999, 1000000, 1000001, 16777216, 16777217, 2147483647, -2147483648, 4294967295, 4294967296,
		123456789, 1e9, 1e12, 1e15, 999999999999999, 1 << 53, -(1 << 53), (1 << 53) - 1,
		// beyond 2^24: integers that a float32 still holds exactly (few significant bits)
		// beyond 2^53: integers no float64 holds
		1<<53 + 1, -(1<<53 + 1), 1<<62 + 1, math.MaxInt64, math.MinInt64, math.MaxInt64 - 1,
		// ... and integers beyond 2^53 that a float64 (some also a float32) does hold
		1 << 54, 1<<53 + 2, 1 << 60, -(1 << 60), 1<<62 + 1<<20, 1e18, 1<<60 + 1<<40, 3 << 55, -(5 << 50), 1<<62 - 1<<9,
		1 << 25, 1 << 27, 5 << 26, 1 << 31, -(1 << 31), 3 << 30, 1 << 40, 1 << 52, 12345678 << 8, (1<<24 - 1) << 20, 33554434, -(1 << 27)}
	p.nZoo, p.nInts = len(p.zoo), len(p.ints)
	p.nI16 = 65536 / 512
	p.nFl = p.pick(100, 2000) // blocks of 1000 random floats
	p.nNS = p.pick(40, 400)   // blocks of 250 floats x spellings
}

func (p *c15) N() int { return p.nZoo + p.nInts + p.nI16 + p.nFl + p.nNS }

func (p *c15) Describe(i int) interface{} {
	switch {
	case i < p.nZoo:
		return map[string]interface{}{"kind": "zoo-value", "label": p.zoo[i].Label, "go": clip(fmt.Sprintf("%#v", p.zoo[i].V), 200)}
	case i < p.nZoo+p.nInts:
		return map[string]interface{}{"kind": "integral-across-kinds", "n": p.ints[i-p.nZoo]}
	case i < p.nZoo+p.nInts+p.nI16:
		b := i - p.nZoo - p.nInts
		return map[string]interface{}{"kind": "int16-exhaustive", "from": -32768 + b*512, "to": -32768 + b*512 + 511}
	case i < p.nZoo+p.nInts+p.nI16+p.nFl:
		return map[string]interface{}{"kind": "random-float64-bits", "block": i - p.nZoo - p.nInts - p.nI16, "per_block": 1000}
	default:
		return map[string]interface{}{"kind": "numeric-strings", "block": i - p.nZoo - p.nInts - p.nI16 - p.nFl, "per_block": 250}
	}
}

func sameNum(a, b float64) bool {
	return a == b && math.Signbit(a) == math.Signbit(b) || math.IsNaN(a) && math.IsNaN(b)
}

// carriers returns n in every Go numeric kind that holds it exactly.
func carriers(n int64) []gen.Named {
	var out []gen.Named
	add := func(l string, v stick.Value) { out = append(out, gen.N(l, v)) }
	if n >= math.MinInt8 && n <= math.MaxInt8 {
		add("int8", int8(n))
	}
	if n >= math.MinInt16 && n <= math.MaxInt16 {
		add("int16", int16(n))
	}
	if n >= math.MinInt32 && n <= math.MaxInt32 {
		add("int32", int32(n))
	}
	add("int64", n)
	add("int", int(n))
	if n >= 0 {
		if n <= math.MaxUint8 {
			add("uint8", uint8(n))
		}
		if n <= math.MaxUint16 {
			add("uint16", uint16(n))
		}
		if n <= math.MaxUint32 {
			add("uint32", uint32(n))
		}
		add("uint64", uint64(n))
		add("uint", uint(n))
		add("uintptr", uintptr(n))
		add("defined type on uintptr", gen.NamedUptr(n))
	}
	// a float carries n if converting there and back gives n again (2^60 is as good an integer as 2^20); the
	// conversion back is only defined below 2^63
	exact64 := n > math.MinInt64 && n < math.MaxInt64-512 && int64(float64(n)) == n
	if exact64 && float64(float32(n)) == float64(n) {
		add("float32", float32(n)) // every integer up to 2^24, and beyond that the ones a float32 holds exactly
	}
	if exact64 {
		add("float64", float64(n))
		add("defined type on float64", gen.NamedF64(n))
	}
	// the other carriers of a number the library knows: a decimal.Decimal and an implementer of Number (the latter
	// where a float64 holds n exactly)
	add("decimal.Decimal", decimal.NewFromInt(n))
	dp := decimal.NewFromInt(n)
	add("*decimal.Decimal", &dp)
	if exact64 {
		add("Number implementer", gen.ValNumber{N: float64(n)})
		add("pointer to a Number implementer", &gen.ValNumber{N: float64(n)})
	}
	// ... and defined types that are errors or have their own idea of how fmt prints them
	add("defined type on int with an Error method", gen.ErrInt(n))
	add("defined type on int64 with a Format method", gen.FmtInt(n))
	if n >= math.MinInt32 && n <= math.MaxInt32 {
		add("defined type on int32 with a GoString method", gen.GoStrI(n))
	}
	if n >= 0 && n <= math.MaxUint8 {
		add("defined type on uint8 with an Error method", gen.ErrU8(n))
	}
	if n >= 0 {
		add("syscall.Errno", syscall.Errno(n))
	}
	if exact64 {
		add("defined type on float64 with an Error method", gen.ErrF64(n))
	}
	// defined types (type Level int) are Go numeric types as well
	add("defined type on int", gen.KeyInt(n))
	add("defined type on int64", gen.NamedI64(n))
	if n >= 0 {
		add("defined type on uint64", gen.NamedU64(n))
	}
	if n >= 0 && n <= math.MaxUint8 {
		add("defined type on uint8", gen.NamedU8(n))
	}
	if n >= -(1<<24) && n <= 1<<24 {
		add("defined type on float32", gen.NamedF32(n))
	}
	return out
}

var plainIntRe = regexp.MustCompile(`^-?[0-9]+$`)

func (p *c15) checkIntegral(res *fw.Result, n int64) {
	cs := carriers(n)
	s0, n0, b0 := stick.CoerceString(cs[0].V), stick.CoerceNumber(cs[0].V), stick.CoerceBool(cs[0].V)
	if n0 != float64(n) {
		res.Fail("integral", fmt.Sprintf("c15:num:%s:%d", cs[0].Label, n), fmt.Sprintf("CoerceNumber(%s(%d)) = %v", cs[0].Label, n, n0), nil)
	}
	if s0 != strconv.FormatInt(n, 10) {
		res.Fail("integral", fmt.Sprintf("c15:str:%s:%d", cs[0].Label, n), fmt.Sprintf("CoerceString(%s(%d)) = %q, want the plain decimal integer", cs[0].Label, n, s0), nil)
	}
	for _, c := range cs[1:] {
		res.Evals++
		s, f, b := stick.CoerceString(c.V), stick.CoerceNumber(c.V), stick.CoerceBool(c.V)
		if s != s0 {
			res.Fail("uniform", fmt.Sprintf("c15:str:%s", c.Label), fmt.Sprintf("CoerceString(%s(%d)) = %q but CoerceString(%s(%d)) = %q", c.Label, n, s, cs[0].Label, n, s0), nil)
		}
		if f != n0 {
			res.Fail("uniform", fmt.Sprintf("c15:num:%s", c.Label), fmt.Sprintf("CoerceNumber(%s(%d)) = %v but via %s = %v", c.Label, n, f, cs[0].Label, n0), nil)
		}
		if b != b0 {
			res.Fail("uniform", fmt.Sprintf("c15:bool:%s", c.Label), fmt.Sprintf("CoerceBool(%s(%d)) = %v but via %s = %v", c.Label, n, b, cs[0].Label, b0), nil)
		}
	}
}

func unsupportedKind(v stick.Value) bool {
	if v == nil {
		return true
	}
	if _, ok := v.(stick.SafeValue); ok {
		return false
	}
	if _, ok := v.(decimal.Decimal); ok {
		return false
	}
	rv := reflect.ValueOf(v)
	if rv.Kind() != reflect.Ptr {
		// a type of any kind that says how it coerces is supported (net.IP is a slice with a String method)
		_, a := v.(stick.Stringer)
		_, b := v.(stick.Number)
		_, c := v.(stick.Boolean)
		if a || b || c {
			return false
		}
	}
	switch rv.Kind() {
	case reflect.Ptr:
		return rv.IsNil()
	case reflect.Slice, reflect.Map, reflect.Func, reflect.Chan, reflect.Complex64, reflect.Complex128, reflect.Array:
		return true
	case reflect.Struct:
		_, a := v.(stick.Stringer)
		_, b := v.(stick.Number)
		_, c := v.(stick.Boolean)
		return !a && !b && !c
	}
	return false
}

func (p *c15) Run(i int) (res fw.Result) {
	switch {
	case i < p.nZoo:
		z := p.zoo[i]
		key := "c15:zoo:" + z.Label
		s, f, b := stick.CoerceString(z.V), stick.CoerceNumber(z.V), stick.CoerceBool(z.V) // a panic here is caught by the worker
		res.Evals = 3
		if unsupportedKind(z.V) {
			if s != "" || f != 0 || b != false {
				res.Fail("fallback", key, fmt.Sprintf("unsupported kind %s coerces to (%q, %v, %v), want (\"\", 0, false)", z.Label, s, f, b), nil)
			}
			res.AddClass("unsupported-kind")
		} else {
			res.AddClass("supported-kind")
		}
		// wrapped as safe (1..3 levels) coerces exactly like the value inside
		w := z.V
		for lvl := 1; lvl <= 3; lvl++ {
			w = stick.NewSafeValue(w, []string{"html", "js", "css"}[lvl-1])
			ws, wf, wb := stick.CoerceString(w), stick.CoerceNumber(w), stick.CoerceBool(w)
			res.Evals += 3
			if ws != s || !sameNum(wf, f) || wb != b {
				res.Fail("safe-wrapper", key, fmt.Sprintf("%d-level safe wrapper around %s coerces to (%q, %v, %v), the bare value to (%q, %v, %v)", lvl, z.Label, ws, wf, wb, s, f, b), nil)
			}
		}
		// the same through a user-written SafeValue that nests instead of flattening
		var u stick.Value = z.V
		for lvl := 1; lvl <= 3; lvl++ {
			u = gen.UserSafe{Inner: u, Types: []string{"html"}}
			us, uf, ub := stick.CoerceString(u), stick.CoerceNumber(u), stick.CoerceBool(u)
			res.Evals += 3
			if us != s || !sameNum(uf, f) || ub != b {
				res.Fail("safe-wrapper", key+":user", fmt.Sprintf("%d-level user-written safe wrapper around %s coerces to (%q, %v, %v), the bare value to (%q, %v, %v)", lvl, z.Label, us, uf, ub, s, f, b), nil)
			}
		}
		// ... and through one that has String, Number and Boolean methods of its own: what it wraps decides
		{
			o := gen.OpinionatedSafe{Inner: z.V}
			os, of, ob := stick.CoerceString(o), stick.CoerceNumber(o), stick.CoerceBool(o)
			res.Evals += 3
			if os != s || !sameNum(of, f) || ob != b {
				res.Fail("safe-wrapper", key+":opinionated", fmt.Sprintf("a user-written safe wrapper with String / Number / Boolean methods of its own around %s coerces to (%q, %v, %v), the bare value to (%q, %v, %v)", z.Label, os, of, ob, s, f, b), nil)
			}
		}
		switch v := z.V.(type) {
		case bool:
			ws, wf := "", 0.0
			if v {
				ws, wf = "1", 1
			}
			if s != ws || f != wf || b != v {
				res.Fail("bool", key, fmt.Sprintf("%v coerces to (%q, %v, %v)", v, s, f, b), nil)
			}
		case gen.KindSlice, gen.KindMap, gen.NilableNum, gen.NilableBool, gen.OwnOverNil, *gen.OwnOverNil:
			// a nil slice, map or function of a type with methods is a value like any other: the method is there to
			// be called (only a nil pointer has nothing to call it on)
			st, isS := z.V.(stick.Stringer)
			nu, isN := z.V.(stick.Number)
			bo, isB := z.V.(stick.Boolean)
			if isS && s != st.String() {
				res.Fail("iface", key, fmt.Sprintf("%s: String() says %q, CoerceString %q", z.Label, st.String(), s), nil)
			}
			if isN && f != nu.Number() {
				res.Fail("iface", key, fmt.Sprintf("%s: Number() says %v, CoerceNumber %v", z.Label, nu.Number(), f), nil)
			}
			if isB && b != bo.Boolean() {
				res.Fail("iface", key, fmt.Sprintf("%s: Boolean() says %v, CoerceBool %v", z.Label, bo.Boolean(), b), nil)
			}
		case gen.ValStringer:
			if s != v.S {
				res.Fail("iface", key, fmt.Sprintf("Stringer %q coerces to string %q", v.S, s), nil)
			}
		case *gen.PtrStringer:
			if v != nil && s != v.S {
				res.Fail("iface", key, fmt.Sprintf("Stringer %q coerces to string %q", v.S, s), nil)
			}
		case gen.ValNumber:
			if f != v.N {
				res.Fail("iface", key, fmt.Sprintf("Number %v coerces to number %v", v.N, f), nil)
			}
		case gen.ValBoolean:
			if b != v.B {
				res.Fail("iface", key, fmt.Sprintf("Boolean %v coerces to bool %v", v.B, b), nil)
			}
		case string:
			if s != v {
				res.Fail("string", key, fmt.Sprintf("string %q coerces to string %q", v, s), nil)
			}
		case gen.NamedBool:
			if s2, f2, b2 := stick.CoerceString(bool(v)), stick.CoerceNumber(bool(v)), stick.CoerceBool(bool(v)); s != s2 || f != f2 || b != b2 {
				res.Fail("bool", key, fmt.Sprintf("%s coerces to (%q, %v, %v), the bool it is defined from to (%q, %v, %v)", z.Label, s, f, b, s2, f2, b2), nil)
			}
		case gen.KeyStr:
			if s2, f2, b2 := stick.CoerceString(string(v)), stick.CoerceNumber(string(v)), stick.CoerceBool(string(v)); s != s2 || f != f2 || b != b2 {
				res.Fail("string", key, fmt.Sprintf("%s coerces to (%q, %v, %v), the string it is defined from to (%q, %v, %v)", z.Label, s, f, b, s2, f2, b2), nil)
			}
		}
		res.UniqueNT = 1
	case i < p.nZoo+p.nInts:
		p.checkIntegral(&res, p.ints[i-p.nZoo])
		res.UniqueNT = 1
		res.AddClass("integral")
	case i < p.nZoo+p.nInts+p.nI16:
		b := i - p.nZoo - p.nInts
		for n := int64(-32768 + b*512); n < int64(-32768+b*512+512); n++ {
			p.checkIntegral(&res, n)
			res.UniqueNT++
		}
		res.AddClass("int16-block")
	case i < p.nZoo+p.nInts+p.nI16+p.nFl:
		r := gen.Rng(p.seed, "c15f", i)
		for k := 0; k < 1000; k++ {
			var f float64
			switch k % 4 {
			case 0:
				f = math.Float64frombits(r.Uint64())
			case 1:
				f = float64(r.Int63n(2000001)-1000000) / float64([]int{1, 2, 4, 8, 10, 100, 1000}[r.Intn(7)])
			case 2:
				f = math.Trunc((r.Float64() - 0.5) * math.Pow(10, float64(r.Intn(22))))
			default:
				f = r.NormFloat64() * math.Pow(10, float64(r.Intn(40)-20))
			}
			if math.IsNaN(f) || math.IsInf(f, 0) {
				continue
			}
			res.Evals++
			if k%8 < 4 {
				// the float32 nearest to f is printed first, then its float64 twin: what one call did must not
				// colour the next (the two are different values of different types with the same float64 image)
				n32 := float32(f)
				if w := float64(n32); !math.IsInf(w, 0) {
					_ = stick.CoerceString(n32)
					sw := stick.CoerceString(w)
					if bw := stick.CoerceNumber(sw); !sameNum(bw, w) {
						res.Fail("float-roundtrip", fmt.Sprintf("c15:rt32:%x", math.Float64bits(w)), fmt.Sprintf("after CoerceString(float32(%v)): CoerceNumber(CoerceString(float64 %v [bits %#x])) = CoerceNumber(%q) = %v", n32, w, math.Float64bits(w), sw, bw), nil)
					}
					if again := stick.CoerceString(w); again != sw {
						res.Fail("float-roundtrip", fmt.Sprintf("c15:rt32b:%x", math.Float64bits(w)), fmt.Sprintf("CoerceString(%v) gave %q and then %q", w, sw, again), nil)
					}
					res.Evals++
				}
			}
			s := stick.CoerceString(f)
			back := stick.CoerceNumber(s)
			if !sameNum(back, f) {
				res.Fail("float-roundtrip", fmt.Sprintf("c15:rt:%x", math.Float64bits(f)), fmt.Sprintf("CoerceNumber(CoerceString(%v [bits %#x])) = CoerceNumber(%q) = %v", f, math.Float64bits(f), s, back), nil)
			}
			if f == math.Trunc(f) && math.Abs(f) < 1e6 && !(f == 0 && math.Signbit(f)) && !plainIntRe.MatchString(s) {
				res.Fail("plain-integer", fmt.Sprintf("c15:pi:%v", f), fmt.Sprintf("CoerceString(%v) = %q, want a plain integer", f, s), nil)
			}
			res.Sigs = append(res.Sigs, s)
		}
		res.AddClass("float-block")
	default:
		r := gen.Rng(p.seed, "c15s", i)
		for k := 0; k < 250; k++ {
			var f float64
			switch k % 3 {
			case 0:
				f = float64(r.Int63n(2000001)-1000000) / float64([]int{1, 2, 4, 8, 10, 100, 1000}[r.Intn(7)])
			case 1:
				f = math.Float64frombits(r.Uint64())
			default:
				f = float64(r.Intn(100000))
			}
			if math.IsNaN(f) || math.IsInf(f, 0) {
				continue
			}
			sp := []string{strconv.FormatFloat(f, 'g', -1, 64), strconv.FormatFloat(f, 'e', 17, 64), strconv.FormatFloat(f, 'E', -1, 64)}
			if math.Abs(f) < 1e15 && (math.Abs(f) > 1e-9 || f == 0) {
				sp = append(sp, strconv.FormatFloat(f, 'f', -1, 64))
				if math.Abs(f) >= 1e-2 {
					sp = append(sp, strconv.FormatFloat(f, 'f', 20, 64))
				}
			}
			if f >= 0 {
				sp = append(sp, "+"+sp[0], "00"+sp[0])
			}
			// a decimal point needs no digit on both sides: .5, -.5, 5.
			for _, t := range sp[:len(sp):len(sp)] {
				switch {
				case strings.HasPrefix(t, "0.") && !strings.ContainsAny(t, "eE"):
					sp = append(sp, t[1:], "+"+t[1:])
				case strings.HasPrefix(t, "-0.") && !strings.ContainsAny(t, "eE"):
					sp = append(sp, "-"+t[2:])
				case !strings.ContainsAny(t, ".eEnN") && len(t) < 17:
					sp = append(sp, t+".", t+".0", t+"e0", t+"E+0")
				}
			}
			for _, s := range sp {
				res.Evals++
				if got := stick.CoerceNumber(s); !sameNum(got, f) && !(f == 0 && got == 0) {
					res.Fail("numeric-string", "c15:ns:"+s, fmt.Sprintf("CoerceNumber(%q) = %v, the string spells %v", s, got, f), nil)
				}
				res.Sigs = append(res.Sigs, s)
			}
		}
		// digit strings around the sizes of the integer types (the number a string spells is the nearest float64,
		// however many digits it has): 2^31, 2^32, 2^53, 2^63, 2^64, 10^19, 10^20, runs of nines and of zeros
		if i == p.nZoo+p.nInts+p.nI16+p.nFl {
			var ds []string
			for _, b := range []string{"2147483647", "2147483648", "4294967295", "4294967296", "9007199254740992", "9007199254740993", "9223372036854775807", "9223372036854775808", "18446744073709551615", "18446744073709551616",
				"18446744073709551617", "10000000000000000000", "99999999999999999999", "100000000000000000000", "184467440737095516150", "36893488147419103232"} {
				ds = append(ds, b, "0"+b, "000"+b, b+"0", b+".0", "+"+b, "-"+b)
			}
			for n := 15; n <= 25; n++ {
				ds = append(ds, strings.Repeat("9", n), "1"+strings.Repeat("0", n), strings.Repeat("0", n)+"7", strings.Repeat("1", n))
			}
			for _, s := range ds {
				want, err := strconv.ParseFloat(s, 64)
				res.Evals++
				if got := stick.CoerceNumber(s); err != nil || got != want {
					res.Fail("numeric-string", "c15:ns:"+s, fmt.Sprintf("CoerceNumber(%q) = %v, the string spells %v", s, got, want), nil)
				}
			}
			// the same digits carried by a decimal (whole numbers with exponent zero and coefficients beyond 64 bits,
			// built from the string and from a big integer): the number of a decimal is the number its string spells
			for _, s := range ds {
				d, derr := decimal.NewFromString(s)
				if derr != nil {
					continue
				}
				carriers := []decimal.Decimal{d, d.Neg(), d.Add(decimal.NewFromInt(1)), d.Mul(decimal.NewFromInt(3))}
				if d.Exponent() == 0 {
					carriers = append(carriers, decimal.NewFromBigInt(d.Coefficient(), 0), decimal.NewFromBigInt(d.Coefficient(), 2), decimal.NewFromBigInt(d.Coefficient(), -3))
				}
				for ci, dc := range carriers {
					dc := dc
					str := stick.CoerceString(dc)
					want, err := strconv.ParseFloat(str, 64)
					res.Evals += 3
					for wi, carrier := range []interface{}{dc, &dc, stick.NewSafeValue(dc, "html")} {
						if got := stick.CoerceNumber(carrier); err != nil || got != want {
							res.Fail("decimal-number", fmt.Sprintf("c15:decs:%s:%d:%d", s, ci, wi), fmt.Sprintf("CoerceNumber(%T of decimal %s) = %v; its string %q spells %v (%v)", carrier, dc.String(), got, str, want, err), nil)
						}
						if got, wantB := stick.CoerceBool(carrier), !dc.IsZero(); got != wantB && dc.IsPositive() {
							res.Fail("decimal-number", fmt.Sprintf("c15:decb:%s:%d:%d", s, ci, wi), fmt.Sprintf("CoerceBool(%T of decimal %s) = %v", carrier, dc.String(), got), nil)
						}
					}
				}
			}
		}
		// a decimal is the number its digits spell: coefficients of few and of many digits at every scale from 10^-40 to
		// 10^5 (the number of a decimal is the number of its string, whichever way the library gets there)
		if i == p.nZoo+p.nInts+p.nI16+p.nFl {
			for _, c := range []int64{1, 3, 7, 9, 11, 15, 123456789, 1<<53 - 1, 1 << 53, 1<<53 + 1, 999999999999999999, -1, -7, -123456789} {
				for e := int32(-40); e <= 5; e++ {
					d := decimal.New(c, e)
					str := stick.CoerceString(d)
					want, err := strconv.ParseFloat(str, 64)
					res.Evals += 2
					if got := stick.CoerceNumber(d); err != nil || got != want {
						res.Fail("decimal-number", fmt.Sprintf("c15:dec:%d:%d", c, e), fmt.Sprintf("CoerceNumber(decimal %de%d) = %v; its string %q spells %v (%v)", c, e, got, str, want, err), nil)
					}
					if got := stick.CoerceNumber(&d); err != nil || got != want {
						res.Fail("decimal-number", fmt.Sprintf("c15:decp:%d:%d", c, e), fmt.Sprintf("CoerceNumber(pointer to decimal %de%d) = %v; its string %q spells %v (%v)", c, e, got, str, want, err), nil)
					}
				}
			}
		}
		res.AddClass("numeric-string-block")
	}
	return
}

func (p *c15) Rule() string {
	return p.ruleBase() + " " + "Round 12: the digit strings around 2^31..2^64 and 10^19..10^20 carried by decimals (from the string, negated, plus one, times three, from a big integer at exponents 0, 2 and -3), by value, by pointer and wrapped as safe: CoerceNumber is the number the decimal's string spells."
}

func (p *c15) ruleBase() string {
	return "cases: every value of the Go-value zoo (nil, bools, every numeric kind at boundaries, float specials, strings incl. numeric spellings and invalid UTF-8, decimals, Stringer/Number/Boolean implementers by value and by pointer, typed nil pointers, slices, maps, arrays, structs, funcs, chans, complex, nested safe wrappers) for totality, fallback ('',0,false for unsupported kinds) and wrapper transparency at 1..3 levels; 57 boundary integers (incl. 2^53+1, MaxInt64, MinInt64) (incl. integers beyond 2^24 that a float32 still holds exactly) and the whole int16 range carried by every Go numeric kind that holds them exactly, including defined types (type T int / uint8 / float32 / float64) (same string/number/truth value, plain decimal string); seeded random float64 bit patterns, dyadic/decimal fractions and integral floats for float64->string->number identity (bit-exact; half of them right after the nearest float32 was printed, and printed twice) and plain-integer printing below 10^6; decimal numeric strings in 5-7 spellings (shortest, %e with 17 digits, %E, fixed, fixed with 20 decimals, leading '+', leading zeros, no digit before or after the decimal point, exponent zero) for string->number. Non-trivial: all enumerated values are distinct by construction; random floats/strings deduplicated by spelling."
}

func (p *c15) Assumptions() []string {
	return []string{"a decimal numeric string is anything strconv.ParseFloat accepts made of sign, digits, point and exponent",
		"truthiness is only required to be uniform across carriers (the statement does not fix the truth value of negative numbers)"}
}

func (p *c15) Floors(tier string) map[string]int64 {
	return map[string]int64{"evaluations": 100000, "distinct_nontrivial": 50000, "class:unsupported-kind": 50, "class:supported-kind": 100, "class:integral": 50}
}
