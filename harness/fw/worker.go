package fw

import (
	"fmt"
	"os"
	"runtime"
	"runtime/debug"
	"strings"
	"syscall"
	"time"
)

// WorkerOpts configures one worker process.
type WorkerOpts struct {
	Tier       string
	Seed       int64
	From, To   int
	Stride     int
	MarkerPath string
	OutPath    string
	NoRlimit   bool
}

// IsRaceBuild is set by the race-tagged file.
var IsRaceBuild = false

func safeRun(p Property, i int) (res Result) {
	defer func() {
		if r := recover(); r != nil {
			buf := make([]byte, 16<<10)
			n := runtime.Stack(buf, false)
			res.Viols = append(res.Viols, Violation{
				Class:  "panic",
				Msg:    fmt.Sprintf("panic recovered on the calling goroutine: %v", r),
				Detail: trimStack(string(buf[:n])),
			})
		}
	}()
	return p.Run(i)
}

func trimStack(s string) string {
	lines := strings.Split(s, "\n")
	if len(lines) > 40 {
		lines = lines[:40]
	}
	return strings.Join(lines, "\n")
}

// RunWorker executes the cases of one shard. It never returns on success of the
// whole shard other than through os.Exit(0).
func RunWorker(p Property, o WorkerOpts) {
	if !o.NoRlimit && !IsRaceBuild {
		lim := syscall.Rlimit{Cur: 8 << 30, Max: 8 << 30}
		syscall.Setrlimit(syscall.RLIMIT_AS, &lim)
	}
	debug.SetMaxStack(64 << 20)
	p.Init(o.Tier, o.Seed)
	n := p.N()
	if o.To > n || o.To <= 0 {
		o.To = n
	}
	marker, err := os.OpenFile(o.MarkerPath, os.O_CREATE|os.O_WRONLY, 0o644)
	if err != nil {
		fmt.Fprintln(os.Stderr, "VERIF-FRAMEWORK marker:", err)
		os.Exit(4)
	}
	out, err := os.OpenFile(o.OutPath, os.O_CREATE|os.O_WRONLY|os.O_APPEND, 0o644)
	if err != nil {
		fmt.Fprintln(os.Stderr, "VERIF-FRAMEWORK out:", err)
		os.Exit(4)
	}
	seen := map[uint64]struct{}{}
	var agg summary
	var newSigs []uint64
	lastFlush := time.Now()
	flush := func() {
		agg.Sigs = newSigs
		out.Write(append(append([]byte("S "), mustJSON(&agg)...), '\n'))
		agg = summary{}
		newSigs = nil
		lastFlush = time.Now()
	}
	samples := 0
	for i := o.From; i < o.To; i += o.Stride {
		marker.WriteAt([]byte(fmt.Sprintf("%-19d\n", i)), 0)
		res := safeRun(p, i)
		if res.Evals == 0 {
			res.Evals = 1
		}
		for k := range res.Viols {
			v := res.Viols[k]
			v.Index = i
			if v.Input == nil {
				v.Input = p.Describe(i)
			}
			out.Write(append(append([]byte("V "), mustJSON(&v)...), '\n'))
		}
		s := summary{Evals: res.Evals, Cases: 1, UniqueNT: res.UniqueNT, Classes: res.Classes, Obs: res.Obs}
		agg.merge(&s)
		nt := res.UniqueNT > 0
		for _, sg := range res.Sigs {
			h := hash64(sg)
			if _, ok := seen[h]; !ok {
				seen[h] = struct{}{}
				newSigs = append(newSigs, h)
				nt = true
			}
		}
		if samples < 2 && (nt || samples == 0) {
			agg.Samples = append(agg.Samples, p.Describe(i))
			samples++
		}
		if agg.Cases >= 2000 || time.Since(lastFlush) > 500*time.Millisecond {
			flush()
		}
	}
	marker.WriteAt([]byte(fmt.Sprintf("%-19d\n", -2)), 0)
	flush()
	out.Write([]byte("D\n"))
	out.Close()
	os.Exit(0)
}
