package fw

import (
	"fmt"
	"os"
	"path/filepath"
	"regexp"
	"sort"
	"strings"
)

var raceBlockRe = regexp.MustCompile(`(?s)WARNING: DATA RACE.*?==================`)
var raceFrameRe = regexp.MustCompile(`(?m)^  ([A-Za-z0-9_./*()\-]+)\(`)

// RaceViolations parses the race detector logs (GORACE log_path=<workDir>/race.w<k>)
// of the -race workers. Reports are counted from the logs, never from exit codes;
// every report with a library frame is a violation, deduplicated by the set of
// library functions involved. A report without a library frame is a race inside the
// harness and is reported as such.
func RaceViolations(id, workDir string, obs map[string]int64) []Violation {
	files, _ := filepath.Glob(filepath.Join(workDir, "race.w*"))
	var out []Violation
	seen := map[string]int{}
	first := map[string]string{}
	total := 0
	for _, f := range files {
		b, err := os.ReadFile(f)
		if err != nil {
			continue
		}
		for _, blk := range raceBlockRe.FindAllString(string(b), -1) {
			total++
			var fns []string
			for _, m := range raceFrameRe.FindAllStringSubmatch(blk, -1) {
				if strings.Contains(m[1], "tyler-sommer/stick") {
					fns = append(fns, m[1])
				}
			}
			sig := "no-library-frame"
			if len(fns) > 0 {
				sort.Strings(fns)
				var u []string
				for i, x := range fns {
					if i == 0 || x != fns[i-1] {
						u = append(u, x)
					}
				}
				sig = strings.Join(u, " ")
			}
			seen[sig]++
			if _, ok := first[sig]; !ok {
				first[sig] = blk
			}
		}
	}
	obs["race_reports_total"] = int64(total)
	obs["race_reports_distinct"] = int64(len(seen))
	obs["race_log_files"] = int64(len(files))
	var sigs []string
	for s := range seen {
		sigs = append(sigs, s)
	}
	sort.Strings(sigs)
	for _, s := range sigs {
		cls := "data-race"
		if s == "no-library-frame" {
			cls = "data-race-outside-library(harness)"
		}
		blk := first[s]
		if len(blk) > 6000 {
			blk = blk[:6000]
		}
		sg := s
		if len(sg) > 600 {
			sg = sg[:600]
		}
		out = append(out, Violation{Index: 0, Class: cls, Key: strings.ToLower(id) + ":race:" + s,
			Msg: fmt.Sprintf("the race detector reported %d data race(s) involving: %s", seen[s], sg), Detail: blk,
			Input: map[string]interface{}{"library_frames": s}})
	}
	return out
}
