// Package fw is the driver/worker framework shared by all property checks.
//
// A check is a Property: a deterministic, indexable list of cases (a function of
// tier and seed only) plus an oracle that runs one case against the real library.
// The driver shards the index space over worker child processes (the same binary
// with -worker). Workers publish the index of the case in flight in a marker file
// before touching the library, append violations immediately and aggregated
// summaries periodically to an output file, and send stderr to a file. When a
// worker dies (library panic in the tokeniser goroutine, runtime deadlock, stack
// exhaustion, step budget exceeded) the driver attributes the death to the case in
// the marker, records it as a violation and restarts a worker behind it, so the
// first defect does not mask the rest.
package fw

import (
	"encoding/json"
	"fmt"
	"hash/fnv"
	"sort"
)

// Violation is one oracle failure.
type Violation struct {
	Index  int         `json:"index"`
	Msg    string      `json:"msg"`              // what was observed vs expected
	Key    string      `json:"key,omitempty"`    // stable identity of the failing input/call site (known-findings matching)
	Class  string      `json:"class,omitempty"`  // coarse class used to group reports
	Input  interface{} `json:"input,omitempty"`  // the failing case, written out
	Detail interface{} `json:"detail,omitempty"` // extra observations
}

// Result is what running one case yields.
type Result struct {
	Evals    int              // evaluations performed by this case (default 1 when 0)
	Viols    []Violation      // oracle failures
	UniqueNT int              // non-trivial evaluations that are distinct by construction (enumerations)
	Sigs     []string         // signatures of non-trivial evaluations; deduplicated globally
	Classes  map[string]int   // outcome histogram increments
	Obs      map[string]int64 // observation counters: summed; keys starting with "max:" take the maximum
}

// AddClass increments an outcome class.
func (r *Result) AddClass(c string) {
	if r.Classes == nil {
		r.Classes = map[string]int{}
	}
	r.Classes[c]++
}

// AddObs adds to an observation counter.
func (r *Result) AddObs(k string, v int64) {
	if r.Obs == nil {
		r.Obs = map[string]int64{}
	}
	if len(k) > 4 && k[:4] == "max:" {
		if v > r.Obs[k] {
			r.Obs[k] = v
		}
		return
	}
	r.Obs[k] += v
}

// Fail records a violation.
func (r *Result) Fail(class, key, msg string, input interface{}) {
	r.Viols = append(r.Viols, Violation{Msg: msg, Key: key, Class: class, Input: input})
}

// Property is one check.
type Property interface {
	ID() string
	// Level is the MANIFEST/EVIDENCE level category.
	Level() string
	// Init prepares the deterministic case list for (tier, seed).
	Init(tier string, seed int64)
	// N is the number of cases.
	N() int
	// Run executes case i against the library. A panic escaping Run is recorded
	// as a violation by the worker.
	Run(i int) Result
	// Describe writes case i out (for samples and replay files).
	Describe(i int) interface{}
	// Rule states how cases are generated and what makes one non-trivial/distinct.
	Rule() string
	Assumptions() []string
	// Exhaustive reports whether the run enumerates a finite space completely.
	Exhaustive() bool
}

// Floors can be implemented by a property to declare the minimum observations
// below which a run is inconclusive rather than a pass.
type Floors interface {
	// Floors returns minimum values per observation key (after aggregation);
	// the special keys "evaluations" and "distinct_nontrivial" refer to the totals.
	Floors(tier string) map[string]int64
}

// Finisher can be implemented by a property that needs a driver-side step after
// all workers have finished (e.g. parsing race-detector logs).
type Finisher interface {
	Finish(d *DriverInfo) []Violation
}

// BuildReq lets a property ask for a special build or worker layout.
type BuildReq interface {
	Race() bool      // run workers from the -race binary
	MaxWorkers() int // 0 = default (number of CPUs)
}

// DriverInfo is what a Finisher may look at.
type DriverInfo struct {
	WorkDir string
	Tier    string
	Seed    int64
	Obs     map[string]int64
}

var registry = map[string]func() Property{}

// Register adds a property constructor.
func Register(id string, f func() Property) { registry[id] = f }

// Lookup returns a fresh property instance.
func Lookup(id string) (Property, bool) {
	f, ok := registry[id]
	if !ok {
		return nil, false
	}
	return f(), true
}

// IDs lists registered properties.
func IDs() []string {
	var r []string
	for k := range registry {
		r = append(r, k)
	}
	sort.Strings(r)
	return r
}

func hash64(s string) uint64 {
	h := fnv.New64a()
	h.Write([]byte(s))
	return h.Sum64()
}

// summary is the aggregated state a worker flushes periodically.
type summary struct {
	Evals    int              `json:"evals"`
	Cases    int              `json:"cases"`
	UniqueNT int              `json:"unt"`
	Sigs     []uint64         `json:"sigs,omitempty"`
	Classes  map[string]int   `json:"cls,omitempty"`
	Obs      map[string]int64 `json:"obs,omitempty"`
	Samples  []interface{}    `json:"smp,omitempty"`
}

func (s *summary) merge(o *summary) {
	s.Evals += o.Evals
	s.Cases += o.Cases
	s.UniqueNT += o.UniqueNT
	for k, v := range o.Classes {
		if s.Classes == nil {
			s.Classes = map[string]int{}
		}
		s.Classes[k] += v
	}
	for k, v := range o.Obs {
		if s.Obs == nil {
			s.Obs = map[string]int64{}
		}
		if len(k) > 4 && k[:4] == "max:" {
			if v > s.Obs[k] {
				s.Obs[k] = v
			}
		} else {
			s.Obs[k] += v
		}
	}
}

func mustJSON(v interface{}) []byte {
	b, err := json.Marshal(v)
	if err != nil {
		b, _ = json.Marshal(fmt.Sprintf("%#v", v))
	}
	return b
}
