package fw

import (
	"bufio"
	"bytes"
	"encoding/json"
	"fmt"
	"os"
	"os/exec"
	"path/filepath"
	"regexp"
	"runtime"
	"sort"
	"strconv"
	"strings"
	"sync"
	"sync/atomic"
	"syscall"
	"time"
)

// DriverOpts configures a check run.
type DriverOpts struct {
	Tier      string
	Seed      int64
	VerifDir  string // /verif
	SelfBin   string // plain worker binary
	RaceBin   string // -race worker binary (may be empty)
	Only      int    // >=0: run just this case index (replay)
	CPUBudget float64
	Quiet     bool
}

type knownFinding struct {
	Status   string `json:"status"` // "finding" | "fixed"
	Property string `json:"property"`
	Key      string `json:"key"`
	What     string `json:"what"`
	Commit   string `json:"commit,omitempty"`
}

type workerState struct {
	k          int
	crashes    int
	viols      []Violation
	inconcl    []string
	frameworkE string
}

var (
	rePanic = regexp.MustCompile(`(?m)^(panic: .*|fatal error: .*|VERIF-BUDGET.*|runtime: goroutine stack exceeds.*)$`)
)

func classifyDeath(stderr string) (class, msg string) {
	m := rePanic.FindString(stderr)
	switch {
	case strings.Contains(stderr, "VERIF-BUDGET"):
		i := strings.Index(stderr, "VERIF-BUDGET")
		line := stderr[i:]
		if j := strings.IndexByte(line, '\n'); j >= 0 {
			line = line[:j]
		}
		return "budget", line
	case strings.Contains(stderr, "all goroutines are asleep"):
		return "deadlock", "fatal error: all goroutines are asleep - deadlock! (parser blocked on the token channel)"
	case strings.Contains(stderr, "goroutine stack exceeds") || strings.Contains(stderr, "stack overflow"):
		return "stack", "stack exhausted: " + m
	case strings.Contains(stderr, "out of memory") || strings.Contains(stderr, "cannot allocate memory"):
		return "oom", "memory exhausted: " + m
	case strings.Contains(stderr, "VERIF-FRAMEWORK"):
		return "framework", stderr
	case m != "":
		return "crash", "process died: " + m
	}
	return "died", "process died without a recognisable message"
}

// procCPU returns utime+stime in seconds and whether every thread is sleeping.
func procCPU(pid int) (cpu float64, allSleeping bool, ok bool) {
	b, err := os.ReadFile(fmt.Sprintf("/proc/%d/stat", pid))
	if err != nil {
		return 0, false, false
	}
	s := string(b)
	i := strings.LastIndexByte(s, ')')
	if i < 0 {
		return 0, false, false
	}
	f := strings.Fields(s[i+1:])
	if len(f) < 13 {
		return 0, false, false
	}
	ut, _ := strconv.ParseFloat(f[11], 64)
	st, _ := strconv.ParseFloat(f[12], 64)
	cpu = (ut + st) / 100.0
	allSleeping = true
	tasks, _ := filepath.Glob(fmt.Sprintf("/proc/%d/task/*/stat", pid))
	for _, t := range tasks {
		tb, err := os.ReadFile(t)
		if err != nil {
			continue
		}
		ts := string(tb)
		j := strings.LastIndexByte(ts, ')')
		if j < 0 || j+2 >= len(ts) {
			continue
		}
		if st := ts[j+2]; st != 'S' {
			allSleeping = false
		}
	}
	return cpu, allSleeping, true
}

func readMarker(path string) int {
	b, err := os.ReadFile(path)
	if err != nil {
		return -1
	}
	v, err := strconv.Atoi(strings.TrimSpace(string(b)))
	if err != nil {
		return -1
	}
	return v
}

// RunDriver runs the check and returns the process exit code.
func RunDriver(p Property, o DriverOpts) int {
	t0 := time.Now()
	id := p.ID()
	workDir := filepath.Join(o.VerifDir, "work", id, "run")
	os.RemoveAll(workDir)
	if err := os.MkdirAll(workDir, 0o755); err != nil {
		fmt.Println("FRAMEWORK-ERROR", err)
		return 2
	}
	p.Init(o.Tier, o.Seed)
	n := p.N()
	if n == 0 {
		fmt.Printf("INCONCLUSIVE property=%s reason=no cases generated\n", id)
		return 2
	}
	bin := o.SelfBin
	race := false
	K := runtime.NumCPU()
	if br, ok := p.(BuildReq); ok {
		if br.Race() {
			race = true
			bin = o.RaceBin
		}
		if m := br.MaxWorkers(); m > 0 && m < K {
			K = m
		}
	}
	if K > n {
		K = n
	}
	from, to, stride := 0, n, K
	if o.Only >= 0 {
		K, from, to, stride = 1, o.Only, o.Only+1, 1
	}
	cpuBudget := o.CPUBudget
	if cpuBudget <= 0 {
		cpuBudget = 10
	}
	if cb, ok := p.(interface{ CPUBudget() float64 }); ok {
		cpuBudget = cb.CPUBudget()
	}

	// an extra worker that re-runs a strided sample of the cases under the race detector
	sampleStride := 0
	if rs, ok := p.(interface{ RaceSample(tier string) int }); ok && o.RaceBin != "" && o.Only < 0 {
		sampleStride = rs.RaceSample(o.Tier)
	}
	KK := K
	if sampleStride > 0 {
		KK = K + 1
	}
	anyRace := race || sampleStride > 0
	states := make([]*workerState, KK)
	var wg sync.WaitGroup
	var totalDeaths, stopAll int32
	for k := 0; k < KK; k++ {
		ws := &workerState{k: k}
		states[k] = ws
		wg.Add(1)
		go func(k int) {
			defer wg.Done()
			start := from + k
			stride := stride
			marker := filepath.Join(workDir, fmt.Sprintf("w%d.marker", k))
			outp := filepath.Join(workDir, fmt.Sprintf("w%d.out", k))
			wbin, wrace := bin, race
			if rw, ok := p.(interface{ RaceWorker(k, K int) bool }); ok && race {
				if !rw.RaceWorker(k, K) {
					wbin, wrace = o.SelfBin, false
				}
			}
			if k == K { // the race sampler
				start, stride, wbin, wrace = from, sampleStride, o.RaceBin, true
			}
			cpuBudget := cpuBudget
			if wrace {
				cpuBudget *= 10
			}
			for start < to {
				os.Remove(marker)
				errp := filepath.Join(workDir, fmt.Sprintf("w%d.%d.err", k, ws.crashes))
				errf, _ := os.Create(errp)
				args := []string{"-worker", "-prop", id, "-tier", o.Tier, "-seed", strconv.FormatInt(o.Seed, 10),
					"-from", strconv.Itoa(start), "-to", strconv.Itoa(to), "-stride", strconv.Itoa(stride),
					"-marker", marker, "-out", outp}
				cmd := exec.Command(wbin, args...)
				cmd.Stdout = errf
				cmd.Stderr = errf
				cmd.Env = append(os.Environ(), "GOTRACEBACK=all")
				if wrace {
					cmd.Env = append(cmd.Env, "GORACE=halt_on_error=0 exitcode=0 log_path="+filepath.Join(workDir, fmt.Sprintf("race.w%d", k)))
				}
				if err := cmd.Start(); err != nil {
					ws.frameworkE = "cannot start worker: " + err.Error()
					errf.Close()
					return
				}
				done := make(chan error, 1)
				go func() { done <- cmd.Wait() }()
				var werr error
				lastIdx, cpuAt, wallAt := -1, 0.0, time.Now()
				sleepingSince := time.Time{}
				verdict, verdictMsg := "", ""
			poll:
				for {
					select {
					case werr = <-done:
						break poll
					case <-time.After(200 * time.Millisecond):
					}
					if atomic.LoadInt32(&stopAll) == 1 {
						// the verdict is in (eight worker processes died): nothing further is learnt by waiting
						// for the rest of a tree that hangs or crashes everywhere
						cmd.Process.Kill()
						<-done
						errf.Close()
						ws.inconcl = append(ws.inconcl, fmt.Sprintf("worker %d stopped: eight worker processes have died in this run; the remaining cases of its shard were not run", k))
						return
					}
					idx := readMarker(marker)
					cpu, sleeping, ok := procCPU(cmd.Process.Pid)
					if !ok {
						continue
					}
					if idx != lastIdx {
						lastIdx, cpuAt, wallAt = idx, cpu, time.Now()
						sleepingSince = time.Time{}
						continue
					}
					if idx < 0 {
						// still initialising (or finished): only the generous wall clock applies
						if time.Since(wallAt) > 600*time.Second {
							verdict, verdictMsg = "inconclusive", "worker made no progress outside any case for 600 s"
						}
					} else if cpu-cpuAt > cpuBudget {
						verdict = "cpu-budget"
						verdictMsg = fmt.Sprintf("case consumed more than %.0f CPU-seconds without finishing (normal: milliseconds): treated as a hang", cpuBudget)
					} else if sleeping && cpu-cpuAt < 0.05 {
						if sleepingSince.IsZero() {
							sleepingSince = time.Now()
						} else if time.Since(sleepingSince) > 20*time.Second {
							verdict, verdictMsg = "blocked", "every thread of the worker slept for 20 s with the case unfinished and no CPU consumed: blocked forever"
						}
					} else {
						sleepingSince = time.Time{}
						if time.Since(wallAt) > 300*time.Second {
							verdict, verdictMsg = "inconclusive", "wall-clock watchdog (300 s in one case) fired before any deterministic verdict"
						}
					}
					if verdict != "" {
						cmd.Process.Signal(syscall.SIGQUIT)
						select {
						case werr = <-done:
						case <-time.After(3 * time.Second):
							cmd.Process.Kill()
							werr = <-done
						}
						break poll
					}
				}
				errf.Close()
				idx := readMarker(marker)
				if (werr == nil || idx == -2) && verdict == "" {
					return // shard complete (marker -2 = every case of the shard was run)
				}
				eb, _ := os.ReadFile(errp)
				class, msg := classifyDeath(string(eb))
				if verdict == "inconclusive" {
					ws.inconcl = append(ws.inconcl, fmt.Sprintf("case %d: %s", idx, verdictMsg))
				} else {
					if verdict != "" {
						class, msg = verdict, verdictMsg
					}
					if class == "framework" || idx < 0 {
						ws.frameworkE = fmt.Sprintf("worker %d died outside any case (marker=%d): %s", k, idx, tail(string(eb), 2000))
						return
					}
					ws.viols = append(ws.viols, Violation{Index: idx, Class: class, Msg: msg, Detail: tail(string(eb), 3000)})
				}
				ws.crashes++
				if atomic.AddInt32(&totalDeaths, 1) >= 8 {
					atomic.StoreInt32(&stopAll, 1)
				}
				if ws.crashes >= 12 {
					ws.inconcl = append(ws.inconcl, fmt.Sprintf("worker %d: more than 12 process deaths; remaining cases of this shard not run", k))
					return
				}
				if idx < 0 {
					return
				}
				start = idx + stride
			}
		}(k)
	}
	wg.Wait()

	// aggregate
	var total summary
	sigs := map[uint64]struct{}{}
	var viols []Violation
	var samples []interface{}
	var inconcl []string
	for k := 0; k < KK; k++ {
		ws := states[k]
		if ws.frameworkE != "" {
			fmt.Printf("FRAMEWORK-ERROR property=%s %s\n", id, ws.frameworkE)
			return 2
		}
		inconcl = append(inconcl, ws.inconcl...)
		f, err := os.Open(filepath.Join(workDir, fmt.Sprintf("w%d.out", k)))
		if err == nil {
			sc := bufio.NewScanner(f)
			sc.Buffer(make([]byte, 1<<20), 256<<20)
			for sc.Scan() {
				line := sc.Bytes()
				if len(line) < 2 {
					continue
				}
				switch line[0] {
				case 'V':
					var v Violation
					if json.Unmarshal(line[2:], &v) == nil {
						if v.Key == "" {
							v.Key = fmt.Sprintf("%s:%s", v.Class, string(mustJSON(v.Input)))
						}
						viols = append(viols, v)
					}
				case 'S':
					var s summary
					if json.Unmarshal(line[2:], &s) == nil {
						total.merge(&s)
						for _, h := range s.Sigs {
							sigs[h] = struct{}{}
						}
						if len(samples) < 6 {
							samples = append(samples, s.Samples...)
						}
					}
				}
			}
			f.Close()
		}
		for _, v := range ws.viols {
			v.Input = p.Describe(v.Index)
			if v.Key == "" {
				v.Key = fmt.Sprintf("%s:%s", v.Class, string(mustJSON(v.Input)))
			}
			viols = append(viols, v)
			total.Evals++
			total.Cases++
		}
	}
	if total.Obs == nil {
		total.Obs = map[string]int64{}
	}
	if anyRace {
		viols = append(viols, RaceViolations(id, workDir, total.Obs)...)
	}
	if fin, ok := p.(Finisher); ok {
		viols = append(viols, fin.Finish(&DriverInfo{WorkDir: workDir, Tier: o.Tier, Seed: o.Seed, Obs: total.Obs})...)
	}
	sort.SliceStable(viols, func(a, b int) bool { return viols[a].Index < viols[b].Index })

	// known findings
	var known []knownFinding
	if b, err := os.ReadFile(filepath.Join(o.VerifDir, "known_findings.json")); err == nil {
		if err := json.Unmarshal(b, &known); err != nil {
			fmt.Printf("FRAMEWORK-ERROR known_findings.json: %v\n", err)
			return 2
		}
	}
	matched := map[int]int{}
	var unmatched []Violation
	for _, v := range viols {
		hit := -1
		for i, kf := range known {
			if kf.Status == "finding" && kf.Property == id && kf.Key != "" && kf.Key == v.Key {
				hit = i
				break
			}
		}
		if hit >= 0 {
			matched[hit]++
		} else {
			unmatched = append(unmatched, v)
		}
	}
	for i, kf := range known {
		if c := matched[i]; c > 0 {
			fmt.Printf("KNOWN-FINDING: property=%s %s (key=%s, %d occurrence(s) this run)\n", id, kf.What, kf.Key, c)
		}
	}

	// replay files + VIOLATION lines
	replayDir := filepath.Join(o.VerifDir, "replay", id)
	if o.Only < 0 {
		os.RemoveAll(replayDir)
	}
	printed := 0
	byClass := map[string]int{}
	for i, v := range unmatched {
		byClass[v.Class]++
		if printed >= 30 || byClass[v.Class] > 8 {
			continue
		}
		os.MkdirAll(replayDir, 0o755)
		path := filepath.Join(replayDir, fmt.Sprintf("%s-%d-case%d-%d.json", o.Tier, o.Seed, v.Index, i))
		rec := map[string]interface{}{"property": id, "tier": o.Tier, "seed": o.Seed, "index": v.Index,
			"class": v.Class, "key": v.Key, "msg": v.Msg, "input": v.Input, "detail": v.Detail}
		b, _ := json.MarshalIndent(rec, "", " ")
		os.WriteFile(path, b, 0o644)
		fmt.Printf("VIOLATION property=%s replay=%s\n", id, path)
		if !o.Quiet {
			fmt.Printf("  [%s] %s\n  input: %s\n", v.Class, oneLine(v.Msg, 600), oneLine(string(mustJSON(v.Input)), 600))
		}
		printed++
	}
	if len(unmatched) > printed {
		fmt.Printf("  (%d further violations not listed; classes: %v)\n", len(unmatched)-printed, byClass)
	}

	distinct := total.UniqueNT + len(sigs)
	// floors
	if fl, ok := p.(Floors); ok && o.Only < 0 {
		for k, min := range fl.Floors(o.Tier) {
			var have int64
			switch k {
			case "evaluations":
				have = int64(total.Evals)
			case "distinct_nontrivial":
				have = int64(distinct)
			default:
				if strings.HasPrefix(k, "class:") {
					// an outcome class that must have been seen: a workload family that silently stopped running
					// (an edit that did not apply, a generator that produces nothing) leaves the run inconclusive
					have = int64(total.Classes[strings.TrimPrefix(k, "class:")])
				} else {
					have = total.Obs[k]
				}
			}
			if have < min {
				inconcl = append(inconcl, fmt.Sprintf("observation floor not reached: %s=%d < %d", k, have, min))
			}
		}
	}
	if o.Only < 0 && total.Cases < n && countCrashes(states) == 0 && len(inconcl) == 0 && len(unmatched) == 0 {
		inconcl = append(inconcl, fmt.Sprintf("only %d of %d cases were executed", total.Cases, n))
	}

	if len(samples) == 0 {
		samples = append(samples, p.Describe(0))
	}
	if len(samples) > 6 {
		samples = samples[:6]
	}
	cov := map[string]interface{}{
		"evaluations":         total.Evals,
		"cases":               total.Cases,
		"cases_planned":       n,
		"distinct_nontrivial": distinct,
		"rule":                p.Rule(),
		"samples":             samples,
		"exhaustive":          p.Exhaustive(),
		"outcome_classes":     total.Classes,
		"observations":        total.Obs,
		"workers":             KK,
		"race_build":          race,
		"process_deaths":      countCrashes(states),
		"known_findings_hit":  len(viols) - len(unmatched),
		"inconclusive":        inconcl,
	}
	ev := map[string]interface{}{
		"property_id": id,
		"tier":        o.Tier,
		"seed":        o.Seed,
		"level":       p.Level(),
		"coverage":    cov,
		"assumptions": p.Assumptions(),
		"wall_s":      time.Since(t0).Seconds(),
		"violations":  len(unmatched),
	}
	if o.Only < 0 {
		b, _ := json.MarshalIndent(ev, "", " ")
		if scratch := os.Getenv("VERIF_REPO"); scratch != "" {
			// a run against a scratch copy of the library (a seeded change): what it saw is no evidence about /repo
			ev["library_tree"] = scratch
			b, _ = json.MarshalIndent(ev, "", " ")
			os.WriteFile(filepath.Join(o.VerifDir, "work", id, "evidence-scratch.json"), append(b, '\n'), 0o644)
		} else {
			os.MkdirAll(filepath.Join(o.VerifDir, "evidence"), 0o755)
			os.WriteFile(filepath.Join(o.VerifDir, "evidence", id+".json"), append(b, '\n'), 0o644)
		}
	}
	if !o.Quiet {
		fmt.Printf("property=%s tier=%s seed=%d cases=%d/%d evaluations=%d distinct_nontrivial=%d violations=%d known=%d deaths=%d wall=%.1fs\n",
			id, o.Tier, o.Seed, total.Cases, n, total.Evals, distinct, len(unmatched), len(viols)-len(unmatched), countCrashes(states), time.Since(t0).Seconds())
		if len(total.Classes) > 0 {
			fmt.Printf("  outcome classes: %s\n", fmtMap(total.Classes))
		}
		if len(total.Obs) > 0 {
			fmt.Printf("  observations: %s\n", fmtMap64(total.Obs))
		}
	}
	if len(unmatched) > 0 {
		return 1
	}
	if len(inconcl) > 0 {
		for _, s := range inconcl {
			fmt.Printf("INCONCLUSIVE property=%s reason=%s\n", id, s)
		}
		return 2
	}
	return 0
}

func countCrashes(ws []*workerState) int {
	c := 0
	for _, w := range ws {
		c += w.crashes
	}
	return c
}

func tail(s string, n int) string {
	if len(s) > n {
		return "…" + s[len(s)-n:]
	}
	return s
}

func oneLine(s string, n int) string {
	s = strings.ReplaceAll(s, "\n", "\\n")
	if len(s) > n {
		s = s[:n] + "…"
	}
	return s
}

func fmtMap(m map[string]int) string {
	keys := make([]string, 0, len(m))
	for k := range m {
		keys = append(keys, k)
	}
	sort.Strings(keys)
	var b bytes.Buffer
	for i, k := range keys {
		if i >= 40 {
			fmt.Fprintf(&b, " …(+%d)", len(keys)-i)
			break
		}
		fmt.Fprintf(&b, " %s=%d", k, m[k])
	}
	return b.String()
}

func fmtMap64(m map[string]int64) string {
	keys := make([]string, 0, len(m))
	for k := range m {
		keys = append(keys, k)
	}
	sort.Strings(keys)
	var b bytes.Buffer
	for i, k := range keys {
		if i >= 40 {
			fmt.Fprintf(&b, " …(+%d)", len(keys)-i)
			break
		}
		fmt.Fprintf(&b, " %s=%d", k, m[k])
	}
	return b.String()
}
