//go:build race

package fw

func init() { IsRaceBuild = true }
