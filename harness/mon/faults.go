package mon

import (
	"bufio"
	"bytes"
	"errors"
	"io"
	"io/ioutil"
	"os"
	"strings"
	"testing/iotest"

	"github.com/tyler-sommer/stick"
)

// ErrInjected is the error fault-injecting writers and loaders return.
var ErrInjected = errors.New("verif: injected fault")

// FaultWriter fails at its FailAt-th Write (1-based; 0 = never) and records every call.
type FaultWriter struct {
	FailAt  int
	Partial bool // accept half of the failing write's bytes
	Full    bool // accept all of the failing write's bytes and report an error all the same (a quota writer)
	Calls   int
	Got     []byte // bytes accepted
	After   int    // Write calls made after the failed one
	failed  bool
}

func (w *FaultWriter) Write(p []byte) (int, error) {
	w.Calls++
	if w.failed {
		w.After++
		return 0, ErrInjected
	}
	if w.FailAt > 0 && w.Calls == w.FailAt {
		w.failed = true
		n := 0
		if w.Partial {
			n = len(p) / 2
			w.Got = append(w.Got, p[:n]...)
		}
		if w.Full {
			n = len(p)
			w.Got = append(w.Got, p...)
		}
		return n, ErrInjected
	}
	w.Got = append(w.Got, p...)
	return len(p), nil
}

// FaultLoader fails at its FailAt-th Load (1-based; 0 = never), either with an
// error or by handing out a template whose source is a syntax error.
type FaultLoader struct {
	Inner     stick.Loader
	FailAt    int
	BadSource bool
	BadReader bool // hand out a template whose Contents() reader fails after half of the source
	Loads     int
	Names     []string
}

func (l *FaultLoader) Load(name string) (stick.Template, error) {
	l.Loads++
	l.Names = append(l.Names, name)
	if l.FailAt > 0 && l.Loads == l.FailAt {
		if l.BadReader {
			t, err := l.Inner.Load(name)
			if err != nil {
				return nil, err
			}
			src, _ := ioutil.ReadAll(t.Contents())
			// the error a read fails with is the reader's business: an injected one, and the ones the standard
			// library has for streams that break off (a failed read is a failed load whatever the error is called)
			errs := []error{ErrInjected, io.ErrUnexpectedEOF, io.ErrClosedPipe, io.ErrNoProgress, os.ErrDeadlineExceeded, io.ErrShortBuffer, os.ErrClosed}
			return &failingTemplate{name: name, src: src[:len(src)/2], err: errs[(l.FailAt+len(name))%len(errs)]}, nil
		}
		if l.BadSource {
			// a different kind of syntax error from load to load: each is refused by another part of the parser
			src := BrokenSources[(l.FailAt+len(name))%len(BrokenSources)]
			return (&stick.MemoryLoader{Templates: map[string]string{name: src}}).Load(name)
		}
		return nil, ErrInjected
	}
	return l.Inner.Load(name)
}

// BrokenSources are templates that do not parse, each for another reason.
var BrokenSources = []string{
	"broken {% if %} {{ ", "ok {% for 1 in b %}x{% endfor %} tail", "ok {% for k, 2 in b %}x{% endfor %}", "ok {% for a in b c %}x{% endfor %}", "ok {{ x is 2 }} tail", "ok {{ x is 'lit' }}",
	"ok {% zork %}", "ok {{ 'unclosed }}", "ok {% block b %}", "ok {{ a @ b }}", "ok {% include %}", "ok {{ 1 + }}", "ok {% extends 'a' %}{% extends 'b' %}", "ok {% set a %}x", "ok {{ a ? b }}", "ok {# unclosed",
}

// failingTemplate's reader delivers the first half of the source and then fails.
type failingTemplate struct {
	name string
	src  []byte
	err  error
}

func (t *failingTemplate) Name() string { return t.name }
func (t *failingTemplate) Contents() io.Reader {
	err := t.err
	if err == nil {
		err = ErrInjected
	}
	return io.MultiReader(bytes.NewReader(t.src), failingReader{err})
}

type failingReader struct{ err error }

func (f failingReader) Read([]byte) (int, error) { return 0, f.err }

// ShapedLoader is a memory loader whose templates hand out their source through readers of different, all
// legitimate, shapes: everything at once, a byte at a time, in halves, the last bytes together with io.EOF, and readers that have other
// methods next to Read (a buffered reader whose Size is its buffer's, one whose Len counts lines, a bytes.Buffer).
// The shape is a function of the template's name and text, so that a replayed case meets the same reader.
type ShapedLoader struct {
	Templates map[string]string
}

type shapedTemplate struct {
	name, src string
}

func (t *shapedTemplate) Name() string { return t.name }

func (t *shapedTemplate) Contents() io.Reader {
	h := uint32(2166136261)
	for _, c := range []byte(t.name + "\x00" + t.src) {
		h = (h ^ uint32(c)) * 16777619
	}
	var r io.Reader = strings.NewReader(t.src)
	switch (h >> 7) % 9 {
	case 5:
		// a reader with methods that have a meaning of their own: Size is the size of a buffer, not of the source
		return bufio.NewReaderSize(r, 16)
	case 6:
		// ... Len counts lines (io.Reader says nothing about a Len method)
		return &lineCountReader{r: r, lines: strings.Count(t.src, "\n")}
	case 7:
		return bytes.NewBufferString(t.src)
	case 1:
		return iotest.OneByteReader(r)
	case 2:
		return iotest.HalfReader(r)
	case 3:
		return iotest.DataErrReader(r)
	case 4:
		return iotest.DataErrReader(iotest.HalfReader(r))
	}
	return r
}

// lineCountReader is a reader whose Len method reports how many lines are left, and whose Size is the number of
// characters of the source.
type lineCountReader struct {
	r     io.Reader
	lines int
}

func (l *lineCountReader) Read(p []byte) (int, error) {
	n, err := l.r.Read(p)
	l.lines -= bytes.Count(p[:n], []byte("\n"))
	return n, err
}
func (l *lineCountReader) Len() int    { return l.lines }
func (l *lineCountReader) Size() int64 { return int64(l.lines) }

func (l *ShapedLoader) Load(name string) (stick.Template, error) {
	src, ok := l.Templates[name]
	if !ok {
		return nil, &os.PathError{Op: "load", Path: name, Err: os.ErrNotExist}
	}
	return &shapedTemplate{name, src}, nil
}

// FaultStringWriter is a FaultWriter that also offers WriteString, as most real destinations do; a call of either
// method counts as one write.
type FaultStringWriter struct {
	*FaultWriter
}

func (w *FaultStringWriter) WriteString(s string) (int, error) { return w.FaultWriter.Write([]byte(s)) }
