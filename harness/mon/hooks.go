// Package mon holds the monitors that subscribe to the verif-tagged hooks of the
// library: step budgets (hang verdicts that do not depend on the clock), the live
// tokeniser gauge, executor node-kind tallies and the end-of-execute invariant.
package mon

import (
	"fmt"
	"os"
	"reflect"
	"sync/atomic"

	"github.com/tyler-sommer/stick"
	"github.com/tyler-sommer/stick/parse"
)

// Counters are process-global. The tokeniser runs on its own goroutine, so the
// lexer counters are atomics; parser and executor counters are only touched on the
// calling goroutine in single-threaded checks and are atomics as well so that the
// concurrent checks may leave the hooks installed.
var (
	LexSteps   int64
	ParseSteps int64
	ExecSteps  int64
	LiveLexers int64
	LexStarted int64

	lexBudget   int64 = 1 << 62
	parseBudget int64 = 1 << 62
	execBudget  int64 = 1 << 62

	// TotalLex/TotalParse/TotalExec accumulate over the whole worker life (evidence).
	TotalLex, TotalParse, TotalExec int64
	MaxLex, MaxParse, MaxExec       int64

	kindTally  map[string]int64
	tallyKinds bool

	// ExecEndBad counts successful executes whose state was unbalanced.
	ExecEndBad  int64
	ExecEndSeen int64
	ExecEndMsg  atomic.Value
)

// Install wires the hooks. Called once, before any library call.
func Install() {
	parse.VerifLexStep = func() {
		if atomic.AddInt64(&LexSteps, 1) > atomic.LoadInt64(&lexBudget) {
			fmt.Fprintf(os.Stderr, "VERIF-BUDGET lexer: more than %d tokeniser steps for one input\n", lexBudget)
			os.Exit(3)
		}
	}
	parse.VerifLexStart = func() { atomic.AddInt64(&LiveLexers, 1); atomic.AddInt64(&LexStarted, 1) }
	parse.VerifLexExit = func() { atomic.AddInt64(&LiveLexers, -1) }
	parse.VerifParseStep = func() {
		if atomic.AddInt64(&ParseSteps, 1) > atomic.LoadInt64(&parseBudget) {
			fmt.Fprintf(os.Stderr, "VERIF-BUDGET parser: more than %d token reads for one input\n", parseBudget)
			os.Exit(3)
		}
	}
	stick.VerifExecStep = func(n parse.Node) {
		if atomic.AddInt64(&ExecSteps, 1) > atomic.LoadInt64(&execBudget) {
			fmt.Fprintf(os.Stderr, "VERIF-BUDGET exec: more than %d executor steps for one call\n", execBudget)
			os.Exit(3)
		}
		if tallyKinds && n != nil {
			kindTally[reflect.TypeOf(n).Elem().Name()]++
		}
	}
	stick.VerifExecEnd = func(depth int, outOK, noCur, nameOK bool, err error) {
		atomic.AddInt64(&ExecEndSeen, 1)
		if err != nil {
			return // state is discarded on error paths and legitimately unbalanced
		}
		if depth != 1 || !outOK || !noCur || !nameOK {
			atomic.AddInt64(&ExecEndBad, 1)
			ExecEndMsg.Store(fmt.Sprintf("successful execute ended with scope depth %d (want 1), writer restored=%v, no current block=%v, name restored=%v", depth, outOK, noCur, nameOK))
		}
	}
}

// TallyKinds switches the node-kind tally on (single-threaded checks only).
func TallyKinds() {
	kindTally = map[string]int64{}
	tallyKinds = true
}

// Kinds returns and clears the tally.
func Kinds() map[string]int64 {
	k := kindTally
	kindTally = map[string]int64{}
	return k
}

func bump(total, max *int64, v int64) {
	*total += v
	if v > *max {
		*max = v
	}
}

// BeginCall resets the per-call counters and sets budgets for an input of n bytes.
// Budgets are generous linear functions of the input size; exceeding one is a
// verdict that does not depend on machine load.
func BeginCall(n int) {
	bump(&TotalLex, &MaxLex, atomic.SwapInt64(&LexSteps, 0))
	bump(&TotalParse, &MaxParse, atomic.SwapInt64(&ParseSteps, 0))
	bump(&TotalExec, &MaxExec, atomic.SwapInt64(&ExecSteps, 0))
	atomic.StoreInt64(&lexBudget, int64(64*n+4096))
	atomic.StoreInt64(&parseBudget, int64(64*n+4096))
	atomic.StoreInt64(&execBudget, 20_000_000)
}

// BeginExec resets the per-call counters for an Execute call. One Execute may
// load and parse the same template many times (an include inside a loop), so only
// the executor budget is meaningful here; parse termination is C01's business.
func BeginExec() {
	BeginCall(0)
	atomic.StoreInt64(&lexBudget, 2_000_000_000)
	atomic.StoreInt64(&parseBudget, 2_000_000_000)
}

// SetBudgets overrides budgets (used by checks whose one call loads several templates).
func SetBudgets(lex, par, ex int64) {
	atomic.StoreInt64(&lexBudget, lex)
	atomic.StoreInt64(&parseBudget, par)
	atomic.StoreInt64(&execBudget, ex)
}

// EndCall folds the per-call counters into the totals and returns them.
func EndCall() (lex, par, ex int64) {
	lex = atomic.SwapInt64(&LexSteps, 0)
	par = atomic.SwapInt64(&ParseSteps, 0)
	ex = atomic.SwapInt64(&ExecSteps, 0)
	bump(&TotalLex, &MaxLex, lex)
	bump(&TotalParse, &MaxParse, par)
	bump(&TotalExec, &MaxExec, ex)
	return
}

// TakeExecEndBad returns and clears the invariant failure, if any.
func TakeExecEndBad() string {
	if atomic.SwapInt64(&ExecEndBad, 0) > 0 {
		s, _ := ExecEndMsg.Load().(string)
		return s
	}
	return ""
}
