package mon

import (
	"bytes"
	"github.com/tyler-sommer/stick"
	"github.com/tyler-sommer/stick/twig"
	"sort"
	"strings"

	"verifharness/model"
)

// Recorder collects the callback invocations the library makes.
type Recorder struct {
	Calls []model.Call
}

func vals(args []stick.Value) []interface{} {
	out := make([]interface{}, len(args))
	for i, a := range args {
		out[i] = a
	}
	return out
}

func reprs(vs []interface{}) []string {
	out := make([]string, len(vs))
	for i, v := range vs {
		out[i] = model.Repr(v)
	}
	return out
}

func libStr(v interface{}) string  { return stick.CoerceString(v) }
func libNum(v interface{}) float64 { return stick.CoerceNumber(v) }
func libTruth(v interface{}) bool  { return stick.CoerceBool(v) }

// Register installs the recording functions, filters and tests (model.FuncNames etc.) on env.
func (r *Recorder) Register(env *stick.Env) {
	for _, name := range model.FuncNames {
		name := name
		env.Functions[name] = func(ctx stick.Context, args ...stick.Value) stick.Value {
			a := vals(args)
			r.Calls = append(r.Calls, model.Call{Kind: "func", Name: name, Args: reprs(a), Tpl: ctx.Name()})
			return model.FuncResult(name, a, libStr, libNum, libTruth)
		}
	}
	env.Functions["probe"] = func(ctx stick.Context, args ...stick.Value) stick.Value {
		out := ""
		for _, a := range args {
			name := stick.CoerceString(a)
			if v, ok := ctx.Scope().Get(name); ok {
				out += name + "=" + stick.CoerceString(v) + ";"
			} else {
				out += name + "=U;"
			}
		}
		return out
	}
	// render(name) and setvar(name, value) use the context the way a user's callback may: a re-entrant Execute on
	// the same environment into a buffer of the callback's own, and an assignment through the scope
	env.Functions["render"] = func(ctx stick.Context, args ...stick.Value) stick.Value {
		if len(args) != 1 {
			return "RENDER-ARGS"
		}
		var buf bytes.Buffer
		vars := ctx.Scope().All()
		if err := ctx.Env().Execute(stick.CoerceString(args[0]), &buf, vars); err != nil {
			return "RENDER-ERROR"
		}
		return buf.String()
	}
	env.Functions["setvar"] = func(ctx stick.Context, args ...stick.Value) stick.Value {
		if len(args) == 2 {
			ctx.Scope().Set(stick.CoerceString(args[0]), args[1])
		}
		return ""
	}
	// names() lists every name the scope holds at this point (sorted): nothing may be defined on the side
	env.Functions["names"] = func(ctx stick.Context, args ...stick.Value) stick.Value {
		var ns []string
		for n := range ctx.Scope().All() {
			ns = append(ns, n)
		}
		sort.Strings(ns)
		return strings.Join(ns, ",")
	}
	for _, name := range model.FilterNames {
		name := name
		env.Filters[name] = func(ctx stick.Context, val stick.Value, args ...stick.Value) stick.Value {
			a := vals(args)
			r.Calls = append(r.Calls, model.Call{Kind: "filter", Name: name, Args: append([]string{model.Repr(val)}, reprs(a)...), Tpl: ctx.Name()})
			return model.FilterResult(name, val, a, libStr, libNum)
		}
	}
	for _, name := range model.TestNames {
		name := name
		env.Tests[name] = func(ctx stick.Context, val stick.Value, args ...stick.Value) bool {
			a := vals(args)
			r.Calls = append(r.Calls, model.Call{Kind: "test", Name: name, Args: append([]string{model.Repr(val)}, reprs(a)...), Tpl: ctx.Name()})
			return model.TestResult(name, val, a, libStr, libNum)
		}
	}
}

// NewCoreEnv returns a core environment over the given sources with the recording callbacks.
func NewCoreEnv(sources map[string]string) (*stick.Env, *Recorder) {
	env := stick.New(&ShapedLoader{Templates: sources})
	r := &Recorder{}
	r.Register(env)
	return env, r
}

// NewTwigEnv returns a Twig environment over the given sources with the recording callbacks.
func NewTwigEnv(sources map[string]string) (*stick.Env, *Recorder) {
	env := twig.New(&ShapedLoader{Templates: sources})
	r := &Recorder{}
	r.Register(env)
	return env, r
}
