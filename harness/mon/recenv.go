package mon

import (
	"bytes"
	"fmt"
	"github.com/tyler-sommer/stick"
	"github.com/tyler-sommer/stick/twig"
	"os"
	"path/filepath"
	"regexp"
	"sort"
	"strconv"
	"strings"

	"verifharness/model"
)

// Recorder collects the callback invocations the library makes.
type Recorder struct {
	Calls []model.Call
	// Dest, when set, is the buffer the execution writes its main output to. Every recorded callback looks at it: what
	// it holds at one call is the beginning of what it holds at the next and at the end (the destination only grows -
	// nothing that is being captured shows up there, not even for a moment). DestBad describes the first departure.
	Dest     *bytes.Buffer
	DestBad  string
	destPrev []byte
	DestSeen int
}

// Snap compares the destination with what it held at the previous call.
func (r *Recorder) Snap(where string) {
	if r.Dest == nil || r.DestBad != "" {
		return
	}
	cur := r.Dest.Bytes()
	if len(cur) > 1<<16 {
		cur = cur[:1<<16]
	}
	r.DestSeen++
	if !bytes.HasPrefix(cur, r.destPrev) {
		r.DestBad = fmt.Sprintf("at %s the destination held %q; at the callback before it held %q, which is not its beginning", where, clipb(cur), clipb(r.destPrev))
		return
	}
	r.destPrev = append(r.destPrev[:0], cur...)
}

func clipb(b []byte) string {
	if len(b) > 200 {
		return string(b[:90]) + "..." + string(b[len(b)-90:])
	}
	return string(b)
}

func vals(args []stick.Value) []interface{} {
	out := make([]interface{}, len(args))
	for i, a := range args {
		out[i] = a
	}
	return out
}

func reprs(vs []interface{}) []string {
	out := make([]string, len(vs))
	for i, v := range vs {
		out[i] = model.Repr(v)
	}
	return out
}

func libStr(v interface{}) string  { return stick.CoerceString(v) }
func libNum(v interface{}) float64 { return stick.CoerceNumber(v) }
func libTruth(v interface{}) bool  { return stick.CoerceBool(v) }

// Register installs the recording functions, filters and tests (model.FuncNames etc.) on env.
func (r *Recorder) Register(env *stick.Env) {
	for _, name := range model.FuncNames {
		name := name
		env.Functions[name] = func(ctx stick.Context, args ...stick.Value) stick.Value {
			a := vals(args)
			r.Snap("function " + name)
			r.Calls = append(r.Calls, model.Call{Kind: "func", Name: name, Args: reprs(a), Tpl: ctx.Name()})
			return model.FuncResult(name, a, libStr, libNum, libTruth)
		}
	}
	env.Functions["probe"] = func(ctx stick.Context, args ...stick.Value) stick.Value {
		out := ""
		for _, a := range args {
			name := stick.CoerceString(a)
			if v, ok := ctx.Scope().Get(name); ok {
				out += name + "=" + stick.CoerceString(v) + ";"
			} else {
				out += name + "=U;"
			}
		}
		return out
	}
	// render(name) and setvar(name, value) use the context the way a user's callback may: a re-entrant Execute on
	// the same environment into a buffer of the callback's own, and an assignment through the scope
	env.Functions["render"] = func(ctx stick.Context, args ...stick.Value) stick.Value {
		if len(args) != 1 {
			return "RENDER-ARGS"
		}
		var buf bytes.Buffer
		vars := ctx.Scope().All()
		if err := ctx.Env().Execute(stick.CoerceString(args[0]), &buf, vars); err != nil {
			return "RENDER-ERROR"
		}
		return buf.String()
	}
	env.Functions["setvar"] = func(ctx stick.Context, args ...stick.Value) stick.Value {
		if len(args) == 2 {
			ctx.Scope().Set(stick.CoerceString(args[0]), args[1])
		}
		return ""
	}
	// ctxall() goes through everything a context offers - its name, its environment, its metadata (read, written,
	// listed), its scope (read, written, listed) - and returns nothing: wherever a callback may be called, the
	// context it is handed is complete
	env.Functions["ctxall"] = func(ctx stick.Context, args ...stick.Value) stick.Value {
		_ = ctx.Name()
		_ = ctx.Env().Loader
		m := ctx.Meta()
		m.Set("verif-key", "v")
		m.Get("verif-key")
		m.Get("no-such-key")
		_ = m.All()
		sc := ctx.Scope()
		sc.Set("verif_tmp", 1)
		sc.Get("verif_tmp")
		_ = sc.All()
		return ""
	}
	// names() lists every name the scope holds at this point (sorted): nothing may be defined on the side
	env.Functions["names"] = func(ctx stick.Context, args ...stick.Value) stick.Value {
		var ns []string
		for n := range ctx.Scope().All() {
			ns = append(ns, n)
		}
		sort.Strings(ns)
		return strings.Join(ns, ",")
	}
	for _, name := range model.FilterNames {
		name := name
		env.Filters[name] = func(ctx stick.Context, val stick.Value, args ...stick.Value) stick.Value {
			a := vals(args)
			r.Snap("filter " + name)
			r.Calls = append(r.Calls, model.Call{Kind: "filter", Name: name, Args: append([]string{model.Repr(val)}, reprs(a)...), Tpl: ctx.Name()})
			return model.FilterResult(name, val, a, libStr, libNum)
		}
	}
	for _, name := range model.TestNames {
		name := name
		env.Tests[name] = func(ctx stick.Context, val stick.Value, args ...stick.Value) bool {
			a := vals(args)
			r.Snap("test " + name)
			r.Calls = append(r.Calls, model.Call{Kind: "test", Name: name, Args: append([]string{model.Repr(val)}, reprs(a)...), Tpl: ctx.Name()})
			return model.TestResult(name, val, a, libStr, libNum)
		}
	}
}

var (
	fsSafeName = regexp.MustCompile(`^[A-Za-z0-9_-][A-Za-z0-9_.\\-]*(/[A-Za-z0-9_-][A-Za-z0-9_.\\-]*)*$`)
	fsRing     []string
	fsSeq      int
)

// loaderFor decides where an environment's templates come from: through readers of many shapes from memory, or -
// for one case in eight whose template names are plain relative paths - from files below a directory of their
// own, through the library's filesystem loader. What a template renders does not depend on where its bytes are
// kept. (The library reads a file completely when it loads it; the directories of the last few environments are
// kept, older ones are removed.)
func loaderFor(sources map[string]string) stick.Loader {
	h := uint32(2166136261)
	names := make([]string, 0, len(sources))
	for n := range sources {
		names = append(names, n)
	}
	sort.Strings(names)
	for _, n := range names {
		if !fsSafeName.MatchString(n) || strings.Contains(n, "..") {
			return &ShapedLoader{Templates: sources}
		}
		for _, c := range []byte(n + "\x00" + sources[n]) {
			h = (h ^ uint32(c)) * 16777619
		}
	}
	base := os.Getenv("VERIF_FSENV")
	mod := uint32(8)
	if m, err := strconv.Atoi(os.Getenv("VERIF_FSENV_MOD")); err == nil && m > 0 {
		mod = uint32(m) // (a check with a million cases takes the file system for fewer of them)
	}
	if (h>>5)%8 == 5 {
		// ... or from the library's own memory loader
		return &stick.MemoryLoader{Templates: sources}
	}
	if (h>>5)%mod != 3%mod || base == "" || len(names) == 0 {
		return &ShapedLoader{Templates: sources}
	}
	for _, n := range names { // a name must not be both a file and a directory of another name
		for _, m := range names {
			if strings.HasPrefix(m, n+"/") {
				return &ShapedLoader{Templates: sources}
			}
		}
	}
	fsSeq++
	dir := filepath.Join(base, fmt.Sprintf("%d-%d", os.Getpid(), fsSeq))
	for _, n := range names {
		path := filepath.Join(dir, filepath.FromSlash(n))
		if os.MkdirAll(filepath.Dir(path), 0o755) != nil || os.WriteFile(path, []byte(sources[n]), 0o644) != nil {
			os.RemoveAll(dir)
			return &ShapedLoader{Templates: sources}
		}
	}
	fsRing = append(fsRing, dir)
	if len(fsRing) > 6 {
		os.RemoveAll(fsRing[0])
		fsRing = fsRing[1:]
	}
	return stick.NewFilesystemLoader(dir)
}

// NewCoreEnv returns a core environment over the given sources with the recording callbacks.
func NewCoreEnv(sources map[string]string) (*stick.Env, *Recorder) {
	env := stick.New(loaderFor(sources))
	r := &Recorder{}
	r.Register(env)
	return env, r
}

// NewTwigEnv returns a Twig environment over the given sources with the recording callbacks.
func NewTwigEnv(sources map[string]string) (*stick.Env, *Recorder) {
	env := twig.New(loaderFor(sources))
	r := &Recorder{}
	r.Register(env)
	return env, r
}
