package mon

import (
	"os"
	"runtime"
	"sort"
	"strings"
	"time"
)

// LibGoroutines returns the goroutines (other than the caller's) whose stack
// contains a frame of the library, as "state @ top library frame" strings.
func LibGoroutines() []string {
	buf := make([]byte, 1<<20)
	for {
		n := runtime.Stack(buf, true)
		if n < len(buf) {
			buf = buf[:n]
			break
		}
		buf = make([]byte, 2*len(buf))
	}
	var out []string
	for i, g := range strings.Split(string(buf), "\n\n") {
		if i == 0 {
			continue // the calling goroutine
		}
		if !strings.Contains(g, "github.com/tyler-sommer/stick") {
			continue
		}
		lines := strings.Split(g, "\n")
		state := lines[0]
		if a, b := strings.Index(state, "["), strings.Index(state, "]"); a >= 0 && b > a {
			state = state[a+1 : b]
		}
		top := ""
		for _, l := range lines[1:] {
			if strings.HasPrefix(l, "github.com/tyler-sommer/stick") {
				top = l
				if k := strings.Index(top, "("); k > 0 {
					top = top[:k]
				}
				break
			}
		}
		out = append(out, state+" @ "+top)
	}
	sort.Strings(out)
	return out
}

// OpenFDs returns the open descriptors of the process with their link targets.
func OpenFDs() map[string]string {
	out := map[string]string{}
	ents, err := os.ReadDir("/proc/self/fd")
	if err != nil {
		return out
	}
	for _, e := range ents {
		t, err := os.Readlink("/proc/self/fd/" + e.Name())
		if err != nil {
			continue // the descriptor of the directory listing itself
		}
		out[e.Name()] = t
	}
	return out
}

// Settle gives goroutines that are legitimately finishing a bounded chance to
// exit: it yields (and sleeps a millisecond) until the live-tokeniser gauge and
// the census are both clean, at most rounds times. A goroutine that is still there
// afterwards is blocked, not slow: the verdict rests on its state, not on the wait.
func Settle(rounds int) (left []string, waited int) {
	for i := 0; i < rounds; i++ {
		left = LibGoroutines()
		if len(left) == 0 {
			return nil, i
		}
		runtime.Gosched()
		time.Sleep(time.Millisecond)
	}
	return LibGoroutines(), rounds
}
