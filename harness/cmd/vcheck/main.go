// Command vcheck is the driver and the worker of every property check.
package main

import (
	"encoding/json"
	"flag"
	"fmt"
	"os"
	"path/filepath"
	"strconv"

	"verifharness/fw"
	"verifharness/mon"
	_ "verifharness/props"
)

func main() {
	var (
		worker  = flag.Bool("worker", false, "run as worker")
		prop    = flag.String("prop", "", "property id")
		tier    = flag.String("tier", "quick", "quick|thorough")
		seed    = flag.Int64("seed", 0, "seed (default $VERIF_SEED or 1)")
		from    = flag.Int("from", 0, "")
		to      = flag.Int("to", 0, "")
		stride  = flag.Int("stride", 1, "")
		marker  = flag.String("marker", "", "")
		out     = flag.String("out", "", "")
		replay  = flag.String("replay", "", "replay file")
		only    = flag.Int("only", -1, "run one case index")
		raceBin = flag.String("racebin", "", "path of the -race build")
		list    = flag.Bool("list", false, "list properties")
		descr   = flag.Int("describe", -1, "print case i and exit")
	)
	flag.Parse()
	if *list {
		for _, id := range fw.IDs() {
			fmt.Println(id)
		}
		return
	}
	if *seed == 0 {
		*seed = 1
		if s := os.Getenv("VERIF_SEED"); s != "" {
			if v, err := strconv.ParseInt(s, 10, 64); err == nil {
				*seed = v
			}
		}
	}
	if *replay != "" {
		b, err := os.ReadFile(*replay)
		if err != nil {
			fmt.Println("FRAMEWORK-ERROR", err)
			os.Exit(2)
		}
		var rec struct {
			Property string `json:"property"`
			Tier     string `json:"tier"`
			Seed     int64  `json:"seed"`
			Index    int    `json:"index"`
		}
		if err := json.Unmarshal(b, &rec); err != nil {
			fmt.Println("FRAMEWORK-ERROR", err)
			os.Exit(2)
		}
		*prop, *tier, *seed, *only = rec.Property, rec.Tier, rec.Seed, rec.Index
	}
	p, ok := fw.Lookup(*prop)
	if !ok {
		fmt.Printf("FRAMEWORK-ERROR unknown property %q\n", *prop)
		os.Exit(2)
	}
	if *descr >= 0 {
		p.Init(*tier, *seed)
		b, _ := json.MarshalIndent(p.Describe(*descr), "", " ")
		fmt.Println(string(b))
		return
	}
	if *worker {
		mon.Install()
		fw.RunWorker(p, fw.WorkerOpts{Tier: *tier, Seed: *seed, From: *from, To: *to, Stride: *stride, MarkerPath: *marker, OutPath: *out})
		return
	}
	self, _ := os.Executable()
	verifDir := os.Getenv("VERIF_DIR")
	if verifDir == "" {
		verifDir = filepath.Dir(filepath.Dir(filepath.Dir(filepath.Dir(self)))) // work/<ID>/bin/vcheck -> /verif
	}
	os.Exit(fw.RunDriver(p, fw.DriverOpts{Tier: *tier, Seed: *seed, VerifDir: verifDir, SelfBin: self, RaceBin: *raceBin, Only: *only}))
}
