#!/usr/bin/env python3
# resolve.py <file> <resolution1> [<resolution2> ...]: replaces the conflict blocks of file, in order, by the given texts
# a resolution "OURS" / "THEIRS" / "BOTH" keeps that side(s)
import sys,re
f=sys.argv[1]; res=sys.argv[2:]
s=open(f).read()
pat=re.compile(r'<<<<<<< ours\n(.*?)=======\n(.*?)>>>>>>> theirs\n', re.S)
i=[0]
def rep(m):
    r=res[i[0]]; i[0]+=1
    if r=='OURS': return m.group(1)
    if r=='THEIRS': return m.group(2)
    if r=='BOTH': return m.group(1)+m.group(2)
    return r
s2=pat.sub(rep,s)
assert i[0]==len(res), (i[0],len(res))
open(f,'w').write(s2)
