#!/usr/bin/env python3
"""Writes seeded/<id>/meta.json and seeded/README.md from seeded/index.json."""
import json, os
V = os.path.dirname(os.path.dirname(os.path.abspath(__file__)))
idx = json.load(open(os.path.join(V, "seeded", "index.json")))
rows = []
for name in sorted(idx):
    e = idx[name]
    d = os.path.join(V, "seeded", name)
    if not os.path.isdir(d):
        continue
    demo = open(os.path.join(d, ".demo")).read().split() if os.path.exists(os.path.join(d, ".demo")) else ["?", "?"]
    meta = {
        "id": name,
        "property_broken": e["property"],
        "written_by": "independent sub-agent given only the property text and a scratch worktree",
        "change": e["change"],
        "needs_to_manifest": e["needs"],
        "demonstration": {"file": "demo_test.go.txt", "package_dir": demo[0], "test": demo[1]},
        "confirmed": "bin/seed-intake: fresh scratch worktree of /repo HEAD; clean tree: demo passes; patch applied: go build ok, go test -vet=off -count=1 ./... passes, demo fails",
        "checks_run": ["bin/mutrun seeded/%s/patch.diff %s quick" % (name, c.split()[0]) for c in e["caught_by"]],
        "caught_by": e["caught_by"],
        "round": e.get("round", 1),
    }
    if e.get("strengthened"):
        meta["check_strengthened_because"] = e["strengthened"]
    if e.get("note"):
        meta["note"] = e["note"]
    if e.get("initially_missed"):
        meta["initially_missed_because"] = e["initially_missed"]
    json.dump(meta, open(os.path.join(d, "meta.json"), "w"), indent=1)
    rows.append("| %s | %s | %s | %s | %s |" % (name, e["property"], e["change"].replace("|", "\\|"), e["needs"].replace("|", "\\|"), "; ".join(e["caught_by"]).replace("|", "\\|")))
with open(os.path.join(V, "seeded", "README.md"), "w") as f:
    f.write("# Seeded regressions\n\nEach was written by a fresh sub-agent that saw only the property text and a scratch worktree, confirmed by `bin/seed-intake` "
            "(suite passes with the change, the demonstration fails with it and passes without), and then run against the checks with `bin/mutrun`.\n\n"
            "| id | property | change | needs | caught by |\n|---|---|---|---|---|\n" + "\n".join(rows) + "\n")
print(len(rows), "entries")
