#!/usr/bin/env python3
# own-mutant driver: python3 run.py <spec.py> ; spec defines MUTS = [(name, ids, file, old, new), ...]
import sys, subprocess, os
WT='/tmp/mywt'
env=dict(os.environ, GOFLAGS='-mod=mod', GOPROXY='off', GOSUMDB='off', GOTOOLCHAIN='local')
spec={}
exec(open(sys.argv[1]).read(), spec)
only=sys.argv[2:] 
for name, ids, edits in spec['MUTS']:
    if only and name not in only: continue
    subprocess.run(['git','checkout','-q','--','.'],cwd=WT)
    ok=True
    for f,old,new in edits:
        p=os.path.join(WT,f); s=open(p).read()
        if s.count(old)!=1:
            print(name,'EDIT-FAILED',f,s.count(old)); ok=False; break
        open(p,'w').write(s.replace(old,new,1))
    if not ok: continue
    r=subprocess.run('go build ./... && go test -vet=off -count=1 ./... 2>&1 | tail -15',shell=True,cwd=WT,env=env,capture_output=True,text=True)
    if 'FAIL' in r.stdout or r.returncode!=0 or 'cannot' in r.stderr or r.stderr.strip():
        print(name,'SUITE-FAILS/BUILD',r.stdout[-600:],r.stderr[-600:]); continue
    d=subprocess.run(['git','diff'],cwd=WT,capture_output=True,text=True).stdout
    open('/tmp/mym/%s.diff'%name,'w').write(d)
    subprocess.run(['git','checkout','-q','--','.'],cwd=WT)
    for i in ids:
        r=subprocess.run(['/verif/bin/mutrun','/tmp/mym/%s.diff'%name,i],capture_output=True,text=True)
        out=r.stdout+r.stderr
        v=[l for l in out.splitlines() if 'violations=' in l]
        first=[l for l in out.splitlines() if l.strip().startswith('[')][:2]
        print(name,i,'DETECTED' if r.returncode==1 else ('MISSED' if r.returncode==0 else 'ERR rc=%d'%r.returncode), (v[0].split('violations=')[1].split()[0] if v else ''), ' || '.join(x.strip()[:200] for x in first))
    sys.stdout.flush()
