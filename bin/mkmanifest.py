#!/usr/bin/env python3
"""Regenerates /verif/MANIFEST.json from the table below (kept here so the file is always valid)."""
import json, os, subprocess
V = os.path.dirname(os.path.dirname(os.path.abspath(__file__)))

# id -> (built?, level category, technique, level text, level note, design ref)
M="runtime monitoring: executable reference model compared with the real executor on output, error-or-not"
P = {
 "C01": (True, "exploration", "runtime monitoring: step-budget hooks + Go deadlock detector + crash-isolating worker processes over prefix/fragment-mutation/bounded-exhaustive/random inputs",
         "Every input is parsed through three entry points in worker processes; any process death, recovered panic, runtime deadlock, step-budget or CPU-budget overrun is a violation. Bounded-exhaustive over the fragment alphabet (<=3 quick, <=5 thorough), every prefix and single-fragment mutation of the corpus; sampled beyond that.",
         "Trusts the verif hooks for step counts (CPU budget is the fallback when a hook is lost); inputs >64 KiB and nesting >9000 not exercised.", "DESIGN.md#c01"),
 "C13": (True, "exploration", "runtime monitoring: exhaustive code-point / boundary-pair sweep with inert-grammar monitor and standard decoders (HTML5, ECMAScript, CSS Syntax 3, RFC 3986) as round-trip oracles",
         "Every Unicode scalar value, every invalid byte and every pair over an 84-symbol boundary alphabet and the pairings of every BMP code point with the code points sharing its low bits go through all five escapers (exhaustive); random long strings on top. Output must match the inert grammar, the standard decoder must recover the input, and escaping must be per-character.",
         "Decoders are the harness's implementations of the published algorithms; css NUL exempt (CSS cannot represent it); css terminator defect recorded as known finding with re-verified predicate.", "DESIGN.md#c13"),
 "C15": (True, "exploration", "runtime monitoring: relational oracles on Coerce* return values over a Go-value zoo, all numeric carriers of boundary integers, exhaustive int16, random float64 bit patterns and numeric-string spellings",
         "Totality (panic = violation), fallback for unsupported kinds, identical string/number/truth value across every numeric carrier incl. defined types and float32-exact integers beyond 2^24, float32/float64 twins printed in sequence, wrapper transparency, bit-exact float64->string->number, plain-integer printing; int16 range exhaustive, floats sampled.",
         "Random floats are a sample of 2^64 bit patterns; user types limited to the zoo's shapes.", "DESIGN.md#c15"),
 "C16": (True, "exploration", "runtime monitoring: reflection-computed expectation (element / error / element-or-error) for GetAttr over container x key x argument zoo, recorded Iterate callback traces checked for order, exactly-once and loop identities, cross-checked with Len/Contains/Is*",
         "Full product of the container, key and argument zoos (about 110k calls; every lookup preceded by the same lookup on a namesake or neighbouring value; embedded structs, defined key types, keys with a String method, values uncomparable at run time; every iterated key looked up again) plus template-level lookups; iteration traces at lengths 0..8 through 0..2 pointer levels with early breaks. A panic, a wrong element, a missing error or a trace anomaly is a violation.",
         "User types limited to the zoo's shapes; only one pointer level is required to work.", "DESIGN.md#c16"),
 "C02": (True, "exploration", "runtime monitoring: executor step-budget hook + recover/crash-isolating workers over hostile generated programs x Go-value contexts and built-in filters x value zoo",
         "Every context variable x every awkward key through [], in, for, is defined and set; hand-written templates for every situation the statement names, every built-in filter x the whole value zoo x 21 argument lists (direct and through templates), and seeded hostile programs using every tag and operator with inheritance/include/embed/use/import; any panic, process death (stack), step or CPU budget overrun is a violation.",
         "Template call graphs acyclic, range bounds small literals (both outside the claim); contexts limited to the zoo's shapes.", "DESIGN.md#c02"),
 "C04": (True, "exploration", "runtime monitoring: metamorphic oracle - flat vs reference-parenthesised spelling (pinned operator table, precedence climbing) compared on parsed tree and on rendering under 3 valuations",
         "Exhaustive over all chains of <=2 (quick) / <=4 (thorough) of the 27 binary operators in 11 decorations (unary and stacked prefixes, trailing/inner/nested conditional incl. one nested in the true branch, operands that are interpolated strings / calls / filters / subscripts / literals; every other operand name begins with an operator word), random chains of 5..12 operators on top.",
         "The pinned table is the documented one; rendering panics are left to C02.", "DESIGN.md#c04"),
 "C05": (True, "exploration", "runtime monitoring: reference evaluator (executable model) compared on printed value, error-or-not and the recorded callback log of a recording environment",
         "Exhaustive depth-1 operator x operand table plus typed random expression trees (depth<=4 quick, <=6 thorough) with recording functions/filters/tests, spelled with random white space and quotes in odd cases, every third tree re-evaluated three times in one execution under re-assigned variables; l..r for all pairs of 12 bounds against the invariants of an inclusive range; the callback log must match exactly (name, arguments in order, piped value first).",
         "The model encodes the documented semantics inside the agreement region; trees it refuses are regenerated.", "DESIGN.md#c05"),
 "C03": (True, "exploration", "%s; generated templates whose leaves are hostile literal chunks, comments and verbatim bodies" % M,
         "Seeded structure trees of literal chunks (multi-byte, newlines, lone and closing delimiters) interleaved with prints, comments and verbatim bodies, nested in if/for/block/set/filter/macro bodies to depth 4, spelled with and without inner blanks; byte-exact comparison with the model.",
         "Dynamic parts are trivial by construction; invalid UTF-8 in text is left to C01.", "DESIGN.md#c03"),
 "C06": (True, "exploration", "%s; enumerated if-chains / sequence kinds x lengths x loop forms, random nestings" % M,
         "Exhaustive within the bound: every if-chain shape x truth assignment, every sequence kind x length 0..8 x loop form with all loop fields printed at every position, every inline-if mask for n<=5 (conditions over the element and over the loop record), loop records kept and read later, non-iterables at top level and nested in every loop kind; random nestings to depth 4.",
         "Loop fields inside inline-if bodies and the else of a fully filtered loop are not claimed (stick and Twig differ).", "DESIGN.md#c06"),
 "C07": (True, "exploration", "%s; a registered probe function reads Context.Scope() after every statement" % M,
         "Seeded nestings of set/for/if/macro over a 4-name pool with collisions; visibility and value of every pool name and the complete list of names in scope (names()) observed after every statement, at loop and macro body starts; filter sections; terminating recursive macros.",
         "Assignments to shadowed names, reads before first set in later iterations and macro bodies reading outer variables are excluded (left open by the statement).", "DESIGN.md#c07"),
 "C08": (True, "exploration", "%s and recorded filter-callback log; unique markers on every text run and print" % M,
         "Every nesting of the five capture kinds to depth 2 (quick) / 3 (thorough) x 3 continuations, re-entrant captures (recursive macros, a block rendering itself through block()), random nestings to depth 5 incl. loops, values passed on, includes and embeds of capturing templates, failing renders before every case; any misrouted, duplicated or lost byte shows as a marker mismatch.",
         "block() only targets leaf blocks; macro bodies use only their parameter.", "DESIGN.md#c08"),
 "C09": (True, "exploration", "%s and recorded Context.Name() of a callback in every block body; bounded-exhaustive inheritance configurations" % M,
         "All override patterns {absent, override, override+parent()} for chains L<=3,B<=2 (quick) / L<=4,B<=4 (thorough) x layouts x 5 use variants (none, plain, aliased, same library at two levels, two use statements in one template), parent() called twice in half of the overriding bodies; random larger shapes with block() and nested blocks in loops.",
         "use only in extending templates; aliased originals unique.", "DESIGN.md#c09"),
 "C10": (True, "exploration", "%s with scope probes in host and target; exhaustive product of include/embed forms, call sites, targets and override subsets" % M,
         "2 x 7 x 6 x 5 x 4 x 2 coordinates all run in quick (loop variable colliding once as a string and once as null, construct used again right after the loop), random nested include-in-embed-in-include on top; host variables and the complete scope listing probed after the construct, target variables probed inside; with-hashes of several Go map types.",
         "Macro call sites use the only forms.", "DESIGN.md#c10"),
 "C11": (True, "exploration", "%s, recorded callback log, and metamorphic comparison of the call forms" % M,
         "params 0..4 x args 0..6 x 5 call forms x 9 uses exhaustively (incl. twice in a row, after a loop, one import statement executed with computed names, a from-import named like a registered function, definition and call inside embedded/included templates), unknown-macro errors, terminating recursion, random acyclic macro nests.",
         "Stated exclusions (_self through imports, definitions before calls, bodies use parameters only).", "DESIGN.md#c11"),
 "C12": (True, "exploration", "runtime monitoring: sentinel-bracketed prints in a Twig environment; per-segment exactness against the escaper for the statement's content-type rule and whole-output scan for significant characters",
         "Exhaustive product of the template names x 38 constructs x same/different helper type x 13 payloads x 9 value wrappers (incl. derived safe values and defined scalar types with a String method); random payloads over the significant alphabet on top.",
         "User-registered escapers not exercised; indirect prints (captures, macros, block(), parent()) are held to safety only, as the statement does.", "DESIGN.md#c12"),
 "C14": (True, "exploration", "runtime monitoring: metamorphic oracle - every re-spelling (whitespace at each token boundary, quotes, trailing commas, trim markers) must render the same bytes, error kind and callback log as the canonical spelling",
         "One template per tag kind and expression form (41), each at 5 placements; exhaustive single-boundary sweep x 7 whitespace strings, pairwise sweeps, uniform and combined variants; random programs x random re-spellings.",
         "Tokens are the generator's; whitespace may be empty only where tokens cannot merge (gen.CanAbut).", "DESIGN.md#c14"),
 "C17": (True, "fault_enumeration", "runtime monitoring with fault injection: recording fault writer (fails at the k-th Write, whole or half) and fault loader (k-th Load: error or broken source), failing constructs with recorded marker calls; differential against the fault-free run",
         "Every fault point of every template of the set: writer at each k=1..W (three modes: reject, accept half, accept all and report an error), ExecuteSafe again after a failed delivery, failing hash keys, loops over scalars, loader at each k=1..L (two modes, Execute and ExecuteSafe), a failing construct at each node boundary of generated programs; oracles: non-nil error, accepted bytes are a prefix, no Write after a failed Write, ExecuteSafe writes nothing on failure and equals Execute on success.",
         "Template set = 22 hand-written + 300 (quick) / 3000 (thorough) generated programs; a writer fault in ExecuteSafe must be reported but may leave partial output.", "DESIGN.md#c17"),
 "C18": (True, "exploration", "Go race detector (-race workers, halt_on_error=0, logs parsed and deduplicated by the driver) plus differential monitor: every concurrent result equals the sequential result on a fresh environment; yield-injecting traverse hook and interleaving fingerprints in plain workers",
         "Rounds of N in {2,4,16,64} goroutines x GOMAXPROCS {1,2,16} doing mixed Execute/Parse on one shared Twig and one shared core environment over 37 hand-written templates of mixed content types (failing captures, filters over a slice with spare capacity and a map shared by all contexts, checked intact after every round) and 10/24 generated programs; calls with and without a context map; error values held until the end of the round and read again; a rendezvous in a six-deep include chain in the 64-goroutine rounds; half the rounds under the race detector with a bare-Gosched hook, half in the plain build with seeded yields and an event log.",
         "Only the schedules the Go scheduler plus the yield hook produce; harness callbacks are pure.", "DESIGN.md#c18"),
 "C19": (True, "exploration", "runtime monitoring: goroutine census (runtime.Stack(all)), live-tokeniser gauge from the verif hook and /proc/self/fd census after every call of a history, GC disabled",
         "Every corpus template with a syntax error injected at every (quick: every third) fragment boundary through string/memory/filesystem loaders, every sequence of <=3/<=4 hostile fragments, plus seeded histories of up to 50/200 calls (settled files reloaded through one loader) mixing valid templates, tokeniser/parser failures, broken includes/extends/imports, run-time failures and missing files.",
         "A goroutine present after 200 yield+1ms rounds is blocked (leaked tokenisers block on a channel nobody drains).", "DESIGN.md#c19"),
 "C20": (True, "exploration", "runtime monitoring: self-identifying anchors recorded by the speller vs positions reported by the parsed tree; reference scanner for truncations; injected tokens located by content; named-template errors",
         "Positions on 8k/300k multi-line templates; every truncation offset of the injection and generated templates; '@' at every token boundary, a surplus literal before every closing delimiter, a stray closing bracket at every bracket-free boundary and an unknown tag; 101 kinds of broken template under 7 names through 8 loading paths; error text must agree with the error's position; at every statement position of 41 templates x 3 placements; broken named templates through 8 loading paths.",
         "Comments, filters, attribute and operator expressions are not anchors named by the statement; injections inside endverbatim excluded.", "DESIGN.md#c20"),
}
# what later rounds added to a check's exploration (appended to its level text)
EXTRA = {
 "C16": "Indexes in (-1, 0); maps holding a nil key; methods promoted through nil embedded values must error. Unsigned arguments beyond the signed range of the same width; exact conversion oracle; safe-wrapped keys count as the key inside. Containers of up to 65537 elements; accessor-style method names; the length filter against the traversal. Negative zero keys; numbers on number-keyed maps must find their entry; non-ASCII method names. Shadowed and ambiguous field names across embedded structs.",
 "C01": "Plus every ordered pair (thorough: triple) of some 170 statements - every tag with literal / name / conditional / interpolated / list / hash arguments. Flat chains of 600 / 1500 (thorough 9000) repetitions of 41 cheap elements. Literals where a test's name is expected; sources that are names; ladders with two nested blocks per embed level. Non-ASCII letters where names are expected.",
 "C02": "Plus every context variable (incl. NaN-, interface-, bool- and struct-keyed maps) handed to every construct that takes a whole value (with-hash, template name, key-value loop, container filters ...); case-mapping oddities, long lists and fractional arguments for the filters. Every method of a struct x every variable as argument; structs embedding nil interfaces and pointers. 30 pattern-like strings in 11 forms for matches; divisors that truncate to zero. The executor's own names (loop, _self) bound to every variable; nil pointers to standard-library types. Hand templates under 26 names; structs holding cyclic containers; nil containers of types with methods; methods promoted through up to 13 levels from a nil value. ctxall(): a callback using everything its context offers, called from everywhere; multi-byte date formats.",
 "C03": "Sources are read through readers of four shapes (all at once, byte by byte, halves, last bytes with io.EOF); near misses of endverbatim in verbatim bodies; templates defining a block name twice must be refused or rendered with every text run once. endraw and other end tags in verbatim bodies. Embeds with stray comments in the embed body. Vast layout (33..1025 characters of white space per boundary); readers with methods of their own. Non-text bytes in text runs; an eighth of the environments loads from files through the filesystem loader. An empty included template; the library's own MemoryLoader for an eighth of the environments.",
 "C04": "Every chain is also parsed without any dispensable blank and with a line break between any two tokens; operands of prefix operators also in parentheses. Every chain also inside ten contexts (subscript, argument lists, array, hash value and key, interpolation). Numbers may abut the word operator behind them. Bare computed hash keys. All-literal operands; a valuation of floats whose sums depend on the order.",
 "C05": "Hostile string literals (quotes, braces, delimiters), callback-computed hash keys, indexes after a dot followed by a further access, bitwise operands beyond 16 bits, negative divisors. Leading-zero literals; non-numeric needles in ranges. Every operand form as subscript of a hash and a list; backslash strings. Signed numeric strings. Multi-entry hashes with callbacks in keys and values; parenthesised simple keys.",
 "C06": "loop.parent chains as long as the nesting; ranges written directly in the tag. 48 carriers of a condition value against the documented truth table in seven condition positions. Implementers of two disagreeing coercion interfaces; loop bookkeeping over maps with 2-4 entries. Loop bodies that are overridden blocks; traps in everything not selected; loops of up to 4097 passes and 40 loops deep. Loops in templates included / embedded from inside a loop. Struct elements with pointer-receiver methods: loop element against indexed element.",
 "C07": "54 enumerated chains child -> [middle ->] layout with assignments at the top level of every template. Inline loop conditions rejecting the first or every element. An assigning host macro called from an included target. Parameters and variables named loop; sets in for-else branches; sets inside blocks rendered for their value. Underscore names; include expressions that assign through a callback. A kept loop record.",
 "C08": "White-space-only leaves; one leaf in 40 ends the execution with an error (nothing collected by open captures may show). Captures and assignments outside the blocks of an extending template that call macros defined there. 300 (thorough 3000) captures, block() and parent() calls in one execution. Captured values handed to a recording callback; captures in for-else branches. Re-entrant render() callbacks; empty blocks inside captures filled by a child; values produced inside do; renders into io.Discard. Empty captures are empty strings; sections naming absent filters.",
 "C09": "Alias chains in one use statement rendered eight times (either reading, but the same one); nested re-definition of another layout block with parent(); blockless embeds in overrides. Library blocks defined inside if / for / capture / filter; imported blocks with a nested block before parent(). parent() inside captures and filter sections; chains of 40 / 300 (thorough 1000) templates. Near-miss block names; padded template names with decoys; self-extension. extends after blocks; a macro call before parent(); parent names from a recorded callback. use of the extended template.",
 "C10": "with-hashes of six Go map types incl. map[interface{}]interface{} and *map. Targets whose blocks come from use alone; conditional with-expressions; the target calls an assigning host macro. Dot-prefixed names in directories with decoys; terminating self-inclusion. Name and with-hash expressions that assign; callback logs compared; render()-based recursion. Backslash names; with-keys _context / _charset.",
 "C11": "An eleventh use: defined / imported at the top level of an extending template and called in its block; a third of the cases spelled wide, a third tight. A twelfth use: called from assignments at the top level of an extending template. Embedded / included templates defining macros under the host's names; unknown macro of an alias whose name a from-import binds. Macros with up to 130 parameters; macros and parameters named like built-ins (block, parent, varargs, loop ...). Import aliases colliding with parameters and loop variables. Macros defined inside constructs of a library.",
 "C12": "37 template names, incl. file names containing %, {, }} and #. Container types with a String method and a value marked safe for no type among the wrappers. Escape strategies taken from variables and expressions. Path elements spelling extensions; a Stringer that changes its answer; strategy names of other Go types. Names twig, .twig ...; escape with further arguments. Inline sources with lone braces and with line breaks in delimiters; negative numbers as values.",
 "C13": "Long values aligned to every offset within 12 bytes of 2^6..2^13 (thorough: 2^17); scheme prefixes and partial escape introducers in the boundary alphabet. Six rounds of 16 concurrent callers of all escapers. Whole strings (numbers in every Go spelling, URLs, entity-like text); long values of 32 and 64 KiB. Runs of one expanding character. Tokens of other languages and terminals as whole strings.",
 "C14": "Hashes directly in front of closing delimiters, inside brackets and arguments, and holding interpolated strings (closing braces may touch). Filters behind signed literals; long templates aligning every tail token with token numbers 128 .. 16384. Strings with a '#' that opens no interpolation, in both quote kinds. Backslash strings; 1100 / 4200 / 66000 characters of white space at every boundary. Differences whose right operand begins like a word operator. Text beginning with closing braces behind an interpolation.",
 "C15": "Float carriers for every integer the float holds exactly (also beyond 2^53). uintptr, decimal.Decimal and Number implementers as carriers; nil embedded interfaces. A typed nil pointer to an application-defined safe value; two nil embedded pointers. Numeric types with Error / Format / GoString methods; a foreign safe wrapper with coercion methods of its own; structs embedding a nil SafeValue. *decimal.Decimal and Number implementers of any size as carriers; digit strings around 2^64. Own methods over nil embedded values of the same names.",
 "C17": "Every writer fault also through a destination with WriteString; ten kinds of failing sub-expression. Loads outside the blocks of an extending template as fault points; 17 templates that cannot succeed. Modulo by a divisor that truncates to zero must be an error. More templates that cannot succeed (aliases equal to missing names, lenient forms of other Twig dialects around failing templates). Failing name expressions next to a template called \"\". Standard-library error values for failing reads; callbacks registered under Twig's names.",
 "C18": "Sequential results from a fresh environment pair per template; every -race worker starts cold (all templates walked concurrently before anything has run); names with two meanings across templates; replace with overlapping keys. date / number_format / json_encode templates over time.Time and decimal values. Filter sections naming escape / e / raw next to templates applying the same filters to values. A loader with one shared error value; a filesystem loader with a relative root; duplicate from-import / use aliases. 112 kinds of syntax error under the race detector; a visitor that re-enters its environment behind a parse-time barrier. A second environment built and configured during every round; a callback filling the hash literal it is handed.",
 "C19": "Files of 0, 4097, 1 MiB and 9 MiB bytes. Symbolic links and dotted names in the filesystem fixture. A name with .. leading to an existing file outside the root. Files beginning with byte order marks and magic numbers. Broken interpolations among the files. Links to procfs files.",
 "C20": "Multi-word operators and tests with their words on different lines; names and indexes after a dot are anchors. A template whose read fails must be named by the error. Truncation errors must point at the end of input, the open tag's name or a token of the cut tag; surplus literals of every spelling (name-like ones behind end-tag names and else). Positions beyond line and column 65536. Unknown tags in embed bodies; a loader of anonymous templates. Duplicate-block errors; the 'in NAME' of a message must be the template.",
}

NOT_BUILT_REASON = "check not built yet in this round (planned: see DESIGN.md section for this property)"

def main():
    checks, na = [], []
    ids = ["C%02d" % i for i in range(1, 21)]
    for pid in ids:
        if pid in P and P[pid][0]:
            _, cat, tech, text, note, ref = P[pid]
            if pid in EXTRA:
                text = text.rstrip() + " " + EXTRA[pid]
            checks.append({
                "property_id": pid,
                "quick_cmd": "bin/check %s quick" % pid,
                "thorough_cmd": "bin/check %s thorough" % pid,
                "evidence_file": "evidence/%s.json" % pid,
                "replay_cmd_template": "bin/check %s --replay {path}" % pid,
                "engine": "vcheck",
                "level_claimed": {"category": cat, "text": text, "design_ref": ref},
                "level_note": note,
                "technique": tech,
            })
        else:
            na.append({"property_id": pid, "reason": NOT_BUILT_REASON})
    hooks = subprocess.run(["git", "-C", "/repo", "log", "--format=%H %s", "--reverse"], capture_output=True, text=True).stdout.splitlines()
    hook_commits = [l.split()[0] for l in hooks if l.split(" ", 1)[1].startswith("verif hooks")]
    m = {
        "version": 1,
        "setup_cmd": "bin/setup",
        "hooks": {
            "guard": "verif",
            "enable": "go build -tags verif (the harness module replaces github.com/tyler-sommer/stick with /repo, so every check compiles /repo's working tree with the hooks on)",
            "baseline_off_cmd": "cd /repo && GOFLAGS=-mod=mod GOPROXY=off GOSUMDB=off GOTOOLCHAIN=local go test -vet=off -count=1 ./...",
            "source_commits": hook_commits,
            "add_only": True,
        },
        "engines": [{
            "name": "vcheck", "path": "harness/cmd/vcheck",
            "serves_properties": [c["property_id"] for c in checks],
            "kind_free_text": "Go driver + crash-isolating worker processes; monitors subscribe to verif-tagged hooks (step budgets, tokeniser gauge, executor node tally, end-of-execute invariant); reference models and decoders as oracles; Go race detector for C18",
        }],
        "checks": checks,
        "not_applicable": na,
        "notes": "Exit codes of bin/check: 0 held on everything explored, 1 VIOLATION, 2 inconclusive/build problem (never reported as a violation). VERIF_SEED selects the PRNG seed (default 1).",
    }
    if not na:
        del m["not_applicable"]
    json.dump(m, open(os.path.join(V, "MANIFEST.json"), "w"), indent=1)
    print("checks:", len(checks), "not_applicable:", len(na))

if __name__ == "__main__":
    main()
